#!/bin/bash
# usage: seedtest.sh <seed-dir> <prop> [<prop>...]
# applies <seed-dir>/patch.diff to /repo, runs the quick checks, reverts.
d=$1; shift
cd /repo || exit 2
if ! git diff --quiet; then echo "repo dirty"; exit 2; fi
if ! git apply --check "$d/patch.diff" 2>/dev/null; then echo "PATCH DOES NOT APPLY: $d"; exit 3; fi
git apply "$d/patch.diff"
for p in "$@"; do
  out=$(cd /verif && VERIF_DIR=/tmp/seedtest_out ./check.sh $p quick 2>&1)
  code=$?
  echo "== $d $p exit=$code"
  echo "$out" | grep -E "failure|VIOLATION|KNOWN|error" | head -6
done
git -C /repo checkout -- .
