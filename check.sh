#!/bin/bash
# usage: check.sh <ID> quick|thorough | check.sh <ID> --replay <file>
# Rebuilds the harness against /repo's current working tree (path dependency)
# and runs one property check. Exit 0 held / 1 violation / 2 infrastructure.
cd "$(dirname "$0")/harness" || exit 2
export CARGO_NET_OFFLINE=true
id=$1; shift
if ! cargo build --release --offline >/tmp/walrus-verif-build.$$.log 2>&1; then
  echo "harness build failed (walrus does not compile against the harness?)" >&2
  tail -30 /tmp/walrus-verif-build.$$.log >&2
  rm -f /tmp/walrus-verif-build.$$.log
  exit 2
fi
rm -f /tmp/walrus-verif-build.$$.log
bin=./target/release/walrus-verif
if [ "$id" = "C09" ]; then
  # C09 compares the serial build with a second build of the harness that
  # links walrus with its `parallel` feature
  if ! cargo build --release --offline --features parallel --target-dir target-par >/tmp/walrus-verif-build.$$.log 2>&1; then
    echo "parallel harness build failed" >&2
    tail -30 /tmp/walrus-verif-build.$$.log >&2
    rm -f /tmp/walrus-verif-build.$$.log
    exit 2
  fi
  rm -f /tmp/walrus-verif-build.$$.log
  export WALRUS_VERIF_SERIAL="$PWD/target/release/walrus-verif"
  bin=./target-par/release/walrus-verif
fi
case "$1" in
  --replay) exec $bin check "$id" --replay "$2" ;;
  thorough) exec $bin check "$id" --tier thorough ;;
  *) exec $bin check "$id" --tier quick ;;
esac
