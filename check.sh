#!/bin/bash
# usage: check.sh <ID> quick|thorough | check.sh <ID> --replay <file>
# Rebuilds the harness against /repo's current working tree (path dependency)
# and runs one property check. Exit 0 held / 1 violation / 2 infrastructure.
cd "$(dirname "$0")/harness" || exit 2
export CARGO_NET_OFFLINE=true
id=$1; shift
if ! cargo build --release --offline >/tmp/walrus-verif-build.$$.log 2>&1; then
  echo "harness build failed (walrus does not compile against the harness?)" >&2
  tail -30 /tmp/walrus-verif-build.$$.log >&2
  rm -f /tmp/walrus-verif-build.$$.log
  exit 2
fi
rm -f /tmp/walrus-verif-build.$$.log
case "$1" in
  --replay) exec ./target/release/walrus-verif check "$id" --replay "$2" ;;
  thorough) exec ./target/release/walrus-verif check "$id" --tier thorough ;;
  *) exec ./target/release/walrus-verif check "$id" --tier quick ;;
esac
