#!/bin/bash
# usage: check.sh <ID> quick|thorough | check.sh <ID> --replay <file>
# Rebuilds the harness against /repo's current working tree (path dependency)
# and runs one property check. Exit 0 held / 1 violation / 2 infrastructure.
cd "$(dirname "$0")/harness" || exit 2
export CARGO_NET_OFFLINE=true
id=$1; shift
if ! cargo build --release --offline >/tmp/walrus-verif-build.$$.log 2>&1; then
  echo "harness build failed (walrus does not compile against the harness?)" >&2
  tail -30 /tmp/walrus-verif-build.$$.log >&2
  rm -f /tmp/walrus-verif-build.$$.log
  exit 2
fi
rm -f /tmp/walrus-verif-build.$$.log
bin=./target/release/walrus-verif
if [ "$id" = "C09" ]; then
  # C09 compares the serial build with a second build of the harness that
  # links walrus with its `parallel` feature
  if ! cargo build --release --offline --features parallel --target-dir target-par >/tmp/walrus-verif-build.$$.log 2>&1; then
    echo "parallel harness build failed" >&2
    tail -30 /tmp/walrus-verif-build.$$.log >&2
    rm -f /tmp/walrus-verif-build.$$.log
    exit 2
  fi
  rm -f /tmp/walrus-verif-build.$$.log
  export WALRUS_VERIF_SERIAL="$PWD/target/release/walrus-verif"
  bin=./target-par/release/walrus-verif
fi
case "$1" in
  --replay) exec $bin check "$id" --replay "$2" ;;
  thorough) ;;
  *) exec $bin check "$id" --tier quick ;;
esac

# ---- thorough: proptest part, then a coverage-guided libFuzzer campaign ----
$bin check "$id" --tier thorough
rc=$?
[ $rc -ne 0 ] && exit $rc
case "$id" in
  C01|C06) target=structured; gen=exec ;;
  C18) target=structured; gen=exec-dup ;;
  C03|C04) target=structured; gen=full ;;
  C02|C07|C08|C11|C19|C20) target=structured; gen=full-nobig ;;
  C10) target=structured; gen=dwarf ;;
  C12) target=structured; gen=customs ;;
  C13) target=structured; gen=names ;;
  C14) target=structured; gen=c14 ;;
  C15|C16) target=structured; gen=builder ;;
  C17) target=structured; gen=c17 ;;
  C05) target=gate; gen=bytes ;;
  *) exit 0 ;;   # C09: the co-process protocol is not wired into a fuzz target
esac
seed=$(( ${VERIF_SEED:-0} + 1 ))
runs=${VERIF_FUZZ_RUNS:-300000}
corpus="fuzz/corpus/$target-$id-$$"
mkdir -p "$corpus"
if [ "$target" = gate ]; then
  ./target/release/walrus-verif dump-corpus "$corpus" >/dev/null 2>&1
else
  python3 - "$corpus" "$seed" <<'PY'
import sys, random
d, seed = sys.argv[1], int(sys.argv[2])
r = random.Random(seed)
for i in range(16):
    n = [64, 200, 600, 1500][i % 4]
    open(f"{d}/seed{i}", "wb").write(bytes(r.randrange(256) for _ in range(n)))
PY
fi
log="fuzz/fuzz-$id-$$.log"
VERIF_FUZZ_PROP=$id VERIF_FUZZ_GEN=$gen cargo +nightly fuzz run -s none "$target" "$corpus" -- \
    -runs=$runs -seed=$seed -max_len=4096 -len_control=0 -rss_limit_mb=6000 -timeout=120 \
    -max_total_time=${VERIF_FUZZ_SECONDS:-900} -print_final_stats=1 >"$log" 2>&1
frc=$?
grep -E "^VIOLATION|^  failure" "$log"
execs=$(grep -o "stat::number_of_executed_units: [0-9]*" "$log" | grep -o "[0-9]*$" | tail -1)
cov=$(grep -o "cov: [0-9]*" "$log" | tail -1 | grep -o "[0-9]*")
./target/release/walrus-verif evidence-add "$id" libfuzzer "{\"target\":\"$target\",\"generator\":\"$gen\",\"executions\":${execs:-0},\"edge_coverage\":${cov:-0},\"seed\":$seed,\"exit\":$frc}" >/dev/null 2>&1
rm -rf "$corpus"
if grep -q "^VIOLATION" "$log"; then rm -f "$log"; exit 1; fi
if [ $frc -ne 0 ] && ! grep -q "stat::number_of_executed_units" "$log"; then
  echo "libFuzzer campaign did not run (build failure or crash outside the oracle); see $log" >&2
  tail -20 "$log" >&2
  exit 2
fi
rm -f "$log"
exit 0
