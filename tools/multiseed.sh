#!/bin/bash
# usage: multiseed.sh <first> <last> [props...] : run quick checks under several seeds, report non-zero exits
first=$1; last=$2; shift; shift
props=${@:-C01 C02 C03 C04 C05 C06 C07 C08 C09 C10 C11 C12 C13 C14 C15 C16 C17 C18 C19 C20}
export VERIF_DIR=${VERIF_DIR:-$PWD}
for s in $(seq $first $last); do
  for p in $props; do
    out=$(VERIF_SEED=$s ./check.sh $p quick 2>&1); code=$?
    if [ $code -ne 0 ]; then echo "seed=$s $p exit=$code"; echo "$out" | grep -E "failure|VIOLATION|error" | head -4 | cut -c1-400; fi
  done
  echo "seed $s done"
done
