#!/bin/bash
# usage: verify_seeds.sh <dir-with-seed-dirs> <out.tsv>
# For each seed: in a scratch worktree of /repo HEAD, check that the patch applies,
# the suite passes with it, the demo fails with it and passes without it.
src=$1; out=$2
wt=/tmp/wt/verify_$$
git -C /repo worktree add -q --detach $wt HEAD || exit 2
export CARGO_NET_OFFLINE=true
cd $wt
: > $out
for d in $src/*/; do
  n=$(basename $d)
  if grep -q "^$n	" /verif/seeded/verified.tsv 2>/dev/null; then continue; fi
  git checkout -q -- . ; rm -f examples/demo.rs
  if ! git apply --check $d/patch.diff 2>/dev/null; then echo -e "$n\tNOAPPLY" >> $out; continue; fi
  # C09 demos need walrus's `parallel` feature (and rayon), which the test
  # suite is built without: the suite runs before the demo is copied in
  feat=""; case $n in C09*) feat="--features parallel";; esac
  if [ -n "$feat" ]; then
    git apply $d/patch.diff
    if timeout 900 cargo test -q --offline -p walrus -p walrus-tests -p walrus-macro >/tmp/seedverify.log 2>&1; then tests=pass; else tests=FAIL; fi
    git apply -R $d/patch.diff
  fi
  cp $d/demo.rs examples/demo.rs
  # pristine: demo must pass
  if timeout 600 cargo run -q --offline $feat --example demo >/dev/null 2>&1; then clean=pass; else clean=FAIL; fi
  git apply $d/patch.diff
  if [ -z "$feat" ]; then
    if timeout 900 cargo test -q --offline -p walrus -p walrus-tests -p walrus-macro >/tmp/seedverify.log 2>&1; then tests=pass; else tests=FAIL; fi
  fi
  if timeout 600 cargo run -q --offline $feat --example demo >/dev/null 2>&1; then patched=PASS; else patched=fail; fi
  echo -e "$n\tclean-demo=$clean\ttests-with-patch=$tests\tpatched-demo=$patched" >> $out
done
git checkout -q -- . ; rm -f examples/demo.rs
cd /
git -C /repo worktree remove --force $wt
