#!/usr/bin/env python3
"""Regenerate /verif/MANIFEST.json from the table below."""
import json, os, sys
V = os.path.dirname(os.path.dirname(os.path.abspath(__file__)))
props = [json.loads(l) for l in open(os.path.join(V, 'properties.jsonl'))]

# id -> (technique, level text, level note, design ref)
CLAIMED = {
 'C01': ("differential execution on a reference interpreter (hand-written, wasmparser only) over generated modules x host environments x call scripts (proptest)",
         "Input and walrus's output are executed side by side on the harness's own interpreter with the same seeded host environment and the same call script (state carried over, visible table entries called at the end); instantiation outcome, results, trap classes, host-call traces and the state of every imported/exported memory, global and table must agree. Exploration over sampled programs and scripts; lane-wise SIMD arithmetic is covered syntactically by C03 instead.",
         "The interpreter is the trusted base (it is used differentially, so a shared misreading of an operator that does not depend on an immediate cannot hide an immediate/index error); fuel and call-depth exhaustion are inconclusive.",
         "DESIGN.md §4 C01, §3.3"),
 'C06': ("differential execution as C01 after the GC pass + validity + export-list equality + custom-section-root mode (proptest)",
         "parse>gc>emit must not panic, must validate, must keep the export list and must behave identically on the reference interpreter; modules whose original instantiation fails are skipped as the statement tolerates. A second mode roots one arbitrary function through CustomSection::add_gc_roots and requires it and everything it refers to to survive unchanged at the index the section is told.",
         "As C01.",
         "DESIGN.md §4 C06"),
 'C09': ("differential testing of two builds (serial co-process vs parallel feature) under scoped rayon pools with seeded schedule perturbation (proptest)",
         "Every generated module (1-400 functions, valid and with errors inside bodies) is parsed and emitted by the serial build and, in the parallel build, inside pools of 1,2,3,4,8,16 threads with repeats while yields/sleeps are injected from inside the parallel closures; decisions and bytes must be identical; the comparison is repeated with the GC pass between parse and emit, with a custom section that echoes the code transform into the output, and with DWARF generation on for inputs carrying LLVM-like DWARF; some inputs have a function body above 32 KiB. Schedules are sampled, not enumerated: this is the stated limit of the technique for this property.",
         "rayon's scheduler is not under harness control; a violation needing one exact interleaving can be missed.",
         "DESIGN.md §4 C09, §6"),
 'C18': ("metamorphic differential execution: host-function-as-model vs replaced body; lock-step comparison for export replacement (proptest)",
         "replace_imported_func: the original module run with the host function replaced by the closed-form model of the generated body must equal the edited module on all observables; the import list must shrink by exactly that entry; the id must be unchanged. replace_exported_func: calls to that export must return the model's results without side effects while all other calls equal the original run (re-exported imports are candidates too: refused today, judged alike if accepted); replacement bodies may leave parameters unread; the replaced function keeps its debug name; a refused replacement must leave the emitted module byte-identical. Output must validate.",
         "Replacement bodies come from a side-effect-free family with a closed-form model.",
         "DESIGN.md §4 C18"),

 'C10': ("property-based generation of modules with synthesized DWARF (proptest) + LLVM-made corpus, gimli read-back against an independently derived offset map",
         "Well-formed DWARF 4/5 is synthesized for generated modules (one row per operator with a unique line number, one subprogram per function, single- and multi-function sequences, both low_pc conventions, v5 rows naming file 0, function counts and body sizes around LEB boundaries); after unchanged / GC / instruction-insertion round trips the output DWARF is read back with gimli and every row and subprogram range is checked against the true instruction map obtained from independent decodes and the verified bijection. clang/wasm-ld outputs committed under corpus/real cover real LLVM DWARF 4 and 5.",
         "Functions that have a content-identical unreferenced twin cannot be tracked and are not judged; multi-function sequences and the entry-start low_pc convention are recorded known findings.",
         "DESIGN.md §4 C10, §2.4"),

 'C11': ("property-based generation x {unchanged, inserted instructions, GC} (proptest), spy CustomSection + independently derived true offset map",
         "A spy custom section records the CodeTransform; every (input offset, output offset) pair must lie in the true instruction map derived from independent decodes of both binaries and the verified bijection, no pair may carry the default location, every function range must equal the emitted code entry of the function's image, and code_section_start must be the output's code-section content start. Exploration over sampled modules incl. function counts around 127/128.",
         "Pairs that fall into dead code walrus happens to retain cannot be judged and are counted separately.",
         "DESIGN.md §4 C11"),
 'C13': ("property-based generation of name sections (proptest), bijection-based name transport oracle",
         "Names of every kind are transported through the independently verified renumbering bijection (plain, synthetic-name config, GC, producers off; a further pass after replace_exported_func judged by per-function tags); name sections contain dangling entries for indices nothing is defined at: every input name on a surviving entity must be on its image, every output name must come from its preimage, with exactly the allowances of the statement.",
         "Name section placed after the data section; GC-mode ambiguity between content-identical entities resolved in walrus's favour.",
         "DESIGN.md §4 C13"),
 'C14': ("exhaustive enumeration of the 2^5 switch combinations per generated input (proptest for inputs), metamorphic one-switch-at-a-time oracle",
         "For each input all 32 configurations are run; outputs differing in one switch must differ exactly as documented (name / producers section removed and nothing else, .debug_* present iff DWARF on and present in the input, code-transform and only-stable flags neutral), producers content is preserved in both directions (nothing lost, nothing listed that the input did not list in that field) with exactly one walrus entry after 1-3 round trips, DWARF sections are attached in either order (optionally with an unreferenced .debug_str_offsets table) and the subprogram names read from the output's DWARF must equal the input's, and an on_parse counter is 1 after Ok and 0 after Err (valid and mutated inputs) through ModuleConfig::parse, parse_file, Module::from_file_with_config and from_buffer_with_config, which must also agree on the output; configurations are reached through setter histories (each switch possibly set to the opposite value first, strict_validate toggled); Module::from_file / from_buffer / emit_wasm_file agree; producers added through the API are emitted next to the input's.",
         "DWARF inputs are synthesized well-formed DWARF; arbitrary .debug_* bytes are only used with DWARF generation off.",
         "DESIGN.md §4 C14"),
 'C19': ("property-based generation (proptest), observation through on_parse and a spy CustomSection, decode + bijection oracle",
         "Inside on_parse every index of every index space is resolved to an id and checked against the independent decode of the input (content, import names, body range, local types and parameter positions; out-of-range must fail); inside CustomSection::data every live id's emitted index must be the image of its input index under the independently verified bijection; plain, GC and synthetic-name modes; functions and data segments are additionally identified by generator tags / payloads, so the emit-time map is judged even when the structural comparison fails.",
         "LocalFunction::original_range identifies parsed bodies.",
         "DESIGN.md §4 C19"),

 'C07': ("property-based generation of modules with garbage (proptest), independent reachability analysis on the emitted binary + byte-equality for idempotence",
         "After parse>gc>emit, a reachability analysis written from the property text (roots: exports, start, active data, active elements of imported tables, declared elements) must cover every entity and type of the output, with the single documented memory residue; gc twice and gc of the gc output must reproduce the same bytes.",
         "Raw custom sections add no roots; wasmparser decodes the output.",
         "DESIGN.md §4 C07, §3.4"),
 'C15': ("model-based generation: typed model tree + independent construction plan (proptest), flattening oracle",
         "A model tree of stack-neutral statements with nested block/loop/if-else and branches is realised through the builder API by a generated plan (insertion order, append vs *_at, closure-nested vs dangling sequences attached before/after filling, fills deferred to the end); the decoded emitted body must equal the model's in-order flattening including branch depths, block signatures (0-2 parameters and results via InstrSeqType::new), parameter positions and an injective, type-correct local slot map; in half of the cases nested sequences are allocated before the sequences that later enclose them.",
         "Statements are restricted to a typed family that is valid by construction (i32 arithmetic, locals, branches to value-less labels, 42 scalar unary operators applied to a constant and dropped, three shapes of i32 load on three memories compared with their immediates).",
         "DESIGN.md §4 C15"),
 'C16': ("property-based generation of instruction trees (parsed and builder-made), reference-walk oracle; child process on a 256 KiB stack for depth 10^5",
         "Recording visitors (default hooks and overridden per-instruction hooks, immutable and mutable) are compared with a recursive reference walk using a hand-written operand table: event sequence for dfs_in_order, per-instruction id multisets for both traversals, started at the entry and at nested sequences; non-recursion is decided by traversing depth-10^5 trees on a 256 KiB thread stack in a child process (death by signal = violation).",
         "The operand table is written by hand from the Instr field documentation.",
         "DESIGN.md §4 C16"),
 'C17': ("exhaustive enumeration of operation sequences (small scope) + random long sequences (proptest), map-based reference model",
         "All add/delete sequences up to length 6 (quick) / 7 (thorough) over a 7-symbol alphabet are run against each of the 10 public collections in lock-step with a model; after every step all ids ever issued, iteration, len and lookups are compared. The alphabets include remove-by-name, mutable access (also on deleted ids), indirect additions (a FunctionBuilder adding a signature and a hidden entry type), typed and untyped custom-section ids and a non-raw section type. Exhaustive within that bound; random sequences up to length 60 beyond it.",
         "'reported as absent' means a panic or None/Err.",
         "DESIGN.md §4 C17"),

 'C05': ("mutation-based and random byte-string generation (proptest) with a differential oracle against wasmparser::Validator; child-process isolation for stack overflow",
         "Random byte strings, byte- and structure-level mutants of generated and corpus modules, truncations, and deep-nesting modules are parsed under both configurations; any unwind is a violation, and walrus's accept/reject decision must equal the reference validator's under the feature set walrus documents for that configuration. Deep inputs are parsed (and emitted) on the 8 MiB main-thread stack of a child process: death by signal is a violation, a watchdog expiry is inconclusive. 'Never hangs' is judged by growth, not by time: a deep input that costs more than 3 s of the child's own CPU time is measured again at a quarter of the depth and a cost ratio above 10 (linear 4, quadratic 16) is a violation. The gate's configuration is reached directly, through clone() or through a setter history.",
         "The supported feature set is re-stated in the harness (optable::walrus_features); wasmparser is the arbiter of validity; OOM is not in scope.",
         "DESIGN.md §4 C05"),

 'C02': ("property-based generation of modules x passes x well-formed API edit scripts (proptest), validity oracle (wasmparser::Validator) + panic capture",
         "Accepted modules are parsed, edited through the public builder/edit API by generated well-formed edit scripts, optionally GC'd before and/or after the edits, and emitted under the name/producers switch combinations; any unwind and any output the reference validator rejects under walrus's feature set is a violation. Exploration over sampled modules and scripts.",
         "Edits are well-formed by construction (back-links maintained as documented); DWARF generation is exercised under C10.",
         "DESIGN.md §4 C02"),
 'C08': ("metamorphic byte-equality relations over generated modules (proptest): repeat emit, fresh parse, fresh process, extra round trip",
         "For each module: three emits on one Module value, emits from two fresh parses, an emit in a fresh process (sampled), and emit(parse(output)) must all be byte-identical, likewise for the output of parse>GC>emit; `emit; edit; emit` must equal `fresh parse; edit; emit`; default config and synthetic-name config. Exploration over sampled modules.",
         "Hash-seed / ASLR nondeterminism is only sampled through the fresh-process comparison.",
         "DESIGN.md §4 C08"),
 'C12': ("property-based generation of custom-section placements (proptest), list-equality oracle",
         "Generated modules carry custom sections at arbitrary boundaries with adversarial names; the ordered list of uninterpreted (name,payload) pairs must be identical in the input and in the outputs of emit, GC+emit, second and third emit.",
         "A trivial section walker (no wasmparser) extracts custom sections.",
         "DESIGN.md §4 C12"),
 'C20': ("property-based generation across feature profiles (proptest), validator-under-reduced-feature-sets oracle",
         "For each module and each candidate feature set S under which the input validates (greedy minimal set, MVP, generating set, full set minus one proposal, derived subsets) the output must validate under S as well; witness checks cover escalations the validator does not gate (data-count section, element/data segment encodings, block types through the type section, multi-byte table/memory immediates). The same judgement is applied after four feature-neutral transformations (GC; the only table/memory localised; a builder-made block; an active data segment added through the API).",
         "wasmparser's feature gating defines which proposal a construct needs.",
         "DESIGN.md §4 C20"),

 'C03': ("exhaustive operator enumeration + property-based generation, differential decode oracle (proptest)",
         "Every operator wasmparser knows is enumerated with boundary immediates (exhaustive over that finite table) and round-tripped inside a rich host module; in addition thousands of generated full-profile modules, the repository fixtures, the real corpus and modules whose function body has a size on either side of every size-prefix boundary (127/128, 16383/16384, 2097151/2097152 bytes) are round-tripped; an eighth of the cases each judge the second emission of the same Module and an emission that records the code transform. Input and output are decoded independently and compared operator by operator under a verified renumbering bijection. Exploration, not proof: absence is shown only over the enumerated table and the sampled modules.",
         "Trusts wasmparser's binary reader and wasm-encoder's re-encoder for building inputs; the harness's canonicalisation (nop / dead-code removal, else insertion) re-states only what the property allows.",
         "DESIGN.md §4 C03, §3.1"),
 'C04': ("property-based generation (proptest) + corpus, differential decode oracle with verified bijection",
         "Generated modules cover imports/locals x 32/64-bit x shared x every element/data segment encoding; everything outside the code section must agree under a renumbering bijection that is discovered and verified by the harness. Exploration over sampled modules.",
         "Trusts wasmparser's reader on both binaries.",
         "DESIGN.md §4 C04, §3.1"),
}
REASON_TODO = "check not built yet in this round (planned, see DESIGN.md §10); no claim is made"

checks = []
na = []
for p in props:
    pid = p['id']
    if pid in CLAIMED:
        tech, text, note, ref = CLAIMED[pid]
        checks.append({
            "property_id": pid,
            "quick_cmd": f"./check.sh {pid} quick",
            "thorough_cmd": f"./check.sh {pid} thorough",
            "evidence_file": f"/verif/evidence/{pid}.json",
            "replay_cmd_template": f"./check.sh {pid} --replay {{path}}",
            "engine": "walrus-verif",
            "level_claimed": {"category": "exploration", "text": text, "design_ref": ref},
            "level_note": note,
            "technique": tech,
        })
    else:
        na.append({"property_id": pid, "reason": REASON_TODO})

m = {
 "version": 1,
 "setup_cmd": "cd /verif/harness && CARGO_NET_OFFLINE=true cargo build --release --offline && CARGO_NET_OFFLINE=true cargo build --release --offline --features parallel --target-dir target-par",
 "hooks": {
   "guard": "walrus_verif",
   "enable": "no hooks are needed: every observation point is public API (on_parse, on_instr_loc, CustomSection, builder and collection APIs); the harness links /repo as a path dependency",
   "baseline_off_cmd": "cd /repo && cargo test --workspace --no-fail-fast --offline",
   "source_commits": [],
   "add_only": True,
 },
 "engines": [
   {"name": "walrus-verif", "path": "/verif/harness", "serves_properties": [c["property_id"] for c in checks],
    "kind_free_text": "Rust binary: choice-stream module generator driven by proptest (16 fixed-seed shards), independent wasmparser decode, bijection verifier, reference validator; libFuzzer targets under harness/fuzz for thorough tiers"},
 ],
 "checks": checks,
 "not_applicable": na,
 "notes": "All randomness derives from VERIF_SEED (default 0). Exit 0 = held, 1 = VIOLATION line, 2 = infrastructure / inconclusive (build failure, watchdog). Known findings: /verif/known_findings.json.",
}
json.dump(m, open(os.path.join(V, 'MANIFEST.json'), 'w'), indent=1)
print("claimed:", [c["property_id"] for c in checks], "not_applicable:", len(na))
