#!/bin/bash
# usage: thorough_smoke.sh [fuzz-seconds] [props...]
# Runs every thorough command on a private copy of /repo HEAD and of the
# harness (so that /repo may be patched by seedtest.sh meanwhile) with a short
# libFuzzer budget; reports exit codes. Output: /tmp/thorough_smoke.log
secs=${1:-90}; shift
props=${*:-C01 C02 C03 C04 C05 C06 C07 C08 C09 C10 C11 C12 C13 C14 C15 C16 C17 C18 C19 C20}
d=/tmp/ths
rm -rf $d; mkdir -p $d/verif
git -C /repo worktree add -q --detach $d/repo HEAD || exit 2
rsync -a --exclude target --exclude target-par --exclude 'fuzz/target' --exclude 'fuzz/corpus' --exclude 'fuzz/artifacts' /verif/harness $d/verif/
cp -r /verif/check.sh /verif/known_findings.json /verif/corpus $d/verif/
sed -i "s#path = \"/repo\"#path = \"$d/repo\"#" $d/verif/harness/Cargo.toml
export WALRUS_REPO=$d/repo VERIF_DIR=$d/verif CARGO_NET_OFFLINE=true VERIF_FUZZ_SECONDS=$secs VERIF_FUZZ_RUNS=$((secs*400))
: > /tmp/thorough_smoke.log
for p in $props; do
  s=$(date +%s)
  out=$(cd $d/verif && ./check.sh $p thorough 2>&1); code=$?
  e=$(date +%s)
  echo "$p thorough exit=$code secs=$((e-s))" >> /tmp/thorough_smoke.log
  echo "$out" | grep -aE "^VIOLATION|^  failure|watchdog|INFRA" | head -5 | cut -c1-300 >> /tmp/thorough_smoke.log
  if [ $code -eq 1 ]; then mkdir -p /tmp/ths_replays; cp $d/verif/replays/$p-thorough-* /tmp/ths_replays/ 2>/dev/null; fi
done
git -C /repo worktree remove --force $d/repo
rm -rf $d
