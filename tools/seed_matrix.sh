#!/bin/bash
# Run every kept seeded defect against the quick check of the property it breaks;
# writes /verif/seeded/RESULTS.tsv (seed, property, exit code, first failure signature).
out=/verif/seeded/RESULTS.tsv
mkdir -p /tmp/seedtest_out; cp /verif/known_findings.json /tmp/seedtest_out/
: > $out
for d in /verif/seeded/*/; do
  n=$(basename $d); p=${n%%_*}
  [ -n "$1" ] && [ "$p" != "$1" ] && continue
  r=$(/verif/seedtest.sh $d $p 2>&1)
  code=$(echo "$r" | grep -o "exit=[0-9]*" | head -1)
  sig=$(echo "$r" | grep -m1 "failure" | sed 's/^ *failure //' | cut -c1-110)
  echo -e "$n\t$p\t$code\t$sig" | tee -a $out
done
