#!/bin/bash
# usage: seed_matrix_par.sh [workers] [props-to-cross...]
# Cross matrix of seeded defects x checks, run on private copies so that /repo
# and /verif stay untouched: every worker owns a scratch worktree of /repo and
# a copy of the harness whose walrus dependency points at that worktree. For
# each seed the patch is applied there, the quick check of every listed
# property (default: all; C09 only for C09 seeds) is run, and the patch is
# reverted. Output: /verif/seeded/RESULTS.tsv
#   seed <TAB> own property <TAB> own exit <TAB> caught-by list <TAB> own first failure
W=${1:-4}; shift
ALL="C01 C02 C03 C04 C05 C06 C07 C08 C10 C11 C12 C13 C14 C15 C16 C17 C18 C19 C20"
CROSS=${*:-$ALL}
base=/tmp/mx
rm -rf $base; mkdir -p $base
# SEED_PAT restricts the run to matching seed names (e.g. '*_r4_*'); rows of
# other seeds in RESULTS.tsv are kept
seeds=( $(ls -d /verif/seeded/${SEED_PAT:-*}/ | xargs -n1 basename) )
worker() {
  w=$1; d=$base/w$w
  git -C /repo worktree add -q --detach $d/repo HEAD || exit 2
  mkdir -p $d/verif
  rsync -a --exclude target --exclude target-par --exclude 'fuzz/target' --exclude 'fuzz/corpus' /verif/harness $d/verif/
  cp -r /verif/check.sh /verif/known_findings.json /verif/corpus $d/verif/
  sed -i "s#path = \"/repo\"#path = \"$d/repo\"#" $d/verif/harness/Cargo.toml
  export WALRUS_REPO=$d/repo VERIF_DIR=$d/verif CARGO_NET_OFFLINE=true
  : > $base/out.$w
  i=0
  for n in "${seeds[@]}"; do
    i=$((i+1)); [ $(( i % W )) -ne $w ] && continue
    p=${n%%_*}
    ( cd $d/repo && git checkout -q -- . && git apply /verif/seeded/$n/patch.diff ) || { echo -e "$n\t$p\tNOAPPLY" >> $base/out.$w; continue; }
    caught=""; ownexit=""; ownsig=""
    list="$p"; if [ -z "$OWN_ONLY" ]; then for q in $CROSS; do [ "$q" != "$p" ] && list="$list $q"; done; fi
    for q in $list; do
      r=$(cd $d/verif && ./check.sh $q quick 2>&1); code=$?
      if [ "$q" = "$p" ]; then ownexit=$code; ownsig=$(echo "$r" | grep -m1 "failure" | sed 's/^ *failure //' | cut -c1-110); fi
      [ $code -eq 1 ] && caught="$caught $q"
      [ $code -ge 2 ] && caught="$caught $q(exit$code)"
    done
    ( cd $d/repo && git checkout -q -- . )
    echo -e "$n\t$p\texit=$ownexit\t${caught# }\t$ownsig" >> $base/out.$w
  done
  git -C /repo worktree remove --force $d/repo
  rm -rf $d
}
for w in $(seq 0 $((W-1))); do worker $w & done
wait
cat $base/out.* | sort > $base/new.tsv
# OWN_ONLY=1: only the check of the seed's own property; result goes to
# RESULTS_own.tsv (a final pass with the final harness), RESULTS.tsv is kept
if [ -n "$OWN_ONLY" ]; then cp $base/new.tsv /verif/seeded/RESULTS_own.tsv; rm -rf $base; exit 0; fi
if [ -n "$SEED_PAT" ] && [ -f /verif/seeded/RESULTS.tsv ]; then
  # (signatures may contain NUL and other bytes: merge binary-safely)
  python3 - "$base/new.tsv" /verif/seeded/RESULTS.tsv <<'PY'
import sys
rows = {}
for f in (sys.argv[2], sys.argv[1]):
    for l in open(f, 'rb').read().split(b'\n'):
        if l.strip():
            rows[l.split(b'\t')[0]] = l
open(sys.argv[2], 'wb').write(b'\n'.join(rows[k] for k in sorted(rows)) + b'\n')
PY
else
  cp $base/new.tsv /verif/seeded/RESULTS.tsv
fi
rm -rf $base
