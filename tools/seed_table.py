#!/usr/bin/env python3
"""Rewrite the seed table in DESIGN.md from seeded/RESULTS.tsv."""
import json, os, re
rows = []
for l in open('/verif/seeded/RESULTS.tsv'):
    p = l.rstrip('\n').split('\t')
    if len(p) < 3:
        continue
    sid, prop, ex = p[0], p[1], p[2]
    caught = p[3] if len(p) > 3 else ''
    sig = p[4] if len(p) > 4 else ''
    try:
        meta = json.load(open(f'/verif/seeded/{sid}/meta.json'))
        summ = meta.get('summary', '')
    except Exception:
        summ = ''
    summ = re.sub(r'\s+', ' ', summ).replace('|', '/')
    if len(summ) > 150:
        summ = summ[:147] + '...'
    sigk = sig.split(': ')[0].replace('|', '/')[:70]
    rows.append((sid, prop, ex, caught, sigk, summ))
own = sum(1 for r in rows if r[2] == 'exit=1')
out = [f'{len(rows)} seeded changes; {own} caught by the check of their own property.', '',
       '| seed | own check | signature reported | also caught by | change |', '|---|---|---|---|---|']
for sid, prop, ex, caught, sigk, summ in rows:
    others = ' '.join(c for c in caught.split() if c != prop)
    out.append(f'| {sid} | {prop} {ex} | `{sigk}` | {others} | {summ} |')
d = open('/verif/DESIGN.md').read()
a, b = d.index('<!-- SEED-TABLE-BEGIN -->'), d.index('<!-- SEED-TABLE-END -->')
d = d[:a] + '<!-- SEED-TABLE-BEGIN -->\n' + '\n'.join(out) + '\n' + d[b:]
open('/verif/DESIGN.md', 'w').write(d)
print(len(rows), own)
