//! Differential execution of two binaries on the reference interpreter.

use crate::ch::*;
use crate::interp::*;
use crate::run::fnv;
use wasmparser::ValType;

#[derive(Clone, Debug)]
pub struct Call {
    pub export: String,
    pub args: Vec<Val>,
}

#[derive(Clone, Debug, PartialEq)]
pub struct Step {
    pub what: String,
    /// Ok(results) or Err(trap class)
    pub result: Result<Vec<String>, String>,
    pub state: Vec<(String, String)>,
    pub trace: Vec<HostCall>,
    pub inconclusive: bool,
}

pub const FUEL_PER_CALL: u64 = 200_000;

fn gen_val(ch: &mut Ch, t: ValType) -> Val {
    match t {
        ValType::I32 => Val::I32(if ch.chance(3, 4) { *ch.pick(I32_POOL) } else { ch.u32() as i32 }),
        ValType::I64 => Val::I64(if ch.chance(3, 4) { *ch.pick(I64_POOL) } else { ch.u64() as i64 }),
        ValType::F32 => Val::F32(if ch.chance(3, 4) { *ch.pick(F32_POOL) } else { ch.u32() }),
        ValType::F64 => Val::F64(if ch.chance(3, 4) { *ch.pick(F64_POOL) } else { ch.u64() }),
        ValType::V128 => Val::V128((ch.u64() as u128) | ((ch.u64() as u128) << 64)),
        ValType::Ref(r) if r == wasmparser::RefType::EXTERNREF => {
            if ch.bool() {
                Val::ExternRef(Some(ch.below(5) as u32))
            } else {
                Val::ExternRef(None)
            }
        }
        ValType::Ref(_) => Val::FuncRef(None),
    }
}

/// A call script over the function exports of `m`.
pub fn gen_script(m: &Module, ch: &mut Ch, max_calls: usize) -> Vec<Call> {
    let funcs: Vec<(String, u32)> = m
        .exports
        .iter()
        .filter(|e| e.1 == wasmparser::ExternalKind::Func)
        .map(|e| (e.0.clone(), e.2))
        .collect();
    if funcs.is_empty() {
        return vec![];
    }
    let n = 1 + ch.below(max_calls);
    let mut out = Vec::new();
    for _ in 0..n {
        let (name, idx) = ch.pick(&funcs).clone();
        let ty = match m.types.get(m.func_types[idx as usize] as usize) {
            Some(t) => t,
            None => continue,
        };
        let args = ty.params.iter().map(|t| gen_val(ch, *t)).collect();
        out.push(Call { export: name, args });
    }
    out
}

fn digest_mem(m: &MemInst) -> String {
    format!("{} pages, fnv {:016x}", m.data.len() / PAGE, fnv(&m.data))
}

fn digest_table(t: &TableInst) -> String {
    let s: String = t
        .elems
        .iter()
        .map(|v| match v {
            Val::FuncRef(None) | Val::ExternRef(None) => '.',
            Val::FuncRef(Some(_)) => 'f',
            Val::ExternRef(Some(_)) => 'x',
            _ => '?',
        })
        .collect();
    let ext: Vec<String> = t
        .elems
        .iter()
        .filter_map(|v| match v {
            Val::ExternRef(Some(x)) => Some(x.to_string()),
            _ => None,
        })
        .collect();
    format!("{} {}", s, ext.join(","))
}

/// state of every imported or exported memory, global and table
fn visible_state(inst: &Instance) -> Vec<(String, String)> {
    let m = inst.m;
    let mut out = Vec::new();
    let (mut t, mut me, mut g) = (0usize, 0usize, 0usize);
    for (module, name, d) in &m.imports {
        match d {
            ImportDesc::Table(_) => {
                out.push((format!("import table {}.{}", module, name), digest_table(&inst.tables[t])));
                t += 1;
            }
            ImportDesc::Memory(_) => {
                out.push((format!("import memory {}.{}", module, name), digest_mem(&inst.mems[me])));
                me += 1;
            }
            ImportDesc::Global(_) => {
                out.push((format!("import global {}.{}", module, name), inst.globals[g].observable()));
                g += 1;
            }
            ImportDesc::Func(_) => {}
        }
    }
    for (name, kind, idx) in &m.exports {
        match kind {
            wasmparser::ExternalKind::Table => {
                out.push((format!("export table {}", name), digest_table(&inst.tables[*idx as usize])))
            }
            wasmparser::ExternalKind::Memory => {
                out.push((format!("export memory {}", name), digest_mem(&inst.mems[*idx as usize])))
            }
            wasmparser::ExternalKind::Global => {
                out.push((format!("export global {}", name), inst.globals[*idx as usize].observable()))
            }
            _ => {}
        }
    }
    out
}

fn trap_class(t: &Trap) -> String {
    format!("{:?}", t)
}

/// Run `script` on `bytes`. Err = the module could not even be loaded.
pub fn observe(bytes: &[u8], script: &[Call], host_seed: u64, probe_tables: bool) -> Result<Vec<Step>, String> {
    observe_with(bytes, script, host_seed, probe_tables, None).map(|x| x.0)
}

/// as `observe`, with one function import replaced by a closed-form model;
/// also returns how often the model was invoked
pub fn observe_with(
    bytes: &[u8],
    script: &[Call],
    host_seed: u64,
    probe_tables: bool,
    host_override: Option<(u32, Vec<RModel>)>,
) -> Result<(Vec<Step>, u64), String> {
    // the interpreter assumes validated code
    crate::optable::validate_walrus(bytes).map_err(|e| format!("invalid module: {}", e))?;
    let m = load(bytes).map_err(|e| e.to_string())?;
    let mut calls = 0u64;
    let r = crate::run::guard("interpreter", || observe_inner(&m, script, host_seed, probe_tables, host_override, &mut calls))
        .map_err(|f| format!("interpreter-panic: {}", f.detail))??;
    Ok((r, calls))
}

fn observe_inner(
    m: &Module,
    script: &[Call],
    host_seed: u64,
    probe_tables: bool,
    host_override: Option<(u32, Vec<RModel>)>,
    override_calls: &mut u64,
) -> Result<Vec<Step>, String> {
    let mut steps = Vec::new();
    let mut inst = match Instance::instantiate_with(m, host_seed, FUEL_PER_CALL, host_override) {
        Ok(i) => i,
        Err(t) => {
            steps.push(Step {
                what: "instantiate".into(),
                result: Err(trap_class(&t)),
                state: vec![],
                trace: vec![],
                inconclusive: t.inconclusive(),
            });
            return Ok(steps);
        }
    };
    steps.push(Step {
        what: "instantiate".into(),
        result: Ok(vec![]),
        state: visible_state(&inst),
        trace: std::mem::take(&mut inst.trace),
        inconclusive: false,
    });
    let mut run_call = |inst: &mut Instance, what: String, f: u32, args: Vec<Val>, steps: &mut Vec<Step>| -> bool {
        inst.fuel = FUEL_PER_CALL;
        inst.depth = 0;
        let r = inst.invoke(f, args);
        let (result, inconclusive) = match r {
            Ok(v) => (Ok(v.iter().map(|x| x.observable()).collect()), false),
            Err(t) => {
                let inc = t.inconclusive();
                (Err(trap_class(&t)), inc)
            }
        };
        steps.push(Step {
            what,
            result,
            state: visible_state(inst),
            trace: std::mem::take(&mut inst.trace),
            inconclusive,
        });
        !inconclusive
    };
    for c in script {
        let f = match m.exports.iter().find(|e| e.0 == c.export && e.1 == wasmparser::ExternalKind::Func) {
            Some(e) => e.2,
            None => {
                steps.push(Step {
                    what: format!("call {}", c.export),
                    result: Err("no such export".into()),
                    state: vec![],
                    trace: vec![],
                    inconclusive: false,
                });
                continue;
            }
        };
        let what = format!("call {}({})", c.export, c.args.iter().map(|a| a.observable()).collect::<Vec<_>>().join(", "));
        if !run_call(&mut inst, what, f, c.args.clone(), &mut steps) {
            *override_calls = inst.override_calls;
            return Ok(steps);
        }
    }
    *override_calls = inst.override_calls;
    if probe_tables {
        // call what the visible tables hold (function references are compared by behaviour)
        let mut targets: Vec<(String, u32)> = Vec::new();
        let mut t = 0usize;
        for (module, name, d) in &m.imports {
            if let ImportDesc::Table(_) = d {
                for (i, v) in inst.tables[t].elems.iter().enumerate() {
                    if let Val::FuncRef(Some(f)) = v {
                        targets.push((format!("import table {}.{}[{}]", module, name, i), *f));
                    }
                }
                t += 1;
            }
        }
        for (name, kind, idx) in &m.exports {
            if *kind == wasmparser::ExternalKind::Table {
                for (i, v) in inst.tables[*idx as usize].elems.iter().enumerate() {
                    if let Val::FuncRef(Some(f)) = v {
                        targets.push((format!("export table {}[{}]", name, i), *f));
                    }
                }
            }
        }
        for (label, f) in targets.into_iter().take(24) {
            let args: Vec<Val> = match inst.func_type(f) {
                Some(t) => t.params.iter().map(|p| Val::default_for(*p)).collect(),
                None => continue,
            };
            if !run_call(&mut inst, format!("call-ref {}", label), f, args, &mut steps) {
                *override_calls = inst.override_calls;
                return Ok(steps);
            }
        }
    }
    *override_calls = inst.override_calls;
    Ok(steps)
}

#[derive(Debug)]
pub enum Cmp {
    Same { steps: usize, completed_calls: usize, touched_state: bool },
    Inconclusive { at: usize },
    Differ { at: usize, what: String, detail: String },
}

pub fn compare(a: &[Step], b: &[Step]) -> Cmp {
    compare_opts(a, b, false)
}

/// `gc`: the second binary went through the GC pass, which may drop unused
/// imports; imported state is then compared only where both sides have it.
pub fn compare_opts(a: &[Step], b: &[Step], gc: bool) -> Cmp {
    let mut completed = 0;
    let mut touched = false;
    for i in 0..a.len().max(b.len()) {
        let (x, y) = match (a.get(i), b.get(i)) {
            (Some(x), Some(y)) => (x, y),
            (Some(x), None) | (None, Some(x)) => {
                if i > 0 && (a.get(i - 1).map(|s| s.inconclusive).unwrap_or(false) || b.get(i - 1).map(|s| s.inconclusive).unwrap_or(false)) {
                    return Cmp::Inconclusive { at: i };
                }
                return Cmp::Differ {
                    at: i,
                    what: "step-count".into(),
                    detail: format!("only one side has step {}: {}", i, x.what),
                };
            }
            (None, None) => break,
        };
        if x.inconclusive || y.inconclusive {
            return Cmp::Inconclusive { at: i };
        }
        if x.what != y.what {
            return Cmp::Differ {
                at: i,
                what: "step-kind".into(),
                detail: format!("{} vs {}", x.what, y.what),
            };
        }
        if x.result != y.result {
            let what = match (&x.result, &y.result) {
                (Ok(_), Ok(_)) => "results",
                (Err(_), Err(_)) => "trap-class",
                (Ok(_), Err(_)) => "output-traps",
                (Err(_), Ok(_)) => "output-does-not-trap",
            };
            return Cmp::Differ {
                at: i,
                what: if x.what == "instantiate" { format!("instantiation-{}", what) } else { what.to_string() },
                detail: format!("{}: input {:?} vs output {:?}", x.what, x.result, y.result),
            };
        }
        if x.trace != y.trace {
            return Cmp::Differ {
                at: i,
                what: "host-call-trace".into(),
                detail: format!("{}: input trace {:?} vs output trace {:?}", x.what, x.trace, y.trace),
            };
        }
        let (xs, ys): (Vec<(String, String)>, Vec<(String, String)>) = if gc {
            let in_b: std::collections::HashSet<&String> = y.state.iter().map(|s| &s.0).collect();
            let in_a: std::collections::HashSet<&String> = x.state.iter().map(|s| &s.0).collect();
            (
                x.state.iter().filter(|s| s.0.starts_with("export") || in_b.contains(&s.0)).cloned().collect(),
                y.state.iter().filter(|s| s.0.starts_with("export") || in_a.contains(&s.0)).cloned().collect(),
            )
        } else {
            (x.state.clone(), y.state.clone())
        };
        let (x_state, y_state) = (&xs, &ys);
        if x_state != y_state {
            let x = &Step { state: xs.clone(), ..x.clone() };
            let y = &Step { state: ys.clone(), ..y.clone() };
            let d = x
                .state
                .iter()
                .zip(y.state.iter())
                .find(|(p, q)| p != q)
                .map(|(p, q)| format!("{:?} vs {:?}", p, q))
                .unwrap_or_else(|| format!("{} vs {} visible entities", x.state.len(), y.state.len()));
            let kind = x
                .state
                .iter()
                .zip(y.state.iter())
                .find(|(p, q)| p != q)
                .map(|(p, _)| p.0.split(' ').nth(1).unwrap_or("state").to_string())
                .unwrap_or_else(|| "visible-set".into());
            return Cmp::Differ {
                at: i,
                what: format!("state-{}", kind),
                detail: format!("{}: {}", x.what, d),
            };
        }
        if i > 0 && x.result.is_ok() {
            completed += 1;
            if x.result.as_ref().map(|r| !r.is_empty()).unwrap_or(false) || (i > 0 && a[i].state != a[i - 1].state) {
                touched = true;
            }
        }
    }
    Cmp::Same {
        steps: a.len(),
        completed_calls: completed,
        touched_state: touched,
    }
}
