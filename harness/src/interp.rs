//! Reference interpreter over wasmparser operators (DESIGN §3.3).
//! Links wasmparser only; used differentially (input vs walrus output), so
//! what matters is that every immediate and every index takes part in the
//! semantics and that execution is deterministic.

use std::collections::HashMap;
use wasmparser::{BlockType, MemArg, Operator, Parser, Payload, ValType};

#[derive(Clone, Copy, Debug, PartialEq)]
pub enum Val {
    I32(i32),
    I64(i64),
    F32(u32),
    F64(u64),
    V128(u128),
    /// function reference: Some(function address in this instance's store)
    FuncRef(Option<u32>),
    /// host token
    ExternRef(Option<u32>),
}

impl Val {
    pub fn default_for(t: ValType) -> Val {
        match t {
            ValType::I32 => Val::I32(0),
            ValType::I64 => Val::I64(0),
            ValType::F32 => Val::F32(0),
            ValType::F64 => Val::F64(0),
            ValType::V128 => Val::V128(0),
            ValType::Ref(r) if r == wasmparser::RefType::EXTERNREF => Val::ExternRef(None),
            ValType::Ref(_) => Val::FuncRef(None),
        }
    }
    /// comparable rendering: function references compare by null-ness only
    /// (indices differ between the two binaries)
    pub fn observable(&self) -> String {
        match self {
            Val::FuncRef(Some(_)) => "funcref(non-null)".into(),
            Val::FuncRef(None) => "funcref(null)".into(),
            v => format!("{:?}", v),
        }
    }
}

#[derive(Clone, Debug, PartialEq)]
pub enum Trap {
    Unreachable,
    MemoryOutOfBounds,
    TableOutOfBounds,
    UninitializedElement,
    IndirectCallTypeMismatch,
    IntegerDivideByZero,
    IntegerOverflow,
    InvalidConversionToInteger,
    UnalignedAtomic,
    AtomicWaitNonShared,
    /// not a semantic outcome: the case is inconclusive
    OutOfFuel,
    CallStackExhausted,
    WouldBlock,
    Unsupported(String),
}

impl Trap {
    pub fn inconclusive(&self) -> bool {
        matches!(
            self,
            Trap::OutOfFuel | Trap::CallStackExhausted | Trap::WouldBlock | Trap::Unsupported(_)
        )
    }
}

#[derive(Clone, Debug)]
pub struct FuncType {
    pub params: Vec<ValType>,
    pub results: Vec<ValType>,
}

pub struct FuncBody<'a> {
    pub ty: u32,
    pub locals: Vec<ValType>,
    pub ops: Vec<Operator<'a>>,
    /// for Block/Loop/If at index i: (else index or usize::MAX, end index)
    pub ctrl: HashMap<usize, (usize, usize)>,
}

#[derive(Clone, Debug)]
pub enum ImportDesc {
    Func(u32),
    Table(wasmparser::TableType),
    Memory(wasmparser::MemoryType),
    Global(wasmparser::GlobalType),
}

pub struct ElemSeg<'a> {
    pub active: Option<(u32, Vec<Operator<'a>>)>,
    pub declared: bool,
    pub items: Vec<Vec<Operator<'a>>>, // each item as a const expr (funcs become ref.func)
    pub ty: ValType,
}

pub struct DataSeg<'a> {
    pub active: Option<(u32, Vec<Operator<'a>>)>,
    pub bytes: &'a [u8],
}

pub struct Module<'a> {
    pub types: Vec<FuncType>,
    pub imports: Vec<(String, String, ImportDesc)>,
    pub func_types: Vec<u32>, // whole index space
    pub n_imp_funcs: usize,
    pub bodies: Vec<FuncBody<'a>>,
    pub tables: Vec<wasmparser::TableType>, // whole index space
    pub n_imp_tables: usize,
    pub mems: Vec<wasmparser::MemoryType>,
    pub n_imp_mems: usize,
    pub globals: Vec<wasmparser::GlobalType>,
    pub n_imp_globals: usize,
    pub global_inits: Vec<Vec<Operator<'a>>>,
    pub exports: Vec<(String, wasmparser::ExternalKind, u32)>,
    pub start: Option<u32>,
    pub elems: Vec<ElemSeg<'a>>,
    pub datas: Vec<DataSeg<'a>>,
}

fn read_const<'a>(e: &wasmparser::ConstExpr<'a>) -> anyhow::Result<Vec<Operator<'a>>> {
    let mut v = Vec::new();
    let mut r = e.get_operators_reader();
    while !r.eof() {
        v.push(r.read()?);
    }
    Ok(v)
}

pub fn load(bytes: &[u8]) -> anyhow::Result<Module<'_>> {
    let mut m = Module {
        types: vec![],
        imports: vec![],
        func_types: vec![],
        n_imp_funcs: 0,
        bodies: vec![],
        tables: vec![],
        n_imp_tables: 0,
        mems: vec![],
        n_imp_mems: 0,
        globals: vec![],
        n_imp_globals: 0,
        global_inits: vec![],
        exports: vec![],
        start: None,
        elems: vec![],
        datas: vec![],
    };
    let mut parser = Parser::new(0);
    parser.set_features(wasmparser::WasmFeatures::all());
    let mut local_func_types = Vec::new();
    for p in parser.parse_all(bytes) {
        match p? {
            Payload::TypeSection(s) => {
                for t in s.into_iter_err_on_gc_types() {
                    let t = t?;
                    m.types.push(FuncType {
                        params: t.params().to_vec(),
                        results: t.results().to_vec(),
                    });
                }
            }
            Payload::ImportSection(s) => {
                for i in s {
                    let i = i?;
                    let d = match i.ty {
                        wasmparser::TypeRef::Func(t) => {
                            m.func_types.push(t);
                            m.n_imp_funcs += 1;
                            ImportDesc::Func(t)
                        }
                        wasmparser::TypeRef::Table(t) => {
                            m.tables.push(t);
                            m.n_imp_tables += 1;
                            ImportDesc::Table(t)
                        }
                        wasmparser::TypeRef::Memory(t) => {
                            m.mems.push(t);
                            m.n_imp_mems += 1;
                            ImportDesc::Memory(t)
                        }
                        wasmparser::TypeRef::Global(t) => {
                            m.globals.push(t);
                            m.n_imp_globals += 1;
                            ImportDesc::Global(t)
                        }
                        wasmparser::TypeRef::Tag(_) => anyhow::bail!("tags unsupported"),
                    };
                    m.imports.push((i.module.to_string(), i.name.to_string(), d));
                }
            }
            Payload::FunctionSection(s) => {
                for f in s {
                    let f = f?;
                    m.func_types.push(f);
                    local_func_types.push(f);
                }
            }
            Payload::TableSection(s) => {
                for t in s {
                    m.tables.push(t?.ty);
                }
            }
            Payload::MemorySection(s) => {
                for t in s {
                    m.mems.push(t?);
                }
            }
            Payload::GlobalSection(s) => {
                for g in s {
                    let g = g?;
                    m.globals.push(g.ty);
                    m.global_inits.push(read_const(&g.init_expr)?);
                }
            }
            Payload::ExportSection(s) => {
                for e in s {
                    let e = e?;
                    m.exports.push((e.name.to_string(), e.kind, e.index));
                }
            }
            Payload::StartSection { func, .. } => m.start = Some(func),
            Payload::ElementSection(s) => {
                for e in s {
                    let e = e?;
                    let (active, declared) = match e.kind {
                        wasmparser::ElementKind::Active { table_index, offset_expr } => {
                            (Some((table_index.unwrap_or(0), read_const(&offset_expr)?)), false)
                        }
                        wasmparser::ElementKind::Passive => (None, false),
                        wasmparser::ElementKind::Declared => (None, true),
                    };
                    let (items, ty) = match e.items {
                        wasmparser::ElementItems::Functions(r) => {
                            let mut v = Vec::new();
                            for f in r {
                                v.push(vec![Operator::RefFunc { function_index: f? }, Operator::End]);
                            }
                            (v, ValType::FUNCREF)
                        }
                        wasmparser::ElementItems::Expressions(rt, r) => {
                            let mut v = Vec::new();
                            for x in r {
                                v.push(read_const(&x?)?);
                            }
                            (v, ValType::Ref(rt))
                        }
                    };
                    m.elems.push(ElemSeg {
                        active,
                        declared,
                        items,
                        ty,
                    });
                }
            }
            Payload::DataSection(s) => {
                for d in s {
                    let d = d?;
                    let active = match d.kind {
                        wasmparser::DataKind::Active { memory_index, offset_expr } => {
                            Some((memory_index, read_const(&offset_expr)?))
                        }
                        wasmparser::DataKind::Passive => None,
                    };
                    m.datas.push(DataSeg { active, bytes: d.data });
                }
            }
            Payload::CodeSectionEntry(body) => {
                let idx = m.bodies.len();
                let mut locals = Vec::new();
                for l in body.get_locals_reader()? {
                    let (n, t) = l?;
                    if locals.len() + n as usize > 100_000 {
                        anyhow::bail!("too many locals");
                    }
                    for _ in 0..n {
                        locals.push(t);
                    }
                }
                let mut ops = Vec::new();
                let mut r = body.get_operators_reader()?;
                while !r.eof() {
                    ops.push(r.read()?);
                }
                // control structure
                let mut ctrl = HashMap::new();
                let mut stack: Vec<(usize, usize)> = Vec::new(); // (start, else)
                for (i, op) in ops.iter().enumerate() {
                    match op {
                        Operator::Block { .. } | Operator::Loop { .. } | Operator::If { .. } => {
                            stack.push((i, usize::MAX))
                        }
                        Operator::Else => {
                            if let Some(top) = stack.last_mut() {
                                top.1 = i;
                            }
                        }
                        Operator::End => {
                            if let Some((s, e)) = stack.pop() {
                                ctrl.insert(s, (e, i));
                            }
                        }
                        _ => {}
                    }
                }
                m.bodies.push(FuncBody {
                    ty: *local_func_types.get(idx).unwrap_or(&0),
                    locals,
                    ops,
                    ctrl,
                });
            }
            _ => {}
        }
    }
    Ok(m)
}

// ---------------------------------------------------------------------------

pub struct TableInst {
    pub elems: Vec<Val>,
    pub max: Option<u64>,
    pub null: Val,
}

pub struct MemInst {
    pub data: Vec<u8>,
    pub max_pages: u64,
    pub shared: bool,
}

#[derive(Clone, Debug, PartialEq)]
pub struct HostCall {
    pub module: String,
    pub name: String,
    pub args: Vec<String>,
    pub results: Vec<String>,
}

pub const PAGE: usize = 65536;
const MAX_PAGES_CAP: u64 = 8;
const TABLE_CAP: u64 = 64;

pub struct Instance<'a> {
    pub m: &'a Module<'a>,
    pub tables: Vec<TableInst>,
    pub mems: Vec<MemInst>,
    pub globals: Vec<Val>,
    pub dropped_data: Vec<bool>,
    pub dropped_elem: Vec<bool>,
    pub trace: Vec<HostCall>,
    pub fuel: u64,
    pub depth: usize,
    pub host_seed: u64,
    pub host_calls: u64,
    pub ops_executed: u64,
    /// C18: the function import at this position behaves as the given
    /// closed-form model (and leaves no trace)
    pub host_override: Option<(u32, Vec<RModel>)>,
    pub override_calls: u64,
}

/// closed-form model of one result of a replacement body
#[derive(Clone, Debug)]
pub enum RModel {
    Const(Val),
    /// parameter `idx` plus a constant (i32 / i64 wrapping)
    ParamPlus(usize, i64),
}

pub fn eval_model(model: &[RModel], args: &[Val]) -> Vec<Val> {
    model
        .iter()
        .map(|m| match m {
            RModel::Const(v) => *v,
            RModel::ParamPlus(i, k) => match args.get(*i) {
                Some(Val::I32(a)) => Val::I32(a.wrapping_add(*k as i32)),
                Some(Val::I64(a)) => Val::I64(a.wrapping_add(*k)),
                Some(v) => *v,
                None => Val::I32(0),
            },
        })
        .collect()
}

fn fnv64(data: &[u8], seed: u64) -> u64 {
    let mut h: u64 = 0xcbf29ce484222325 ^ seed;
    for b in data {
        h ^= *b as u64;
        h = h.wrapping_mul(0x100000001b3);
    }
    h ^ (h >> 29)
}

fn host_val(t: ValType, h: u64) -> Val {
    match t {
        ValType::I32 => Val::I32((h % 5) as i32 + if h & 0xf00 == 0 { (h >> 40) as i32 } else { 0 } - if h & 0xf000 == 0 { 2 } else { 0 }),
        ValType::I64 => Val::I64((h % 5) as i64 + if h & 0xf00 == 0 { (h >> 20) as i64 } else { 0 } - if h & 0xf000 == 0 { 2 } else { 0 }),
        ValType::F32 => Val::F32(((h % 16) as f32 * 0.5).to_bits()),
        ValType::F64 => Val::F64(((h % 16) as f64 * 0.25).to_bits()),
        ValType::V128 => Val::V128((h as u128) << 64 | (h.rotate_left(17) as u128)),
        ValType::Ref(r) if r == wasmparser::RefType::EXTERNREF => {
            if h % 3 == 0 {
                Val::ExternRef(None)
            } else {
                Val::ExternRef(Some((h % 1000) as u32))
            }
        }
        ValType::Ref(_) => Val::FuncRef(None),
    }
}

macro_rules! pop {
    ($st:expr, $v:ident) => {
        match $st.pop() {
            Some(Val::$v(x)) => x,
            other => return Err(Trap::Unsupported(format!("stack type confusion: wanted {} got {:?}", stringify!($v), other))),
        }
    };
}

impl<'a> Instance<'a> {
    pub fn instantiate(m: &'a Module<'a>, host_seed: u64, fuel: u64) -> Result<Instance<'a>, Trap> {
        Self::instantiate_with(m, host_seed, fuel, None)
    }

    pub fn instantiate_with(
        m: &'a Module<'a>,
        host_seed: u64,
        fuel: u64,
        host_override: Option<(u32, Vec<RModel>)>,
    ) -> Result<Instance<'a>, Trap> {
        let mut inst = Instance {
            m,
            tables: vec![],
            mems: vec![],
            globals: vec![],
            dropped_data: vec![false; m.datas.len()],
            dropped_elem: vec![false; m.elems.len()],
            trace: vec![],
            fuel,
            depth: 0,
            host_seed,
            host_calls: 0,
            ops_executed: 0,
            host_override,
            override_calls: 0,
        };
        // imported state is created by the host from the import's name and type
        for (module, name, d) in &m.imports {
            let h = fnv64(format!("{}::{}", module, name).as_bytes(), host_seed);
            match d {
                ImportDesc::Table(t) => inst.tables.push(Self::mk_table(t)),
                ImportDesc::Memory(t) => {
                    let mut mem = Self::mk_mem(t);
                    // a recognisable pattern so that reads are not all zero
                    for (i, b) in mem.data.iter_mut().enumerate().take(256) {
                        *b = (h as u8).wrapping_add(i as u8);
                    }
                    inst.mems.push(mem);
                }
                ImportDesc::Global(g) => inst.globals.push(host_val(g.content_type, h)),
                ImportDesc::Func(_) => {}
            }
        }
        for t in &m.tables[m.n_imp_tables..] {
            inst.tables.push(Self::mk_table(t));
        }
        for t in &m.mems[m.n_imp_mems..] {
            inst.mems.push(Self::mk_mem(t));
        }
        for init in &m.global_inits {
            let v = inst.eval_const(init)?;
            inst.globals.push(v);
        }
        // element segments, then data segments, in order
        for (i, e) in m.elems.iter().enumerate() {
            if let Some((table, off)) = &e.active {
                let off = inst.eval_offset(off)?;
                let mut vals = Vec::new();
                for it in &e.items {
                    vals.push(inst.eval_const(it)?);
                }
                let t = inst.tables.get_mut(*table as usize).ok_or(Trap::TableOutOfBounds)?;
                let end = off.checked_add(vals.len() as u64).ok_or(Trap::TableOutOfBounds)?;
                if end > t.elems.len() as u64 {
                    return Err(Trap::TableOutOfBounds);
                }
                for (k, v) in vals.into_iter().enumerate() {
                    t.elems[off as usize + k] = v;
                }
                inst.dropped_elem[i] = true;
            } else if e.declared {
                inst.dropped_elem[i] = true;
            }
        }
        for (i, d) in m.datas.iter().enumerate() {
            if let Some((mem, off)) = &d.active {
                let off = inst.eval_offset(off)?;
                let mm = inst.mems.get_mut(*mem as usize).ok_or(Trap::MemoryOutOfBounds)?;
                let end = off.checked_add(d.bytes.len() as u64).ok_or(Trap::MemoryOutOfBounds)?;
                if end > mm.data.len() as u64 {
                    return Err(Trap::MemoryOutOfBounds);
                }
                mm.data[off as usize..end as usize].copy_from_slice(d.bytes);
                inst.dropped_data[i] = true;
            }
        }
        if let Some(s) = m.start {
            inst.invoke(s, vec![])?;
        }
        Ok(inst)
    }

    fn mk_table(t: &wasmparser::TableType) -> TableInst {
        let null = if t.element_type == wasmparser::RefType::EXTERNREF {
            Val::ExternRef(None)
        } else {
            Val::FuncRef(None)
        };
        TableInst {
            elems: vec![null; t.initial.min(TABLE_CAP) as usize],
            max: t.maximum,
            null,
        }
    }

    fn mk_mem(t: &wasmparser::MemoryType) -> MemInst {
        let pages = t.initial.min(MAX_PAGES_CAP);
        MemInst {
            data: vec![0; pages as usize * PAGE],
            max_pages: t.maximum.unwrap_or(MAX_PAGES_CAP).min(MAX_PAGES_CAP),
            shared: t.shared,
        }
    }

    fn eval_const(&self, ops: &[Operator<'a>]) -> Result<Val, Trap> {
        match ops.first() {
            Some(Operator::I32Const { value }) => Ok(Val::I32(*value)),
            Some(Operator::I64Const { value }) => Ok(Val::I64(*value)),
            Some(Operator::F32Const { value }) => Ok(Val::F32(value.bits())),
            Some(Operator::F64Const { value }) => Ok(Val::F64(value.bits())),
            Some(Operator::V128Const { value }) => Ok(Val::V128(u128::from_le_bytes(*value.bytes()))),
            Some(Operator::GlobalGet { global_index }) => self
                .globals
                .get(*global_index as usize)
                .copied()
                .ok_or_else(|| Trap::Unsupported("const global out of range".into())),
            Some(Operator::RefNull { hty }) => Ok(if *hty == wasmparser::HeapType::EXTERN {
                Val::ExternRef(None)
            } else {
                Val::FuncRef(None)
            }),
            Some(Operator::RefFunc { function_index }) => Ok(Val::FuncRef(Some(*function_index))),
            other => Err(Trap::Unsupported(format!("const expr {:?}", other))),
        }
    }

    fn eval_offset(&self, ops: &[Operator<'a>]) -> Result<u64, Trap> {
        match self.eval_const(ops)? {
            Val::I32(v) => Ok(v as u32 as u64),
            Val::I64(v) => Ok(v as u64),
            other => Err(Trap::Unsupported(format!("offset {:?}", other))),
        }
    }

    pub fn func_type(&self, f: u32) -> Option<&FuncType> {
        self.m.types.get(*self.m.func_types.get(f as usize)? as usize)
    }

    /// call any function of the index space
    pub fn invoke(&mut self, mut f: u32, mut args: Vec<Val>) -> Result<Vec<Val>, Trap> {
        if self.depth > 200 {
            return Err(Trap::CallStackExhausted);
        }
        self.depth += 1;
        let r = loop {
            if (f as usize) < self.m.n_imp_funcs {
                break self.host_call(f, args);
            }
            match self.exec(f, args) {
                Ok(Flow::Return(v)) => break Ok(v),
                Ok(Flow::TailCall(g, a)) => {
                    f = g;
                    args = a;
                }
                Err(t) => break Err(t),
            }
        };
        self.depth -= 1;
        r
    }

    fn host_call(&mut self, f: u32, args: Vec<Val>) -> Result<Vec<Val>, Trap> {
        if let Some((pos, model)) = &self.host_override {
            if *pos == f {
                self.override_calls += 1;
                return Ok(eval_model(model, &args));
            }
        }
        // position among function imports
        let mut k = 0;
        let mut found = None;
        for (module, name, d) in &self.m.imports {
            if let ImportDesc::Func(_) = d {
                if k == f {
                    found = Some((module.clone(), name.clone()));
                    break;
                }
                k += 1;
            }
        }
        let (module, name) = found.ok_or_else(|| Trap::Unsupported("host func".into()))?;
        let ty = self.func_type(f).cloned().ok_or_else(|| Trap::Unsupported("host type".into()))?;
        self.host_calls += 1;
        let argstr: Vec<String> = args.iter().map(|v| v.observable()).collect();
        let h = fnv64(
            format!("{}::{}({:?})#{}", module, name, argstr, self.host_calls).as_bytes(),
            self.host_seed,
        );
        let results: Vec<Val> = ty
            .results
            .iter()
            .enumerate()
            .map(|(i, t)| host_val(*t, h.rotate_left(i as u32 * 7)))
            .collect();
        self.trace.push(HostCall {
            module,
            name,
            args: argstr,
            results: results.iter().map(|v| v.observable()).collect(),
        });
        Ok(results)
    }

    fn block_arity(&self, bt: &BlockType) -> (usize, usize) {
        match bt {
            BlockType::Empty => (0, 0),
            BlockType::Type(_) => (0, 1),
            BlockType::FuncType(i) => self
                .m
                .types
                .get(*i as usize)
                .map(|t| (t.params.len(), t.results.len()))
                .unwrap_or((0, 0)),
        }
    }

    fn ea(&self, mem: u32, addr: u64, m: &MemArg, size: usize) -> Result<usize, Trap> {
        let mm = self.mems.get(mem as usize).ok_or(Trap::MemoryOutOfBounds)?;
        let ea = addr.checked_add(m.offset).ok_or(Trap::MemoryOutOfBounds)?;
        let end = ea.checked_add(size as u64).ok_or(Trap::MemoryOutOfBounds)?;
        if end > mm.data.len() as u64 {
            return Err(Trap::MemoryOutOfBounds);
        }
        Ok(ea as usize)
    }

    fn pop_addr(&self, st: &mut Vec<Val>, mem: u32) -> Result<u64, Trap> {
        let m64 = self.m.mems.get(mem as usize).map(|m| m.memory64).unwrap_or(false);
        match st.pop() {
            Some(Val::I32(a)) if !m64 => Ok(a as u32 as u64),
            Some(Val::I64(a)) if m64 => Ok(a as u64),
            other => Err(Trap::Unsupported(format!("address {:?}", other))),
        }
    }

    fn push_idx(&self, st: &mut Vec<Val>, is64: bool, v: u64) {
        if is64 {
            st.push(Val::I64(v as i64));
        } else {
            st.push(Val::I32(v as u32 as i32));
        }
    }

    fn pop_table_idx(&self, st: &mut Vec<Val>, table: u32) -> Result<u64, Trap> {
        let t64 = self.m.tables.get(table as usize).map(|t| t.table64).unwrap_or(false);
        match st.pop() {
            Some(Val::I32(a)) if !t64 => Ok(a as u32 as u64),
            Some(Val::I64(a)) if t64 => Ok(a as u64),
            other => Err(Trap::Unsupported(format!("table index {:?}", other))),
        }
    }

    fn load_bytes<const N: usize>(&self, mem: u32, st: &mut Vec<Val>, m: &MemArg) -> Result<[u8; N], Trap> {
        let a = self.pop_addr(st, m.memory)?;
        let _ = mem;
        let ea = self.ea(m.memory, a, m, N)?;
        let mut b = [0u8; N];
        b.copy_from_slice(&self.mems[m.memory as usize].data[ea..ea + N]);
        Ok(b)
    }

    fn store_bytes(&mut self, st: &mut Vec<Val>, m: &MemArg, bytes: &[u8]) -> Result<(), Trap> {
        let a = self.pop_addr(st, m.memory)?;
        let ea = self.ea(m.memory, a, m, bytes.len())?;
        self.mems[m.memory as usize].data[ea..ea + bytes.len()].copy_from_slice(bytes);
        Ok(())
    }

    fn atomic_ea(&self, st: &mut Vec<Val>, m: &MemArg, size: usize) -> Result<usize, Trap> {
        let a = self.pop_addr(st, m.memory)?;
        let ea = self.ea(m.memory, a, m, size)?;
        if ea % size != 0 {
            return Err(Trap::UnalignedAtomic);
        }
        Ok(ea)
    }
}

enum Flow {
    Return(Vec<Val>),
    TailCall(u32, Vec<Val>),
}

struct Label {
    /// values a branch to this label carries
    arity: usize,
    /// value-stack height at entry (below the parameters)
    height: usize,
    /// pc to continue at when branched to
    target: usize,
    is_loop: bool,
}

mod num;

impl<'a> Instance<'a> {
    fn exec(&mut self, f: u32, args: Vec<Val>) -> Result<Flow, Trap> {
        let m = self.m;
        let body = &m.bodies[f as usize - m.n_imp_funcs];
        let fty = &m.types[body.ty as usize];
        let mut locals = args;
        for l in &body.locals {
            locals.push(Val::default_for(*l));
        }
        let mut st: Vec<Val> = Vec::new();
        let mut labels: Vec<Label> = vec![Label {
            arity: fty.results.len(),
            height: 0,
            target: body.ops.len(),
            is_loop: false,
        }];
        let mut pc = 0usize;
        let ops = &body.ops;

        macro_rules! branch {
            ($depth:expr) => {{
                let d = $depth as usize;
                let idx = labels.len() - 1 - d;
                let (arity, height, target, is_loop) = {
                    let l = &labels[idx];
                    (l.arity, l.height, l.target, l.is_loop)
                };
                let keep: Vec<Val> = st.split_off(st.len() - arity);
                st.truncate(height);
                st.extend(keep);
                if is_loop {
                    labels.truncate(idx + 1);
                } else {
                    labels.truncate(idx);
                }
                pc = target;
                if labels.is_empty() {
                    return Ok(Flow::Return(st));
                }
                continue;
            }};
        }

        loop {
            if pc >= ops.len() {
                return Ok(Flow::Return(st));
            }
            if self.fuel == 0 {
                return Err(Trap::OutOfFuel);
            }
            self.fuel -= 1;
            self.ops_executed += 1;
            let op = &ops[pc];
            match op {
                Operator::Unreachable => return Err(Trap::Unreachable),
                Operator::Nop => {}
                Operator::Block { blockty } => {
                    let (p, r) = self.block_arity(blockty);
                    let (_, end) = body.ctrl[&pc];
                    labels.push(Label {
                        arity: r,
                        height: st.len() - p,
                        target: end + 1,
                        is_loop: false,
                    });
                }
                Operator::Loop { blockty } => {
                    let (p, _r) = self.block_arity(blockty);
                    labels.push(Label {
                        arity: p,
                        height: st.len() - p,
                        target: pc + 1,
                        is_loop: true,
                    });
                }
                Operator::If { blockty } => {
                    let c = pop!(st, I32);
                    let (p, r) = self.block_arity(blockty);
                    let (els, end) = body.ctrl[&pc];
                    labels.push(Label {
                        arity: r,
                        height: st.len() - p,
                        target: end + 1,
                        is_loop: false,
                    });
                    if c == 0 {
                        if els != usize::MAX {
                            pc = els + 1;
                            continue;
                        } else {
                            // no else: fall to end (which pops the label)
                            pc = end;
                            continue;
                        }
                    }
                }
                Operator::Else => {
                    // end of the then-arm: jump to the end of the if
                    let l = labels.pop().unwrap();
                    pc = l.target;
                    continue;
                }
                Operator::End => {
                    labels.pop();
                    if labels.is_empty() {
                        return Ok(Flow::Return(st));
                    }
                }
                Operator::Br { relative_depth } => branch!(*relative_depth),
                Operator::BrIf { relative_depth } => {
                    let c = pop!(st, I32);
                    if c != 0 {
                        branch!(*relative_depth)
                    }
                }
                Operator::BrTable { targets } => {
                    let i = pop!(st, I32) as u32;
                    let mut d = targets.default();
                    for (k, t) in targets.targets().enumerate() {
                        if k as u32 == i {
                            d = t.map_err(|e| Trap::Unsupported(e.to_string()))?;
                            break;
                        }
                    }
                    branch!(d)
                }
                Operator::Return => {
                    let n = fty.results.len();
                    let keep = st.split_off(st.len() - n);
                    return Ok(Flow::Return(keep));
                }
                Operator::Call { function_index } => {
                    let n = self.func_type(*function_index).map(|t| t.params.len()).unwrap_or(0);
                    let a = st.split_off(st.len() - n);
                    let r = self.invoke(*function_index, a)?;
                    st.extend(r);
                }
                Operator::CallIndirect { type_index, table_index } | Operator::ReturnCallIndirect { type_index, table_index } => {
                    let i = self.pop_table_idx(&mut st, *table_index)?;
                    let t = self.tables.get(*table_index as usize).ok_or(Trap::TableOutOfBounds)?;
                    let fr = *t.elems.get(i as usize).ok_or(Trap::TableOutOfBounds)?;
                    let callee = match fr {
                        Val::FuncRef(Some(c)) => c,
                        Val::FuncRef(None) => return Err(Trap::UninitializedElement),
                        _ => return Err(Trap::IndirectCallTypeMismatch),
                    };
                    let want = &m.types[*type_index as usize];
                    let have = self.func_type(callee).ok_or(Trap::IndirectCallTypeMismatch)?;
                    if want.params != have.params || want.results != have.results {
                        return Err(Trap::IndirectCallTypeMismatch);
                    }
                    let n = want.params.len();
                    let a = st.split_off(st.len() - n);
                    if matches!(op, Operator::ReturnCallIndirect { .. }) {
                        return Ok(Flow::TailCall(callee, a));
                    }
                    let r = self.invoke(callee, a)?;
                    st.extend(r);
                }
                Operator::ReturnCall { function_index } => {
                    let n = self.func_type(*function_index).map(|t| t.params.len()).unwrap_or(0);
                    let a = st.split_off(st.len() - n);
                    return Ok(Flow::TailCall(*function_index, a));
                }
                Operator::Drop => {
                    st.pop();
                }
                Operator::Select | Operator::TypedSelect { .. } => {
                    let c = pop!(st, I32);
                    let b = st.pop().unwrap();
                    let a = st.pop().unwrap();
                    st.push(if c != 0 { a } else { b });
                }
                Operator::LocalGet { local_index } => st.push(locals[*local_index as usize]),
                Operator::LocalSet { local_index } => locals[*local_index as usize] = st.pop().unwrap(),
                Operator::LocalTee { local_index } => locals[*local_index as usize] = *st.last().unwrap(),
                Operator::GlobalGet { global_index } => st.push(self.globals[*global_index as usize]),
                Operator::GlobalSet { global_index } => self.globals[*global_index as usize] = st.pop().unwrap(),
                Operator::I32Const { value } => st.push(Val::I32(*value)),
                Operator::I64Const { value } => st.push(Val::I64(*value)),
                Operator::F32Const { value } => st.push(Val::F32(value.bits())),
                Operator::F64Const { value } => st.push(Val::F64(value.bits())),
                Operator::V128Const { value } => st.push(Val::V128(u128::from_le_bytes(*value.bytes()))),
                Operator::RefNull { hty } => st.push(if *hty == wasmparser::HeapType::EXTERN {
                    Val::ExternRef(None)
                } else {
                    Val::FuncRef(None)
                }),
                Operator::RefIsNull => {
                    let v = st.pop().unwrap();
                    st.push(Val::I32(matches!(v, Val::FuncRef(None) | Val::ExternRef(None)) as i32));
                }
                Operator::RefFunc { function_index } => st.push(Val::FuncRef(Some(*function_index))),
                // ---- memory ----
                Operator::MemorySize { mem } => {
                    let pages = (self.mems[*mem as usize].data.len() / PAGE) as u64;
                    let is64 = m.mems[*mem as usize].memory64;
                    self.push_idx(&mut st, is64, pages);
                }
                Operator::MemoryGrow { mem } => {
                    let is64 = m.mems[*mem as usize].memory64;
                    let delta = if is64 { pop!(st, I64) as u64 } else { pop!(st, I32) as u32 as u64 };
                    let mm = &mut self.mems[*mem as usize];
                    let cur = (mm.data.len() / PAGE) as u64;
                    let new = cur.checked_add(delta);
                    match new {
                        Some(n) if n <= mm.max_pages => {
                            mm.data.resize(n as usize * PAGE, 0);
                            self.push_idx(&mut st, is64, cur);
                        }
                        _ => {
                            if is64 {
                                st.push(Val::I64(-1));
                            } else {
                                st.push(Val::I32(-1));
                            }
                        }
                    }
                }
                Operator::MemoryFill { mem } => {
                    let is64 = m.mems[*mem as usize].memory64;
                    let n = if is64 { pop!(st, I64) as u64 } else { pop!(st, I32) as u32 as u64 };
                    let v = pop!(st, I32) as u8;
                    let d = if is64 { pop!(st, I64) as u64 } else { pop!(st, I32) as u32 as u64 };
                    let mm = &mut self.mems[*mem as usize];
                    let end = d.checked_add(n).ok_or(Trap::MemoryOutOfBounds)?;
                    if end > mm.data.len() as u64 {
                        return Err(Trap::MemoryOutOfBounds);
                    }
                    mm.data[d as usize..end as usize].fill(v);
                }
                Operator::MemoryCopy { dst_mem, src_mem } => {
                    let d64 = m.mems[*dst_mem as usize].memory64;
                    let s64 = m.mems[*src_mem as usize].memory64;
                    let n64 = d64 && s64;
                    let n = if n64 { pop!(st, I64) as u64 } else { pop!(st, I32) as u32 as u64 };
                    let s = if s64 { pop!(st, I64) as u64 } else { pop!(st, I32) as u32 as u64 };
                    let d = if d64 { pop!(st, I64) as u64 } else { pop!(st, I32) as u32 as u64 };
                    let send = s.checked_add(n).ok_or(Trap::MemoryOutOfBounds)?;
                    let dend = d.checked_add(n).ok_or(Trap::MemoryOutOfBounds)?;
                    if send > self.mems[*src_mem as usize].data.len() as u64 || dend > self.mems[*dst_mem as usize].data.len() as u64 {
                        return Err(Trap::MemoryOutOfBounds);
                    }
                    let tmp: Vec<u8> = self.mems[*src_mem as usize].data[s as usize..send as usize].to_vec();
                    self.mems[*dst_mem as usize].data[d as usize..dend as usize].copy_from_slice(&tmp);
                }
                Operator::MemoryInit { data_index, mem } => {
                    let n = pop!(st, I32) as u32 as u64;
                    let s = pop!(st, I32) as u32 as u64;
                    let is64 = m.mems[*mem as usize].memory64;
                    let d = if is64 { pop!(st, I64) as u64 } else { pop!(st, I32) as u32 as u64 };
                    let seg: &[u8] = if self.dropped_data[*data_index as usize] {
                        &[]
                    } else {
                        m.datas[*data_index as usize].bytes
                    };
                    let send = s.checked_add(n).ok_or(Trap::MemoryOutOfBounds)?;
                    let dend = d.checked_add(n).ok_or(Trap::MemoryOutOfBounds)?;
                    if send > seg.len() as u64 || dend > self.mems[*mem as usize].data.len() as u64 {
                        return Err(Trap::MemoryOutOfBounds);
                    }
                    let tmp = seg[s as usize..send as usize].to_vec();
                    self.mems[*mem as usize].data[d as usize..dend as usize].copy_from_slice(&tmp);
                }
                Operator::DataDrop { data_index } => self.dropped_data[*data_index as usize] = true,
                // ---- tables ----
                Operator::TableGet { table } => {
                    let i = self.pop_table_idx(&mut st, *table)?;
                    let v = *self.tables[*table as usize].elems.get(i as usize).ok_or(Trap::TableOutOfBounds)?;
                    st.push(v);
                }
                Operator::TableSet { table } => {
                    let v = st.pop().unwrap();
                    let i = self.pop_table_idx(&mut st, *table)?;
                    let t = &mut self.tables[*table as usize];
                    *t.elems.get_mut(i as usize).ok_or(Trap::TableOutOfBounds)? = v;
                }
                Operator::TableSize { table } => {
                    let n = self.tables[*table as usize].elems.len() as u64;
                    let t64 = m.tables[*table as usize].table64;
                    self.push_idx(&mut st, t64, n);
                }
                Operator::TableGrow { table } => {
                    let t64 = m.tables[*table as usize].table64;
                    let delta = if t64 { pop!(st, I64) as u64 } else { pop!(st, I32) as u32 as u64 };
                    let v = st.pop().unwrap();
                    let t = &mut self.tables[*table as usize];
                    let cur = t.elems.len() as u64;
                    let cap = t.max.unwrap_or(TABLE_CAP).min(TABLE_CAP);
                    match cur.checked_add(delta) {
                        Some(n) if n <= cap => {
                            t.elems.resize(n as usize, v);
                            self.push_idx(&mut st, t64, cur);
                        }
                        _ => {
                            if t64 {
                                st.push(Val::I64(-1));
                            } else {
                                st.push(Val::I32(-1));
                            }
                        }
                    }
                }
                Operator::TableFill { table } => {
                    let t64 = m.tables[*table as usize].table64;
                    let n = if t64 { pop!(st, I64) as u64 } else { pop!(st, I32) as u32 as u64 };
                    let v = st.pop().unwrap();
                    let i = self.pop_table_idx(&mut st, *table)?;
                    let t = &mut self.tables[*table as usize];
                    let end = i.checked_add(n).ok_or(Trap::TableOutOfBounds)?;
                    if end > t.elems.len() as u64 {
                        return Err(Trap::TableOutOfBounds);
                    }
                    for k in i..end {
                        t.elems[k as usize] = v;
                    }
                }
                Operator::TableCopy { dst_table, src_table } => {
                    let d64 = m.tables[*dst_table as usize].table64;
                    let s64 = m.tables[*src_table as usize].table64;
                    let n = if d64 && s64 { pop!(st, I64) as u64 } else { pop!(st, I32) as u32 as u64 };
                    let s = self.pop_table_idx(&mut st, *src_table)?;
                    let d = self.pop_table_idx(&mut st, *dst_table)?;
                    let send = s.checked_add(n).ok_or(Trap::TableOutOfBounds)?;
                    let dend = d.checked_add(n).ok_or(Trap::TableOutOfBounds)?;
                    if send > self.tables[*src_table as usize].elems.len() as u64 || dend > self.tables[*dst_table as usize].elems.len() as u64 {
                        return Err(Trap::TableOutOfBounds);
                    }
                    let tmp: Vec<Val> = self.tables[*src_table as usize].elems[s as usize..send as usize].to_vec();
                    self.tables[*dst_table as usize].elems[d as usize..dend as usize].copy_from_slice(&tmp);
                }
                Operator::TableInit { elem_index, table } => {
                    let n = pop!(st, I32) as u32 as u64;
                    let s = pop!(st, I32) as u32 as u64;
                    let d = self.pop_table_idx(&mut st, *table)?;
                    let seg_len = if self.dropped_elem[*elem_index as usize] {
                        0
                    } else {
                        m.elems[*elem_index as usize].items.len() as u64
                    };
                    let send = s.checked_add(n).ok_or(Trap::TableOutOfBounds)?;
                    let dend = d.checked_add(n).ok_or(Trap::TableOutOfBounds)?;
                    if send > seg_len || dend > self.tables[*table as usize].elems.len() as u64 {
                        return Err(Trap::TableOutOfBounds);
                    }
                    for k in 0..n {
                        let v = self.eval_const(&m.elems[*elem_index as usize].items[(s + k) as usize])?;
                        self.tables[*table as usize].elems[(d + k) as usize] = v;
                    }
                }
                Operator::ElemDrop { elem_index } => self.dropped_elem[*elem_index as usize] = true,
                Operator::AtomicFence => {}
                other => {
                    // numeric, memory access, atomics, simd: table-driven
                    self.exec_numeric(other, &mut st)?;
                }
            }
            pc += 1;
        }
    }
}

/// Operator names the interpreter implements (used by the exec generator).
pub fn supports(name: &str) -> bool {
    num::supports(name)
}
