//! Reference interpreter (stub until built).
pub fn supports(_name: &str) -> bool { true }
