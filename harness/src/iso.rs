//! Verified renumbering bijection between two independently decoded binaries
//! (DESIGN §3.1). The bijection is discovered by lock-step traversal from the
//! ordered anchors (imports, exports, start, segments) and verified as it is
//! built; nothing is taken from walrus.

use crate::decode::*;
use crate::ops::{BlockTy, Imm, Op, VT};
use std::collections::{BTreeMap, HashMap};

#[derive(Clone, Debug, PartialEq, Eq)]
pub enum Area {
    Code,
    Module,
}

#[derive(Clone, Debug)]
pub struct Mismatch {
    pub area: Area,
    pub signature: String,
    pub detail: String,
    /// how many operators matched before the mismatch (for picking the most
    /// plausible candidate among trial pairings)
    pub progress: usize,
}

fn mm(area: Area, sig: impl Into<String>, detail: impl Into<String>) -> Mismatch {
    Mismatch {
        area,
        signature: sig.into(),
        detail: detail.into(),
        progress: 0,
    }
}

/// Input-side canonicalisation: drop `nop`, drop syntactically dead code, and
/// give every `if` an `else`. Synthesised operators carry offset usize::MAX.
pub fn canonicalise(ops: &[Op]) -> (Vec<Op>, CanonStats) {
    #[derive(Clone, Copy, PartialEq)]
    enum K {
        Func,
        Block,
        If,
        Else,
    }
    struct F {
        kind: K,
        dead: bool,
    }
    let mut st = CanonStats::default();
    let mut out = Vec::with_capacity(ops.len());
    let mut frames = vec![F {
        kind: K::Func,
        dead: false,
    }];
    let mut skip_depth = 0usize;
    for op in ops {
        let top_dead = frames.last().map(|f| f.dead).unwrap_or(false);
        if top_dead {
            if op.opens_block() {
                skip_depth += 1;
                st.dead_ops += 1;
                continue;
            }
            if op.is("End") && skip_depth > 0 {
                skip_depth -= 1;
                st.dead_ops += 1;
                continue;
            }
            if skip_depth > 0 {
                st.dead_ops += 1;
                continue;
            }
            if op.is("Else") {
                let f = frames.last_mut().unwrap();
                f.kind = K::Else;
                f.dead = false;
                out.push(op.clone());
                continue;
            }
            if op.is("End") {
                let f = frames.pop().unwrap();
                if f.kind == K::If {
                    let mut e = op.clone();
                    e.name = "Else";
                    e.offset = usize::MAX;
                    out.push(e);
                    st.if_no_else += 1;
                }
                out.push(op.clone());
                continue;
            }
            st.dead_ops += 1;
            continue;
        }
        match op.name {
            "Nop" => {
                st.nops += 1;
            }
            "Block" | "Loop" => {
                frames.push(F {
                    kind: K::Block,
                    dead: false,
                });
                out.push(op.clone());
            }
            "If" => {
                frames.push(F {
                    kind: K::If,
                    dead: false,
                });
                out.push(op.clone());
            }
            "Else" => {
                if let Some(f) = frames.last_mut() {
                    f.kind = K::Else;
                }
                out.push(op.clone());
            }
            "End" => {
                if let Some(f) = frames.pop() {
                    if f.kind == K::If {
                        let mut e = op.clone();
                        e.name = "Else";
                        e.offset = usize::MAX;
                        out.push(e);
                        st.if_no_else += 1;
                    }
                }
                out.push(op.clone());
            }
            _ => {
                out.push(op.clone());
                if op.is_terminator() {
                    if let Some(f) = frames.last_mut() {
                        f.dead = true;
                    }
                }
            }
        }
    }
    (out, st)
}

#[derive(Clone, Debug, Default)]
pub struct CanonStats {
    pub nops: usize,
    pub dead_ops: usize,
    pub if_no_else: usize,
}

#[derive(Default, Clone, Debug)]
pub struct Bij {
    pub fwd: HashMap<u32, u32>,
    pub rev: HashMap<u32, u32>,
}

impl Bij {
    /// Ok(true) if newly bound, Ok(false) if already consistently bound.
    fn bind(&mut self, a: u32, b: u32) -> Result<bool, (Option<u32>, Option<u32>)> {
        match (self.fwd.get(&a), self.rev.get(&b)) {
            (None, None) => {
                self.fwd.insert(a, b);
                self.rev.insert(b, a);
                Ok(true)
            }
            (Some(x), Some(y)) if *x == b && *y == a => Ok(false),
            (x, y) => Err((x.copied(), y.copied())),
        }
    }
}

pub struct Iso<'a> {
    pub a: &'a ModuleD,
    pub b: &'a ModuleD,
    pub funcs: Bij,
    pub globals: Bij,
    pub tables: Bij,
    pub mems: Bij,
    pub datas: Bij,
    pub elems: Bij,
    pending_funcs: Vec<(u32, u32)>,
    /// per function pair: (input offset, output offset) of every paired operator
    pub op_pairs: BTreeMap<(u32, u32), Vec<(usize, usize)>>,
    /// per function pair: local index map input -> output
    pub local_maps: BTreeMap<(u32, u32), HashMap<u32, u32>>,
    /// signatures to tolerate (known findings), with hit counters
    pub tolerate: Vec<String>,
    pub tolerated_hits: BTreeMap<String, (usize, String)>,
    pub canon: CanonStats,
    pub funcs_compared: usize,
    pub ops_compared: usize,
    /// ignore `i32.const K; drop` pairs with K in the edit-marker range in the
    /// output (instructions inserted by edits::insert_const_drop)
    pub strip_markers: bool,
    /// input functions whose image was chosen among several content-identical
    /// candidates (unreferenced duplicates): offset / index judgements that
    /// depend on the choice must be skipped for them
    pub ambiguous_funcs: std::collections::HashSet<u32>,
    /// likewise for the other index spaces ("global", "table", "memory",
    /// "element", "data"): input indices that were one of several fitting
    /// preimages of an output entity nothing else identified (GC mode)
    pub ambiguous: std::collections::HashSet<(&'static str, u32)>,
    leftover_funcs: Vec<u32>,
}

type R = Result<(), Mismatch>;

impl<'a> Iso<'a> {
    pub fn new(a: &'a ModuleD, b: &'a ModuleD) -> Iso<'a> {
        Iso {
            a,
            b,
            funcs: Bij::default(),
            globals: Bij::default(),
            tables: Bij::default(),
            mems: Bij::default(),
            datas: Bij::default(),
            elems: Bij::default(),
            pending_funcs: vec![],
            op_pairs: BTreeMap::new(),
            local_maps: BTreeMap::new(),
            tolerate: vec![],
            tolerated_hits: BTreeMap::new(),
            canon: CanonStats::default(),
            funcs_compared: 0,
            ops_compared: 0,
            strip_markers: false,
            ambiguous_funcs: Default::default(),
            ambiguous: Default::default(),
            leftover_funcs: vec![],
        }
    }

    fn tol(&mut self, m: Mismatch) -> R {
        if self.tolerate.iter().any(|s| *s == m.signature) {
            let e = self
                .tolerated_hits
                .entry(m.signature.clone())
                .or_insert((0, m.detail.clone()));
            e.0 += 1;
            Ok(())
        } else {
            Err(m)
        }
    }

    fn sig_eq(&self, ta: u32, tb: u32) -> bool {
        match (self.a.types.get(ta as usize), self.b.types.get(tb as usize)) {
            (Some(x), Some(y)) => x == y,
            _ => false,
        }
    }

    fn bind_func(&mut self, x: u32, y: u32, area: Area, ctx: &str) -> R {
        match self.funcs.bind(x, y) {
            Ok(true) => {
                self.pending_funcs.push((x, y));
                Ok(())
            }
            Ok(false) => Ok(()),
            Err(e) => Err(mm(
                area,
                "func-ref-retargeted",
                format!("{}: function {} ↔ {} conflicts with earlier binding {:?}", ctx, x, y, e),
            )),
        }
    }

    fn bind_global(&mut self, x: u32, y: u32, area: Area, ctx: &str) -> R {
        match self.globals.bind(x, y) {
            Ok(true) => self.cmp_global(x, y, ctx),
            Ok(false) => Ok(()),
            Err(e) => Err(mm(
                area,
                "global-ref-retargeted",
                format!("{}: global {} ↔ {} conflicts with {:?}", ctx, x, y, e),
            )),
        }
    }

    fn bind_table(&mut self, x: u32, y: u32, area: Area, ctx: &str) -> R {
        match self.tables.bind(x, y) {
            Ok(true) => {
                let (ta, tb) = (self.a.table_ty(x), self.b.table_ty(y));
                if ta != tb {
                    return Err(mm(
                        Area::Module,
                        table_attr_sig(ta, tb),
                        format!("{}: table {} {:?} ↔ {} {:?}", ctx, x, ta, y, tb),
                    ));
                }
                let ia = (x as usize) < self.a.imp_tables.len();
                let ib = (y as usize) < self.b.imp_tables.len();
                if ia != ib {
                    return Err(mm(Area::Module, "table.imported", format!("{}: table {} ↔ {}", ctx, x, y)));
                }
                if ia {
                    let (pa, pb) = (self.a.imp_tables.clone(), self.b.imp_tables.clone());
                    self.same_import("table", &pa, &pb, x, y)?;
                }
                Ok(())
            }
            Ok(false) => Ok(()),
            Err(e) => Err(mm(
                area,
                "table-ref-retargeted",
                format!("{}: table {} ↔ {} conflicts with {:?}", ctx, x, y, e),
            )),
        }
    }

    fn bind_mem(&mut self, x: u32, y: u32, area: Area, ctx: &str) -> R {
        match self.mems.bind(x, y) {
            Ok(true) => {
                let (ta, tb) = (self.a.mem_ty(x), self.b.mem_ty(y));
                if ta != tb {
                    return Err(mm(
                        Area::Module,
                        mem_attr_sig(ta, tb, (x as usize) < self.a.imp_mems.len()),
                        format!("{}: memory {} {:?} ↔ {} {:?}", ctx, x, ta, y, tb),
                    ));
                }
                let ia = (x as usize) < self.a.imp_mems.len();
                let ib = (y as usize) < self.b.imp_mems.len();
                if ia != ib {
                    return Err(mm(Area::Module, "memory.imported", format!("{}: memory {} ↔ {}", ctx, x, y)));
                }
                if ia {
                    let (pa, pb) = (self.a.imp_mems.clone(), self.b.imp_mems.clone());
                    self.same_import("memory", &pa, &pb, x, y)?;
                }
                Ok(())
            }
            Ok(false) => Ok(()),
            Err(e) => Err(mm(
                area,
                "memory-ref-retargeted",
                format!("{}: memory {} ↔ {} conflicts with {:?}", ctx, x, y, e),
            )),
        }
    }

    fn bind_data(&mut self, x: u32, y: u32, area: Area, ctx: &str) -> R {
        match self.datas.bind(x, y) {
            Ok(true) => self.cmp_data(x, y),
            Ok(false) => Ok(()),
            Err(e) => Err(mm(
                area,
                "data-ref-retargeted",
                format!("{}: data {} ↔ {} conflicts with {:?}", ctx, x, y, e),
            )),
        }
    }

    fn bind_elem(&mut self, x: u32, y: u32, area: Area, ctx: &str) -> R {
        match self.elems.bind(x, y) {
            Ok(true) => self.cmp_elem(x, y),
            Ok(false) => Ok(()),
            Err(e) => Err(mm(
                area,
                "elem-ref-retargeted",
                format!("{}: elem {} ↔ {} conflicts with {:?}", ctx, x, y, e),
            )),
        }
    }

    fn cmp_global(&mut self, x: u32, y: u32, ctx: &str) -> R {
        let (ta, tb) = (self.a.global_ty(x).cloned(), self.b.global_ty(y).cloned());
        if ta != tb {
            let sig = match (&ta, &tb) {
                (Some(p), Some(q)) if p.ty != q.ty => "global.type",
                (Some(p), Some(q)) if p.mutable != q.mutable => "global.mutable",
                (Some(p), Some(q)) if p.shared != q.shared => "global.shared",
                _ => "global.missing",
            };
            return Err(mm(
                Area::Module,
                sig,
                format!("{}: global {} {:?} ↔ {} {:?}", ctx, x, ta, y, tb),
            ));
        }
        let na = self.a.imp_globals.len() as u32;
        let nb = self.b.imp_globals.len() as u32;
        match (x < na, y < nb) {
            (true, true) => {
                let (pa, pb) = (self.a.imp_globals.clone(), self.b.imp_globals.clone());
                self.same_import("global", &pa, &pb, x, y)
            }
            (false, false) => {
                let (ia, ib) = match (self.a.globals.get((x - na) as usize), self.b.globals.get((y - nb) as usize)) {
                    (Some(p), Some(q)) => (p.init.clone(), q.init.clone()),
                    _ => return Err(mm(Area::Module, "reference-out-of-range", format!("{}: global {} ↔ {}", ctx, x, y))),
                };
                self.cmp_const_expr(&ia, &ib, &format!("global {} init", x), "global.init")
            }
            _ => Err(mm(Area::Module, "global.imported", format!("{}: global {} ↔ {}", ctx, x, y))),
        }
    }

    fn cmp_const_expr(&mut self, ia: &[Op], ib: &[Op], ctx: &str, sigp: &str) -> R {
        if ia.len() != ib.len() {
            return Err(mm(
                Area::Module,
                format!("{}.length", sigp),
                format!("{}: {:?} ↔ {:?}", ctx, ia, ib),
            ));
        }
        for (p, q) in ia.iter().zip(ib.iter()) {
            if p.name != q.name {
                return Err(mm(
                    Area::Module,
                    format!("{}.op:{}->{}", sigp, p.name, q.name),
                    format!("{}: {} ↔ {}", ctx, p.short(), q.short()),
                ));
            }
            for (u, v) in p.imms.iter().zip(q.imms.iter()) {
                match (u, v) {
                    (Imm::Func(f), Imm::Func(g)) => self.bind_func(*f, *g, Area::Module, ctx)?,
                    (Imm::Global(f), Imm::Global(g)) => self.bind_global(*f, *g, Area::Module, ctx)?,
                    _ => {
                        if u != v {
                            return Err(mm(
                                Area::Module,
                                format!("{}.value:{}", sigp, p.name),
                                format!("{}: {} ↔ {}", ctx, p.short(), q.short()),
                            ));
                        }
                    }
                }
            }
        }
        Ok(())
    }

    fn cmp_data(&mut self, x: u32, y: u32) -> R {
        let (da, db) = match (self.a.datas.get(x as usize), self.b.datas.get(y as usize)) {
            (Some(p), Some(q)) => (p.clone(), q.clone()),
            _ => return Err(mm(Area::Module, "reference-out-of-range", format!("data {} ↔ {}", x, y))),
        };
        match (&da.mode, &db.mode) {
            (DataMode::Passive, DataMode::Passive) => {}
            (
                DataMode::Active { memory: ma, offset: oa },
                DataMode::Active { memory: mb, offset: ob },
            ) => {
                self.bind_mem(*ma, *mb, Area::Module, &format!("data {} target", x))?;
                self.cmp_const_expr(oa, ob, &format!("data {} offset", x), "data.offset")?;
            }
            _ => {
                return Err(mm(
                    Area::Module,
                    "data.mode",
                    format!("data {} {:?} ↔ {} {:?}", x, da.mode, y, db.mode),
                ))
            }
        }
        if da.bytes != db.bytes {
            return Err(mm(Area::Module, "data.payload", format!("data {} ↔ {} payload differs", x, y)));
        }
        Ok(())
    }

    fn cmp_elem(&mut self, x: u32, y: u32) -> R {
        let (ea, eb) = match (self.a.elems.get(x as usize), self.b.elems.get(y as usize)) {
            (Some(p), Some(q)) => (p.clone(), q.clone()),
            _ => return Err(mm(Area::Module, "reference-out-of-range", format!("elem {} ↔ {}", x, y))),
        };
        match (&ea.mode, &eb.mode) {
            (ElemMode::Passive, ElemMode::Passive) | (ElemMode::Declared, ElemMode::Declared) => {}
            (
                ElemMode::Active { table: ta, offset: oa, .. },
                ElemMode::Active { table: tb, offset: ob, .. },
            ) => {
                self.bind_table(*ta, *tb, Area::Module, &format!("elem {} target", x))?;
                self.cmp_const_expr(oa, ob, &format!("elem {} offset", x), "elem.offset")?;
            }
            _ => {
                return Err(mm(
                    Area::Module,
                    "elem.mode",
                    format!("elem {} {:?} ↔ {} {:?}", x, ea.mode, y, eb.mode),
                ))
            }
        }
        match (&ea.items, &eb.items) {
            (ElemItems::Funcs(fa), ElemItems::Funcs(fb)) => {
                if fa.len() != fb.len() {
                    return Err(mm(Area::Module, "elem.items.length", format!("elem {} ↔ {}", x, y)));
                }
                for (i, (p, q)) in fa.iter().zip(fb.iter()).enumerate() {
                    self.bind_func(*p, *q, Area::Module, &format!("elem {} item {}", x, i))?;
                }
            }
            (ElemItems::Exprs(ta, xa), ElemItems::Exprs(tb, xb)) => {
                if ta != tb {
                    return Err(mm(Area::Module, "elem.type", format!("elem {} {:?} ↔ {:?}", x, ta, tb)));
                }
                if xa.len() != xb.len() {
                    return Err(mm(Area::Module, "elem.items.length", format!("elem {} ↔ {}", x, y)));
                }
                for (i, (p, q)) in xa.iter().zip(xb.iter()).enumerate() {
                    self.cmp_const_expr(p, q, &format!("elem {} item {}", x, i), "elem.item")?;
                }
            }
            _ => {
                return Err(mm(
                    Area::Module,
                    "elem.items.form",
                    format!("elem {} items form differs: {:?} ↔ {:?}", x, ea.items, eb.items),
                ))
            }
        }
        Ok(())
    }

    fn block_sig(m: &ModuleD, bt: &BlockTy) -> Option<(Vec<VT>, Vec<VT>)> {
        match bt {
            BlockTy::Empty => Some((vec![], vec![])),
            BlockTy::Val(t) => Some((vec![], vec![*t])),
            BlockTy::Func(i) => m.types.get(*i as usize).map(|t| (t.params.clone(), t.results.clone())),
        }
    }

    fn local_ty(m: &ModuleD, f: u32, l: u32) -> Option<VT> {
        let sig = m.func_sig(f)?;
        let np = sig.params.len() as u32;
        if l < np {
            Some(sig.params[l as usize])
        } else {
            m.body(f)?.locals.get((l - np) as usize).copied()
        }
    }

    fn cmp_bodies(&mut self, fx: u32, fy: u32) -> R {
        let a = self.a;
        let b = self.b;
        let (ba, bb) = match (a.body(fx), b.body(fy)) {
            (Some(p), Some(q)) => (p, q),
            (None, None) => return Ok(()),
            _ => {
                return Err(mm(
                    Area::Module,
                    "func.imported",
                    format!("function {} ↔ {}: one is imported, the other local", fx, fy),
                ))
            }
        };
        let (ca, st) = canonicalise(&ba.ops);
        // the output is canonicalised as well: walrus is free to keep dead
        // code it does not recognise (e.g. after return_call) or to drop it
        let (mut cb, _) = canonicalise(&bb.ops);
        if self.strip_markers {
            // stack-based so that nested insertions (a pair inserted between
            // the two halves of another pair) disappear as well
            let mut kept: Vec<Op> = Vec::with_capacity(cb.len());
            for o in cb.iter() {
                let top_is_marker = kept
                    .last()
                    .map(|t| t.name == "I32Const" && matches!(t.imms.first(), Some(Imm::I32(k)) if (0x5eed00..0x5eed00 + 256).contains(k)))
                    .unwrap_or(false);
                if o.name == "Drop" && top_is_marker {
                    kept.pop();
                } else {
                    kept.push(o.clone());
                }
            }
            cb = kept;
        }
        self.canon.nops += st.nops;
        self.canon.dead_ops += st.dead_ops;
        self.canon.if_no_else += st.if_no_else;
        self.funcs_compared += 1;
        let np = a.func_sig(fx).map(|s| s.params.len()).unwrap_or(0) as u32;
        let mut lmap: HashMap<u32, u32> = HashMap::new();
        let mut lrev: HashMap<u32, u32> = HashMap::new();
        let mut pairs = Vec::with_capacity(ca.len());
        let n = ca.len().min(cb.len());
        for i in 0..n {
            let p = &ca[i];
            let q = &cb[i];
            self.ops_compared += 1;
            let ctx = || format!("func {}↔{} op #{} {} ↔ {}", fx, fy, i, p.short(), q.short());
            if p.name != q.name {
                self.tol(mm(Area::Code, format!("op-changed:{}->{}", p.name, q.name), ctx()))?;
                if p.offset != usize::MAX && q.offset != usize::MAX {
                    pairs.push((p.offset, q.offset));
                }
                continue;
            }
            if p.imms.len() != q.imms.len() {
                return Err(mm(Area::Code, format!("imm-count:{}", p.name), ctx()));
            }
            for (u, v) in p.imms.iter().zip(q.imms.iter()) {
                match (u, v) {
                    (Imm::Func(f), Imm::Func(g)) => self.bind_func(*f, *g, Area::Code, &ctx())?,
                    (Imm::Global(f), Imm::Global(g)) => self.bind_global(*f, *g, Area::Code, &ctx())?,
                    (Imm::Table(f), Imm::Table(g)) => self.bind_table(*f, *g, Area::Code, &ctx())?,
                    (Imm::Mem(f), Imm::Mem(g)) => self.bind_mem(*f, *g, Area::Code, &ctx())?,
                    (Imm::Data(f), Imm::Data(g)) => self.bind_data(*f, *g, Area::Code, &ctx())?,
                    (Imm::Elem(f), Imm::Elem(g)) => self.bind_elem(*f, *g, Area::Code, &ctx())?,
                    (Imm::Type(f), Imm::Type(g)) => {
                        if !self.sig_eq(*f, *g) {
                            return Err(mm(Area::Code, format!("imm:{}:type", p.name), ctx()));
                        }
                    }
                    (Imm::Local(f), Imm::Local(g)) => {
                        if *f < np || *g < np {
                            if f != g {
                                return Err(mm(Area::Code, "local:param-position", ctx()));
                            }
                        } else {
                            let ok = match (lmap.get(f), lrev.get(g)) {
                                (None, None) => {
                                    lmap.insert(*f, *g);
                                    lrev.insert(*g, *f);
                                    true
                                }
                                (Some(x), Some(y)) => x == g && y == f,
                                _ => false,
                            };
                            if !ok {
                                return Err(mm(Area::Code, "local:not-injective", ctx()));
                            }
                            if Self::local_ty(a, fx, *f) != Self::local_ty(b, fy, *g) {
                                return Err(mm(Area::Code, "local:type", ctx()));
                            }
                        }
                    }
                    (Imm::Block(f), Imm::Block(g)) => {
                        let (sa, sb) = (Self::block_sig(a, f), Self::block_sig(b, g));
                        if sa.is_none() || sa != sb {
                            return Err(mm(Area::Code, format!("imm:{}:blocktype", p.name), ctx()));
                        }
                    }
                    (
                        Imm::MemArg { align: aa, offset: oa, memory: ma },
                        Imm::MemArg { align: ab, offset: ob, memory: mb },
                    ) => {
                        self.bind_mem(*ma, *mb, Area::Code, &ctx())?;
                        if aa != ab {
                            return Err(mm(Area::Code, "imm:memarg.align", ctx()));
                        }
                        if oa != ob {
                            if *oa > u32::MAX as u64 && *ob == (*oa & 0xffff_ffff) {
                                self.tol(mm(Area::Code, "memarg-offset-truncated-to-u32", ctx()))?;
                            } else {
                                return Err(mm(Area::Code, "imm:memarg.offset", ctx()));
                            }
                        }
                    }
                    _ => {
                        if u != v {
                            let kind = match u {
                                Imm::Label(_) => "label",
                                Imm::Lane(_) => "lane",
                                Imm::I32(_) | Imm::I64(_) | Imm::F32(_) | Imm::F64(_) | Imm::V128(_) => "value",
                                Imm::Lanes(_) => "shuffle",
                                Imm::BrTable(..) => "targets",
                                Imm::ValTy(_) => "valtype",
                                Imm::Heap(_) => "heaptype",
                                _ => "other",
                            };
                            return Err(mm(Area::Code, format!("imm:{}:{}", p.name, kind), ctx()));
                        }
                    }
                }
            }
            if p.offset != usize::MAX && q.offset != usize::MAX {
                pairs.push((p.offset, q.offset));
            }
        }
        if ca.len() != cb.len() {
            let extra = if ca.len() > cb.len() {
                format!("input has extra {}", ca[n].short())
            } else {
                format!("output has extra {}", cb[n].short())
            };
            return Err(mm(
                Area::Code,
                "body-length",
                format!(
                    "func {}↔{}: canonical input has {} ops, output {}; {}",
                    fx,
                    fy,
                    ca.len(),
                    cb.len(),
                    extra
                ),
            ));
        }
        self.op_pairs.insert((fx, fy), pairs);
        self.local_maps.insert((fx, fy), lmap);
        Ok(())
    }

    /// (module, field) of the import that defines entity `idx` of the given kind
    fn import_name(m: &ModuleD, positions: &[usize], idx: u32) -> Option<(String, String)> {
        positions
            .get(idx as usize)
            .map(|p| (m.imports[*p].module.clone(), m.imports[*p].name.clone()))
    }

    fn same_import(&self, kind: &str, pa: &[usize], pb: &[usize], x: u32, y: u32) -> R {
        let (na, nb) = (Self::import_name(self.a, pa, x), Self::import_name(self.b, pb, y));
        if na != nb {
            return Err(mm(
                Area::Module,
                format!("{}.import-name", kind),
                format!("imported {} {} is {:?} in the input, its image {} is {:?}", kind, x, na, y, nb),
            ));
        }
        Ok(())
    }

    fn drain(&mut self) -> R {
        while let Some((x, y)) = self.pending_funcs.pop() {
            if (x as usize) < self.a.imp_funcs.len() && (y as usize) < self.b.imp_funcs.len() {
                let (pa, pb) = (self.a.imp_funcs.clone(), self.b.imp_funcs.clone());
                self.same_import("function", &pa, &pb, x, y)?;
            }
            // signature
            let (sa, sb) = (self.a.func_sig(x), self.b.func_sig(y));
            if sa.is_none() || sa != sb {
                return Err(mm(
                    Area::Module,
                    "func.signature",
                    format!("function {} {:?} ↔ {} {:?}", x, sa, y, sb),
                ));
            }
            let before = self.ops_compared;
            if let Err(mut e) = self.cmp_bodies(x, y) {
                e.progress = self.ops_compared - before;
                return Err(e);
            }
        }
        Ok(())
    }

    /// Full (no-GC) comparison: everything in `a` must correspond to exactly
    /// one thing in `b` and vice versa.
    pub fn run_full(&mut self) -> R {
        let a = self.a;
        let b = self.b;
        // imports, in order
        if a.imports.len() != b.imports.len() {
            return Err(mm(
                Area::Module,
                "imports.count",
                format!("{} imports ↔ {}", a.imports.len(), b.imports.len()),
            ));
        }
        let (mut nf, mut nt, mut nm, mut ng) = (0u32, 0u32, 0u32, 0u32);
        for (i, (p, q)) in a.imports.iter().zip(b.imports.iter()).enumerate() {
            if p.module != q.module || p.name != q.name {
                return Err(mm(
                    Area::Module,
                    "import.name",
                    format!("import {}: {}.{} ↔ {}.{}", i, p.module, p.name, q.module, q.name),
                ));
            }
            let ctx = format!("import {} ({}.{})", i, p.module, p.name);
            match (&p.kind, &q.kind) {
                (ImportKind::Func(ta), ImportKind::Func(tb)) => {
                    if !self.sig_eq(*ta, *tb) {
                        return Err(mm(Area::Module, "import.func.type", ctx));
                    }
                    self.bind_func(nf, nf, Area::Module, &ctx)?;
                    nf += 1;
                }
                (ImportKind::Table(_), ImportKind::Table(_)) => {
                    self.bind_table(nt, nt, Area::Module, &ctx)?;
                    nt += 1;
                }
                (ImportKind::Memory(_), ImportKind::Memory(_)) => {
                    self.bind_mem(nm, nm, Area::Module, &ctx)?;
                    nm += 1;
                }
                (ImportKind::Global(_), ImportKind::Global(_)) => {
                    self.bind_global(ng, ng, Area::Module, &ctx)?;
                    ng += 1;
                }
                _ => return Err(mm(Area::Module, "import.kind", ctx)),
            }
        }
        // exports, in order
        if a.exports.len() != b.exports.len() {
            return Err(mm(
                Area::Module,
                "exports.count",
                format!("{} exports ↔ {}", a.exports.len(), b.exports.len()),
            ));
        }
        for (i, (p, q)) in a.exports.iter().zip(b.exports.iter()).enumerate() {
            if p.name != q.name {
                return Err(mm(Area::Module, "export.name", format!("export {}: {} ↔ {}", i, p.name, q.name)));
            }
            if p.kind != q.kind {
                return Err(mm(
                    Area::Module,
                    "export.kind",
                    format!("export {} {}: {:?} ↔ {:?}", i, p.name, p.kind, q.kind),
                ));
            }
            let ctx = format!("export {} \"{}\"", i, p.name);
            match p.kind {
                ExtKind::Func => self.bind_func(p.index, q.index, Area::Module, &ctx)?,
                ExtKind::Table => self.bind_table(p.index, q.index, Area::Module, &ctx)?,
                ExtKind::Memory => self.bind_mem(p.index, q.index, Area::Module, &ctx)?,
                ExtKind::Global => self.bind_global(p.index, q.index, Area::Module, &ctx)?,
                ExtKind::Tag => {}
            }
        }
        // start
        match (a.start, b.start) {
            (None, None) => {}
            (Some(x), Some(y)) => self.bind_func(x, y, Area::Module, "start")?,
            (x, y) => return Err(mm(Area::Module, "start.presence", format!("start {:?} ↔ {:?}", x, y))),
        }
        // segments, in order
        if a.elems.len() != b.elems.len() {
            return Err(mm(
                Area::Module,
                "elems.count",
                format!("{} element segments ↔ {}", a.elems.len(), b.elems.len()),
            ));
        }
        for i in 0..a.elems.len() as u32 {
            self.bind_elem(i, i, Area::Module, "element order")?;
        }
        if a.datas.len() != b.datas.len() {
            return Err(mm(
                Area::Module,
                "datas.count",
                format!("{} data segments ↔ {}", a.datas.len(), b.datas.len()),
            ));
        }
        for i in 0..a.datas.len() as u32 {
            self.bind_data(i, i, Area::Module, "data order")?;
        }
        self.drain()?;

        // counts
        for (what, na, nb) in [
            ("funcs", a.n_funcs(), b.n_funcs()),
            ("tables", a.n_tables(), b.n_tables()),
            ("memories", a.n_mems(), b.n_mems()),
            ("globals", a.n_globals(), b.n_globals()),
        ] {
            if na != nb {
                return Err(mm(Area::Module, format!("{}.count", what), format!("{} {} ↔ {}", na, what, nb)));
            }
        }
        if a.funcs.len() != a.func_types.len() || b.funcs.len() != b.func_types.len() {
            return Err(mm(Area::Module, "code.count", "function and code section lengths differ".to_string()));
        }
        // leftovers: globals, tables, memories in order of appearance;
        // functions by trial comparison
        for x in 0..a.n_globals() {
            if !self.globals.fwd.contains_key(&x) {
                let cand = (0..b.n_globals()).find(|y| !self.globals.rev.contains_key(y) && self.try_pair(|s| s.bind_global(x, *y, Area::Module, "unreferenced global")));
                match cand {
                    Some(y) => {
                        self.bind_global(x, y, Area::Module, "unreferenced global")?;
                        self.drain()?;
                    }
                    None => {
                        // report the natural pairing's mismatch
                        let y = (0..b.n_globals()).find(|y| !self.globals.rev.contains_key(y));
                        if let Some(y) = y {
                            self.bind_global(x, y, Area::Module, "unreferenced global")?;
                            self.drain()?;
                        }
                        return Err(mm(Area::Module, "global.dropped", format!("input global {} has no counterpart", x)));
                    }
                }
            }
        }
        for x in 0..a.n_tables() {
            if !self.tables.fwd.contains_key(&x) {
                let y = (0..b.n_tables()).find(|y| !self.tables.rev.contains_key(y));
                match y {
                    Some(y) => self.bind_table(x, y, Area::Module, "unreferenced table")?,
                    None => return Err(mm(Area::Module, "table.dropped", format!("input table {} has no counterpart", x))),
                }
            }
        }
        for x in 0..a.n_mems() {
            if !self.mems.fwd.contains_key(&x) {
                let y = (0..b.n_mems()).find(|y| !self.mems.rev.contains_key(y));
                match y {
                    Some(y) => self.bind_mem(x, y, Area::Module, "unreferenced memory")?,
                    None => return Err(mm(Area::Module, "memory.dropped", format!("input memory {} has no counterpart", x))),
                }
            }
        }
        // functions placed so far are placed by references from exports, the
        // start section, element segments ...; everything placed from here on
        // is placed by content, directly or as a callee of such a function
        let witnessed: std::collections::HashSet<u32> = self.funcs.fwd.keys().copied().collect();
        for x in 0..a.n_funcs() {
            if !self.funcs.fwd.contains_key(&x) {
                let cands: Vec<u32> = (0..b.n_funcs()).filter(|y| !self.funcs.rev.contains_key(y)).collect();
                let mut found = None;
                let mut first_err: Option<Mismatch> = None;
                for y in cands {
                    match self.trial_func(x, y) {
                        Ok(()) => {
                            found = Some(y);
                            break;
                        }
                        Err(e) => {
                            let better = match &first_err {
                                None => true,
                                Some(f) => e.progress > f.progress,
                            };
                            if better {
                                first_err = Some(e);
                            }
                        }
                    }
                }
                match found {
                    Some(y) => {
                        let others: Vec<u32> = (0..b.n_funcs())
                            .filter(|z| *z != y && !self.funcs.rev.contains_key(z))
                            .collect();
                        if others.into_iter().any(|z| self.trial_func(x, z).is_ok()) {
                            self.ambiguous_funcs.insert(x);
                        }
                        self.leftover_funcs.push(x);
                        self.bind_func(x, y, Area::Module, "unreferenced function")?;
                        self.drain()?;
                    }
                    None => {
                        return Err(first_err.unwrap_or_else(|| {
                            mm(Area::Module, "func.dropped", format!("input function {} has no counterpart", x))
                        }))
                    }
                }
            }
        }
        if !self.ambiguous_funcs.is_empty() {
            // conservative closure: once one unreferenced function had a
            // content-identical twin, the pairing of all of them is arbitrary
            let all: Vec<u32> = self.leftover_funcs.clone();
            self.ambiguous_funcs.extend(all);
            // ... and so is the placement of the functions that were only
            // reached through them (mutually recursive twins)
            let dragged: Vec<u32> = self.funcs.fwd.keys().copied().filter(|x| !witnessed.contains(x)).collect();
            self.ambiguous_funcs.extend(dragged);
        }
        // type sections as sets of signatures
        let sa: std::collections::BTreeSet<String> = a.types.iter().map(|t| format!("{:?}", t)).collect();
        let sb: std::collections::BTreeSet<String> = b.types.iter().map(|t| format!("{:?}", t)).collect();
        if sa != sb {
            return Err(mm(
                Area::Module,
                "types.set",
                format!("signature sets differ: only-in {:?} only-out {:?}", sa.difference(&sb).collect::<Vec<_>>(), sb.difference(&sa).collect::<Vec<_>>()),
            ));
        }
        Ok(())
    }


    /// GC-mode comparison: `b` is the output after the GC pass, i.e. a
    /// sub-module of `a`. Every entity of `b` must correspond to exactly one
    /// entity of `a` (injective), with equal content; imports and segments of
    /// `b` are order-preserving subsequences of those of `a`.
    pub fn run_gc(&mut self) -> R {
        let a = self.a;
        let b = self.b;
        // exports: identical list
        if a.exports.len() != b.exports.len() {
            return Err(mm(
                Area::Module,
                "exports.count",
                format!("{} exports ↔ {}", a.exports.len(), b.exports.len()),
            ));
        }
        for (i, (p, q)) in a.exports.iter().zip(b.exports.iter()).enumerate() {
            if p.name != q.name || p.kind != q.kind {
                return Err(mm(Area::Module, "export.name-or-kind", format!("export {}: {:?} ↔ {:?}", i, p, q)));
            }
            let ctx = format!("export {} \"{}\"", i, p.name);
            match p.kind {
                ExtKind::Func => self.bind_func(p.index, q.index, Area::Module, &ctx)?,
                ExtKind::Table => self.bind_table(p.index, q.index, Area::Module, &ctx)?,
                ExtKind::Memory => self.bind_mem(p.index, q.index, Area::Module, &ctx)?,
                ExtKind::Global => self.bind_global(p.index, q.index, Area::Module, &ctx)?,
                ExtKind::Tag => {}
            }
        }
        match (a.start, b.start) {
            (None, None) => {}
            (Some(x), Some(y)) => self.bind_func(x, y, Area::Module, "start")?,
            (x, y) => return Err(mm(Area::Module, "start.presence", format!("start {:?} ↔ {:?}", x, y))),
        }
        self.drain()?;
        // Everything of the output that is still unbound needs a preimage.
        // First bind what has exactly one possible preimage (repeatedly, since
        // every binding can disambiguate others), then fall back to first fit.
        loop {
            let mut progress = false;
            for y in 0..b.elems.len() as u32 {
                if self.elems.rev.contains_key(&y) {
                    continue;
                }
                let c = self.seg_candidates(true, y);
                if c.len() == 1 {
                    self.bind_elem(c[0], y, Area::Module, "gc element (unique preimage)")?;
                    self.drain()?;
                    progress = true;
                }
            }
            for y in 0..b.datas.len() as u32 {
                if self.datas.rev.contains_key(&y) {
                    continue;
                }
                let c = self.seg_candidates(false, y);
                if c.len() == 1 {
                    self.bind_data(c[0], y, Area::Module, "gc data (unique preimage)")?;
                    self.drain()?;
                    progress = true;
                }
            }
            for y in 0..b.n_funcs() {
                if self.funcs.rev.contains_key(&y) {
                    continue;
                }
                let unbound: Vec<u32> = (0..a.n_funcs()).filter(|x| !self.funcs.fwd.contains_key(x)).collect();
                let mut cands: Vec<u32> = Vec::new();
                for x in unbound {
                    if self.trial_func(x, y).is_ok() {
                        cands.push(x);
                        if cands.len() > 1 {
                            break;
                        }
                    }
                }
                if cands.len() == 1 {
                    self.bind_func(cands[0], y, Area::Module, "gc function (unique preimage)")?;
                    self.drain()?;
                    progress = true;
                }
            }
            if !progress {
                break;
            }
        }
        for y in 0..b.elems.len() as u32 {
            if self.elems.rev.contains_key(&y) {
                continue;
            }
            let cands = self.seg_candidates(true, y);
            if cands.len() > 1 {
                self.ambiguous.extend(cands.iter().map(|x| ("element", *x)));
            }
            match cands.first().copied() {
                Some(x) => {
                    self.bind_elem(x, y, Area::Module, "gc element order")?;
                    self.drain()?;
                }
                None => {
                    return Err(mm(
                        Area::Module,
                        "gc:elem-without-preimage",
                        format!("output element segment {} matches no remaining input segment in order", y),
                    ))
                }
            }
        }
        for y in 0..b.datas.len() as u32 {
            if self.datas.rev.contains_key(&y) {
                continue;
            }
            let cands = self.seg_candidates(false, y);
            if cands.len() > 1 {
                self.ambiguous.extend(cands.iter().map(|x| ("data", *x)));
            }
            match cands.first().copied() {
                Some(x) => {
                    self.bind_data(x, y, Area::Module, "gc data order")?;
                    self.drain()?;
                }
                None => {
                    return Err(mm(
                        Area::Module,
                        "gc:data-without-preimage",
                        format!("output data segment {} matches no remaining input segment in order", y),
                    ))
                }
            }
        }
        // remaining output entities need a preimage
        let witnessed: std::collections::HashSet<u32> = self.funcs.fwd.keys().copied().collect();
        for y in 0..b.n_funcs() {
            if !self.funcs.rev.contains_key(&y) {
                let cands: Vec<u32> = (0..a.n_funcs()).filter(|x| !self.funcs.fwd.contains_key(x)).collect();
                let mut best: Option<Mismatch> = None;
                let mut found = None;
                for x in cands {
                    match self.trial_func(x, y) {
                        Ok(()) => {
                            found = Some(x);
                            break;
                        }
                        Err(e) => {
                            if best.as_ref().map(|b| e.progress > b.progress).unwrap_or(true) {
                                best = Some(e);
                            }
                        }
                    }
                }
                match found {
                    Some(x) => {
                        let others: Vec<u32> = (0..a.n_funcs())
                            .filter(|z| *z != x && !self.funcs.fwd.contains_key(z))
                            .collect();
                        // every input function that fits as well is a possible
                        // preimage: the chosen one and its twins are all ambiguous
                        // (a twin judged "removed" may be the one that survived)
                        let twins: Vec<u32> = others.into_iter().filter(|z| self.trial_func(*z, y).is_ok()).collect();
                        if !twins.is_empty() {
                            self.ambiguous_funcs.insert(x);
                            self.ambiguous_funcs.extend(twins);
                        }
                        self.leftover_funcs.push(x);
                        self.bind_func(x, y, Area::Module, "gc leftover function")?;
                        self.drain()?;
                    }
                    None => {
                        return Err(best.unwrap_or_else(|| {
                            mm(Area::Module, "gc:func-without-preimage", format!("output function {} has no preimage", y))
                        }))
                    }
                }
            }
        }
        // globals first bind where the preimage is unique (a global whose
        // initialiser reads another global pins that one down as well), so
        // that first fit among identical twins cannot contradict a binding
        // that is forced elsewhere
        loop {
            let mut progress = false;
            for y in 0..b.n_globals() {
                if self.globals.rev.contains_key(&y) {
                    continue;
                }
                let cands: Vec<u32> = (0..a.n_globals())
                    .filter(|x| !self.globals.fwd.contains_key(x) && self.try_pair(|s| s.bind_global(*x, y, Area::Module, "gc leftover global")))
                    .collect();
                if cands.len() == 1 {
                    self.bind_global(cands[0], y, Area::Module, "gc leftover global (unique preimage)")?;
                    progress = true;
                }
            }
            if !progress {
                break;
            }
        }
        for y in 0..b.n_globals() {
            if !self.globals.rev.contains_key(&y) {
                let cands: Vec<u32> = (0..a.n_globals())
                    .filter(|x| !self.globals.fwd.contains_key(x) && self.try_pair(|s| s.bind_global(*x, y, Area::Module, "gc leftover global")))
                    .collect();
                if cands.len() > 1 {
                    self.ambiguous.extend(cands.iter().map(|x| ("global", *x)));
                }
                let cand = cands.first().copied();
                match cand {
                    Some(x) => self.bind_global(x, y, Area::Module, "gc leftover global")?,
                    None => return Err(mm(Area::Module, "gc:global-without-preimage", format!("output global {}", y))),
                }
            }
        }
        for y in 0..b.n_tables() {
            if !self.tables.rev.contains_key(&y) {
                let cands: Vec<u32> = (0..a.n_tables())
                    .filter(|x| !self.tables.fwd.contains_key(x) && self.try_pair(|s| s.bind_table(*x, y, Area::Module, "gc leftover table")))
                    .collect();
                if cands.len() > 1 {
                    self.ambiguous.extend(cands.iter().map(|x| ("table", *x)));
                }
                let cand = cands.first().copied();
                match cand {
                    Some(x) => self.bind_table(x, y, Area::Module, "gc leftover table")?,
                    None => return Err(mm(Area::Module, "gc:table-without-preimage", format!("output table {}", y))),
                }
            }
        }
        for y in 0..b.n_mems() {
            if !self.mems.rev.contains_key(&y) {
                let cands: Vec<u32> = (0..a.n_mems())
                    .filter(|x| !self.mems.fwd.contains_key(x) && self.try_pair(|s| s.bind_mem(*x, y, Area::Module, "gc leftover memory")))
                    .collect();
                if cands.len() > 1 {
                    self.ambiguous.extend(cands.iter().map(|x| ("memory", *x)));
                }
                let cand = cands.first().copied();
                match cand {
                    Some(x) => self.bind_mem(x, y, Area::Module, "gc leftover memory")?,
                    None => return Err(mm(Area::Module, "gc:memory-without-preimage", format!("output memory {}", y))),
                }
            }
        }
        self.drain()?;
        // imports of the output: each needs a preimage among the input's
        // imports with the same (module, field, type); most are bound already
        // through the references followed above, the rest are matched in
        // order; finally the preimages must appear in input order
        let idx_in_space = |m: &ModuleD, pos: usize| -> u32 {
            let k = std::mem::discriminant(&m.imports[pos].kind);
            m.imports[..pos].iter().filter(|i| std::mem::discriminant(&i.kind) == k).count() as u32
        };
        let mut preimage_positions: Vec<usize> = Vec::new();
        for (j, q) in b.imports.iter().enumerate() {
            let y = idx_in_space(b, j);
            let bound: Option<u32> = match &q.kind {
                ImportKind::Func(_) => self.funcs.rev.get(&y).copied(),
                ImportKind::Table(_) => self.tables.rev.get(&y).copied(),
                ImportKind::Memory(_) => self.mems.rev.get(&y).copied(),
                ImportKind::Global(_) => self.globals.rev.get(&y).copied(),
                ImportKind::Tag => None,
            };
            let positions_a: &Vec<usize> = match &q.kind {
                ImportKind::Func(_) => &a.imp_funcs,
                ImportKind::Table(_) => &a.imp_tables,
                ImportKind::Memory(_) => &a.imp_mems,
                _ => &a.imp_globals,
            };
            if let Some(x) = bound {
                match positions_a.get(x as usize) {
                    Some(p) => preimage_positions.push(*p),
                    None => {
                        return Err(mm(
                            Area::Module,
                            "gc:import-bound-to-local-entity",
                            format!("output import {} ({}.{}) corresponds to a non-imported input entity", j, q.module, q.name),
                        ))
                    }
                }
                continue;
            }
            let ctx = format!("import {}.{}", q.module, q.name);
            let mut found = None;
            for (x, p) in positions_a.iter().enumerate() {
                let pi = &a.imports[*p];
                if pi.module != q.module || pi.name != q.name {
                    continue;
                }
                let x = x as u32;
                let ok = match (&pi.kind, &q.kind) {
                    (ImportKind::Func(ta), ImportKind::Func(tb)) => self.sig_eq(*ta, *tb) && !self.funcs.fwd.contains_key(&x),
                    (ImportKind::Table(ta), ImportKind::Table(tb)) => ta == tb && !self.tables.fwd.contains_key(&x),
                    (ImportKind::Memory(ta), ImportKind::Memory(tb)) => ta == tb && !self.mems.fwd.contains_key(&x),
                    (ImportKind::Global(ta), ImportKind::Global(tb)) => ta == tb && !self.globals.fwd.contains_key(&x),
                    _ => false,
                };
                if ok {
                    found = Some((x, *p));
                    break;
                }
            }
            match found {
                Some((x, p)) => {
                    match &q.kind {
                        ImportKind::Func(_) => self.bind_func(x, y, Area::Module, &ctx)?,
                        ImportKind::Table(_) => self.bind_table(x, y, Area::Module, &ctx)?,
                        ImportKind::Memory(_) => self.bind_mem(x, y, Area::Module, &ctx)?,
                        ImportKind::Global(_) => self.bind_global(x, y, Area::Module, &ctx)?,
                        ImportKind::Tag => {}
                    }
                    preimage_positions.push(p);
                }
                None => {
                    return Err(mm(
                        Area::Module,
                        "gc:import-without-preimage",
                        format!("output import {} ({}.{}) is not an import of the input with the same type", j, q.module, q.name),
                    ))
                }
            }
        }
        self.drain()?;
        // order: the preimages must appear in input order, where an import may
        // stand in for any identical (module, field, type) duplicate of itself
        let mut prev: Option<usize> = None;
        for p in preimage_positions.iter() {
            let chosen = (0..a.imports.len())
                .filter(|q| a.imports[*q] == a.imports[*p])
                .find(|q| prev.map(|x| *q > x).unwrap_or(true));
            match chosen {
                Some(q) => prev = Some(q),
                None => {
                    return Err(mm(
                        Area::Module,
                        "gc:imports-reordered",
                        format!("import {:?} is emitted after an import that follows it in the input", a.imports[*p]),
                    ))
                }
            }
        }
        if !self.ambiguous_funcs.is_empty() {
            let all: Vec<u32> = self.leftover_funcs.clone();
            self.ambiguous_funcs.extend(all);
            let dragged: Vec<u32> = self.funcs.fwd.keys().copied().filter(|x| !witnessed.contains(x)).collect();
            self.ambiguous_funcs.extend(dragged);
        }
        // output types must be signatures of the input
        let sa: std::collections::BTreeSet<String> = a.types.iter().map(|t| format!("{:?}", t)).collect();
        for t in &b.types {
            if !sa.contains(&format!("{:?}", t)) {
                return Err(mm(Area::Module, "gc:type-invented", format!("output type {:?} is not a type of the input", t)));
            }
        }
        Ok(())
    }

    /// input segments that output segment `y` could be the image of: unbound,
    /// content-equal under the current bindings, and between the preimages of
    /// its already bound neighbours (segments keep their relative order)
    fn seg_candidates(&mut self, elem: bool, y: u32) -> Vec<u32> {
        let (n_in, n_out) = if elem {
            (self.a.elems.len() as u32, self.b.elems.len() as u32)
        } else {
            (self.a.datas.len() as u32, self.b.datas.len() as u32)
        };
        let (fwd_has, rev_get): (Vec<bool>, Vec<Option<u32>>) = {
            let bij = if elem { &self.elems } else { &self.datas };
            (
                (0..n_in).map(|x| bij.fwd.contains_key(&x)).collect(),
                (0..n_out).map(|z| bij.rev.get(&z).copied()).collect(),
            )
        };
        let lo = (0..y).rev().find_map(|z| rev_get[z as usize]).map(|x| x + 1).unwrap_or(0);
        let hi = (y + 1..n_out).find_map(|z| rev_get[z as usize]).unwrap_or(n_in);
        let mut out = Vec::new();
        for x in lo..hi.min(n_in) {
            if fwd_has[x as usize] {
                continue;
            }
            let ok = if elem {
                self.try_pair(|s| s.bind_elem(x, y, Area::Module, "trial"))
            } else {
                self.try_pair(|s| s.bind_data(x, y, Area::Module, "trial"))
            };
            if ok {
                out.push(x);
            }
        }
        out
    }

    fn snapshot(&self) -> (Bij, Bij, Bij, Bij, Bij, Bij) {
        (
            self.funcs.clone(),
            self.globals.clone(),
            self.tables.clone(),
            self.mems.clone(),
            self.datas.clone(),
            self.elems.clone(),
        )
    }
    fn restore(&mut self, s: (Bij, Bij, Bij, Bij, Bij, Bij)) {
        self.funcs = s.0;
        self.globals = s.1;
        self.tables = s.2;
        self.mems = s.3;
        self.datas = s.4;
        self.elems = s.5;
        self.pending_funcs.clear();
    }

    fn try_pair(&mut self, f: impl FnOnce(&mut Self) -> R) -> bool {
        let snap = self.snapshot();
        let pairs = self.op_pairs.clone();
        let lm = self.local_maps.clone();
        let ok = f(self).and_then(|_| self.drain()).is_ok();
        self.restore(snap);
        self.op_pairs = pairs;
        self.local_maps = lm;
        ok
    }

    fn trial_func(&mut self, x: u32, y: u32) -> R {
        let snap = self.snapshot();
        let pairs = self.op_pairs.clone();
        let lm = self.local_maps.clone();
        let r = self
            .bind_func(x, y, Area::Module, "unreferenced function")
            .and_then(|_| self.drain());
        self.restore(snap);
        self.op_pairs = pairs;
        self.local_maps = lm;
        r
    }

    /// True instruction-offset map input → output over all paired functions.
    pub fn offset_map(&self) -> BTreeMap<usize, usize> {
        let mut m = BTreeMap::new();
        for (k, v) in self.op_pairs.iter() {
            if self.ambiguous_funcs.contains(&k.0) {
                continue;
            }
            for (i, o) in v {
                m.insert(*i, *o);
            }
        }
        m
    }
}

fn table_attr_sig(a: Option<&TableTy>, b: Option<&TableTy>) -> String {
    match (a, b) {
        (Some(p), Some(q)) => {
            if p.elem != q.elem {
                "table.element_type".into()
            } else if p.table64 != q.table64 {
                "table.table64".into()
            } else if p.initial != q.initial {
                "table.initial".into()
            } else if p.maximum != q.maximum {
                "table.maximum".into()
            } else {
                "table.shared".into()
            }
        }
        _ => "table.missing".into(),
    }
}

fn mem_attr_sig(a: Option<&MemTy>, b: Option<&MemTy>, imported: bool) -> String {
    let pre = if imported { "imported-memory" } else { "memory" };
    match (a, b) {
        (Some(p), Some(q)) => {
            if p.memory64 != q.memory64 {
                format!("{}.memory64", pre)
            } else if p.shared != q.shared {
                format!("{}.shared", pre)
            } else if p.initial != q.initial {
                format!("{}.initial", pre)
            } else if p.maximum != q.maximum {
                format!("{}.maximum", pre)
            } else {
                format!("{}.page_size", pre)
            }
        }
        _ => format!("{}.missing", pre),
    }
}
