use walrus_verif::*;

use run::*;

fn usage() -> ! {
    eprintln!("usage: walrus-verif check <ID> [--tier quick|thorough] [--replay <file>]\n       walrus-verif gen-test [n]\n       walrus-verif dump <choices-hex|replay.json> ");
    std::process::exit(2)
}

fn main() {
    let args: Vec<String> = std::env::args().collect();
    install_panic_hook();
    match args.get(1).map(|s| s.as_str()) {
        Some("check") => {
            let id = args.get(2).cloned().unwrap_or_else(|| usage());
            let mut tier = match std::env::var("VERIF_TIER").ok().as_deref() {
                Some("thorough") => Tier::Thorough,
                _ => Tier::Quick,
            };
            let mut replay = None;
            let mut i = 3;
            while i < args.len() {
                match args[i].as_str() {
                    "--tier" => {
                        tier = if args.get(i + 1).map(|s| s == "thorough").unwrap_or(false) {
                            Tier::Thorough
                        } else {
                            Tier::Quick
                        };
                        i += 1;
                    }
                    "--replay" => {
                        replay = args.get(i + 1).cloned();
                        i += 1;
                    }
                    "quick" => tier = Tier::Quick,
                    "thorough" => tier = Tier::Thorough,
                    _ => {}
                }
                i += 1;
            }
            let seed: u64 = std::env::var("VERIF_SEED")
                .ok()
                .and_then(|s| s.parse().ok())
                .unwrap_or(0);
            let def = match props::get(&id) {
                Some(d) => d,
                None => {
                    eprintln!("unknown property {}", id);
                    std::process::exit(2)
                }
            };
            let mut ctx = Ctx::new(&id, tier, seed);
            if let Some(path) = replay {
                ctx.strict = true;
                let (prop, input) = match load_replay(&path) {
                    Ok(x) => x,
                    Err(e) => {
                        eprintln!("cannot load replay {}: {}", path, e);
                        std::process::exit(2)
                    }
                };
                if prop != id {
                    eprintln!("replay file is for {}, not {}", prop, id);
                    std::process::exit(2);
                }
                match (def.check)(&ctx, &input) {
                    Ok(_) => {
                        println!("replay {}: property holds on this input", path);
                        std::process::exit(0)
                    }
                    Err(f) => {
                        println!("  failure {}: {}", f.signature, f.detail);
                        println!("VIOLATION property={} replay={}", id, path);
                        std::process::exit(1)
                    }
                }
            }
            start_watchdog(match tier {
                Tier::Quick => 1500,
                Tier::Thorough => 4 * 3600,
            });
            (def.run)(&ctx);
            let code = finish(&ctx, (def.meta)(&ctx));
            std::process::exit(code);
        }
        Some("gen-test") => {
            let n: usize = args.get(2).and_then(|s| s.parse().ok()).unwrap_or(1000);
            let t = optable::table();
            println!("simple ops discovered: {} of {}", t.len(), optable::raw_count());
            let mut bad = 0;
            let mut total_ops = 0;
            let mut sizes = 0;
            let mut rng: u64 = 12345;
            for i in 0..n {
                let len = 50 + (i % 800);
                let data: Vec<u8> = (0..len)
                    .map(|_| {
                        rng = run::mix(rng, 1);
                        (rng >> 32) as u8
                    })
                    .collect();
                let cfg = if i % 2 == 0 { gen::GenCfg::full() } else { gen::GenCfg::exec() };
                let g = gen::generate(&data, &cfg);
                let f = gen::feat_to_wasmparser(g.spec.feats);
                total_ops += g.spec.total_ops;
                sizes += g.bytes.len();
                if let Err(e) = optable::validate_with(&g.bytes, f) {
                    bad += 1;
                    if bad < 6 {
                        println!("case {} invalid under own features {:x}: {}", i, g.spec.feats, e);
                        std::fs::write(format!("/tmp/bad{}.wasm", bad), &g.bytes).unwrap();
                    }
                }
            }
            println!("generated {} modules, {} invalid, avg ops {}, avg size {}", n, bad, total_ops / n, sizes / n);
        }
        Some("parse-child") => {
            let path = args.get(2).cloned().unwrap_or_else(|| usage());
            std::process::exit(props::c05::child_main(&path));
        }
        Some("traverse-child") => {
            let kind = args.get(2).cloned().unwrap_or_else(|| usage());
            std::process::exit(props::c16::child_main(&kind));
        }
        Some("c09-server") => {
            std::process::exit(props::c09::server_main());
        }
        Some("c09-child") => {
            // c09-child <file> <threads> <mode>: one parse(+gc)+emit of the
            // parallel build in a process of its own; prints the answer line
            let path = args.get(2).cloned().unwrap_or_else(|| usage());
            let threads: usize = args.get(3).and_then(|s| s.parse().ok()).unwrap_or(1);
            let mode: u8 = args.get(4).and_then(|s| s.parse().ok()).unwrap_or(0);
            std::process::exit(props::c09::child_main(&path, threads, mode));
        }
        Some("emit-hash") => {
            let path = args.get(2).cloned().unwrap_or_else(|| usage());
            let bytes = std::fs::read(path).unwrap();
            match props::c08::emit_hash(&bytes) {
                Some(h) => println!("{}", h),
                None => println!("none"),
            }
        }
        Some("selftest-iso") => {
            // oracle adequacy: corrupt walrus's *output* by one byte inside the
            // standard sections; every mutant that still validates and decodes to
            // something different must be rejected by the bijection oracle
            let n: usize = args.get(2).and_then(|s| s.parse().ok()).unwrap_or(300);
            let mut rng: u64 = 99;
            let (mut valid_mutants, mut killed, mut equal) = (0usize, 0usize, 0usize);
            let mut survivors: Vec<String> = Vec::new();
            for i in 0..n {
                let len = 200 + (i % 600);
                let data: Vec<u8> = (0..len).map(|_| { rng = run::mix(rng, 7); (rng >> 24) as u8 }).collect();
                let g = gen::generate(&data, &props::cfg_for("full-nobig"));
                let out = match wal::roundtrip(&g.bytes, wal::Cfg::bare(), false) { Ok(Some(b)) => b, _ => continue };
                let da = match decode::decode(&g.bytes) { Ok(d) => d, Err(_) => continue };
                let secs = decode::raw_sections(&out).unwrap();
                for k in 0..40 {
                    rng = run::mix(rng, k);
                    let s = &secs[(rng as usize) % secs.len()];
                    if s.id == 0 || s.payload.is_empty() { continue; }
                    let pos = s.payload.start + ((rng >> 20) as usize % s.payload.len());
                    let mut mutant = out.clone();
                    let old = mutant[pos];
                    mutant[pos] = old ^ (1 << ((rng >> 50) % 8));
                    if optable::validate_walrus(&mutant).is_err() { continue; }
                    let db = match decode::decode(&mutant) { Ok(d) => d, Err(_) => continue };
                    valid_mutants += 1;
                    let mut iso = iso::Iso::new(&da, &db);
                    iso.tolerate = vec!["memarg-offset-truncated-to-u32".into()];
                    if iso.run_full().is_err() {
                        killed += 1;
                    } else {
                        // accepted: is the mutant really different after canonicalisation?
                        let orig = decode::decode(&out).unwrap();
                        let same = format!("{:?}", orig.funcs.iter().map(|f| iso::canonicalise(&f.ops).0.iter().map(|o| (o.name, o.imms.clone())).collect::<Vec<_>>()).collect::<Vec<_>>())
                            == format!("{:?}", db.funcs.iter().map(|f| iso::canonicalise(&f.ops).0.iter().map(|o| (o.name, o.imms.clone())).collect::<Vec<_>>()).collect::<Vec<_>>());
                        if same { equal += 1; } else if survivors.len() < 10 { survivors.push(format!("case {} section {} byte {} {:02x}->{:02x}", i, s.id, pos, old, mutant[pos])); }
                    }
                }
            }
            println!("valid mutants {} killed {} accepted-with-identical-canonical-code {} survivors {:?}", valid_mutants, killed, equal, survivors);
        }
        Some("dbg-edge") => {
            for (n, b) in props::c05::edge_encodings() {
                for stable in [false, true] {
                    let v = optable::validate_with(&b, optable::walrus_features(stable));
                    let cfg = wal::Cfg { only_stable: stable, ..wal::Cfg::plain() }.to_config();
                    let w = cfg.parse(&b).map(|_| ()).map_err(|e| format!("{:#}", e));
                    println!("{:32} stable={} reference={:?} walrus={:?}", n, stable, v.is_ok(), w.is_ok());
                    if v.is_ok() != w.is_ok() { println!("    ref: {:?}\n    wal: {:?}", v, w); }
                }
            }
        }
        Some("dump-corpus") => {
            let dir = args.get(2).cloned().unwrap_or_else(|| usage());
            for (i, (_, b)) in corpus::all().iter().enumerate() {
                let _ = std::fs::write(format!("{}/c{}.wasm", dir, i), b);
            }
        }
        Some("evidence-add") => {
            // evidence-add <ID> <key> <json>: merge a value into coverage
            let id = args.get(2).cloned().unwrap_or_else(|| usage());
            let key = args.get(3).cloned().unwrap_or_else(|| usage());
            let val: serde_json::Value = serde_json::from_str(args.get(4).map(|s| s.as_str()).unwrap_or("null")).unwrap_or(serde_json::Value::Null);
            let dir = std::env::var("VERIF_DIR").unwrap_or_else(|_| "/verif".into());
            let p = format!("{}/evidence/{}.json", dir, id);
            if let Ok(t) = std::fs::read_to_string(&p) {
                if let Ok(mut v) = serde_json::from_str::<serde_json::Value>(&t) {
                    v["coverage"][key] = val;
                    let _ = std::fs::write(&p, serde_json::to_string_pretty(&v).unwrap());
                }
            }
        }
        Some("dbg-c10") => {
            let path = args.get(2).cloned().unwrap_or_else(|| usage());
            let (_, input) = load_replay(&path).unwrap();
            props::c10::debug_dump(&input);
        }
        Some("rt") => {
            // rt <in.wasm> <out.wasm> [dwarf] [gc]
            let path = args.get(2).cloned().unwrap_or_else(|| usage());
            let outp = args.get(3).cloned().unwrap_or_else(|| usage());
            let bytes = std::fs::read(path).unwrap();
            let cfg = wal::Cfg { dwarf: args.iter().any(|a| a == "dwarf"), ..wal::Cfg::plain() };
            let r = wal::roundtrip(&bytes, cfg, args.iter().any(|a| a == "gc"));
            match r {
                Ok(Some(b)) => std::fs::write(outp, b).unwrap(),
                Ok(None) => println!("rejected"),
                Err(f) => println!("{}: {}", f.signature, f.detail),
            }
        }
        Some("dbg-names") => {
            // print the name sections of out1 = emit(parse(in)) and out2 = emit(parse(out1))
            let path = args.get(2).cloned().unwrap_or_else(|| usage());
            let synthetic = args.get(3).map(|s| s == "synthetic").unwrap_or(false);
            let bytes = if path.ends_with(".wat") { wat::parse_file(&path).unwrap() } else { std::fs::read(path).unwrap() };
            let cfg = wal::Cfg { synthetic_names: synthetic, ..wal::Cfg::plain() }.to_config();
            let mut m1 = cfg.parse(&bytes).unwrap();
            let b1 = m1.emit_wasm();
            let mut m2 = cfg.parse(&b1).unwrap();
            let b2 = m2.emit_wasm();
            for (n, b) in [("in", &bytes), ("out1", &b1), ("out2", &b2)] {
                println!("== {} ({} bytes)", n, b.len());
                for p in wasmparser::Parser::new(0).parse_all(b) {
                    if let Ok(wasmparser::Payload::CustomSection(s)) = p {
                        if s.name() == "name" {
                            let r = wasmparser::NameSectionReader::new(wasmparser::BinaryReader::new(s.data(), s.data_offset(), wasmparser::WasmFeatures::all()));
                            for sub in r {
                                match sub {
                                    Ok(wasmparser::Name::Function(m)) => println!("  funcs: {:?}", m.into_iter().map(|n| n.map(|n| (n.index, n.name.to_string())).unwrap()).collect::<Vec<_>>()),
                                    Ok(wasmparser::Name::Local(m)) => for f in m { let f = f.unwrap(); println!("  locals of {}: {:?}", f.index, f.names.into_iter().map(|n| n.map(|n| (n.index, n.name.to_string())).unwrap()).collect::<Vec<_>>()); },
                                    Ok(wasmparser::Name::Type(m)) => println!("  types: {:?}", m.into_iter().map(|n| n.map(|n| (n.index, n.name.to_string())).unwrap()).collect::<Vec<_>>()),
                                    Ok(_) => println!("  other subsection"),
                                    Err(e) => println!("  err {}", e),
                                }
                            }
                        }
                    }
                }
            }
        }
        Some("dbg-structure") => {
            // print the module-level structure of a wasm file and of gc+emit of it
            let path = args.get(2).cloned().unwrap_or_else(|| usage());
            let bytes = if path.ends_with(".wat") { wat::parse_file(&path).unwrap() } else { std::fs::read(path).unwrap() };
            let mut m = wal::Cfg::plain().to_config().parse(&bytes).unwrap();
            walrus::passes::gc::run(&mut m);
            let out = m.emit_wasm();
            println!("gc output validates: {:?}", walrus_verif::optable::validate_walrus(&out));
            {
                let (da, db) = (walrus_verif::decode::decode(&bytes).unwrap(), walrus_verif::decode::decode(&out).unwrap());
                let mut iso = walrus_verif::iso::Iso::new(&da, &db);
                let r = iso.run_gc();
                println!("iso gc: {:?}\n funcs {:?}\n globals {:?}", r.map_err(|e| e.signature), iso.funcs.fwd, iso.globals.fwd);
            }
            for (n, b) in [("in", &bytes), ("gc-out", &out)] {
                let d = walrus_verif::decode::decode(b).unwrap();
                println!("== {}", n);
                println!("imports {:?}", d.imports);
                println!("globals {:?}", d.globals);
                println!("exports {:?}", d.exports);
                println!("elems {:?}", d.elems.iter().map(|e| format!("{:?}", e)).collect::<Vec<_>>());
                for (i, f) in d.funcs.iter().enumerate() {
                    let g: Vec<String> = f.ops.iter().filter(|o| o.name.starts_with("Global")).map(|o| o.short()).collect();
                    println!("func {} globals used {:?}", i, g);
                    if f.ops.len() < 40 {
                        println!("   {:?}", f.ops.iter().map(|o| o.short()).collect::<Vec<_>>());
                    }
                }
            }
        }
        Some("dump") => {
            // write the wasm a replay file denotes to stdout path
            let path = args.get(2).cloned().unwrap_or_else(|| usage());
            let (prop, input) = load_replay(&path).unwrap();
            if prop == "C05" {
                let mut o = CaseOut::default();
                if let Some((b, _)) = props::c05::materialise(&input, &mut o) {
                    let out = args.get(3).cloned().unwrap_or_else(|| "/dev/stdout".into());
                    std::fs::write(out, &b).unwrap();
                    eprintln!("{:?}", o.labels);
                }
            } else if let Some(p) = props::prepare(&input) {
                let out = args.get(3).cloned().unwrap_or_else(|| "/dev/stdout".into());
                std::fs::write(out, &p.bytes).unwrap();
            }
        }
        _ => usage(),
    }
}
