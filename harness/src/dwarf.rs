//! DWARF synthesiser and reader (DESIGN §2.4).
//!
//! For a module whose code layout is known from the independent decode:
//! one CU, one DW_TAG_subprogram per local function, one line-table row per
//! operator with a *unique line number* (function ordinal * 100000 + operator
//! ordinal + 1), so every output row can be traced back without trusting
//! walrus. DWARF v4 line programs come from gimli::write; DWARF v5 programs
//! whose rows name file 0 (what clang emits) are hand-encoded because
//! gimli::write 0.26 cannot produce them.

use crate::ch::Ch;
use crate::decode::{decode, ModuleD};
use gimli::write as gw;
use gimli::LittleEndian;
use std::collections::BTreeMap;

#[derive(Clone, Debug)]
pub struct DwarfPlan {
    pub version: u16,
    /// low_pc at the body start (LLVM convention) or at the size LEB
    pub low_pc_at_body: bool,
    /// sequences: lists of consecutive local-function ordinals
    pub sequences: Vec<Vec<usize>>,
    /// also emit a row at the function's body start (non-instruction address)
    pub row_at_function_start: bool,
    /// the sequence's DW_LNE_set_address names the size LEB of its first
    /// function's code entry (the sequence covers exactly the entry's byte
    /// range); the first row is reached by advancing from there
    pub base_at_size_field: bool,
    /// give the compile unit DIE a low_pc/high_pc pair spanning all functions
    pub cu_range: bool,
    /// subprograms get child DIEs (parameters, a lexical block with its own
    /// range) so that the DIE tree is not flat
    pub children: bool,
}

pub const LINE_STRIDE: u64 = 100_000;

pub fn line_of(func_ordinal: usize, op_ordinal: usize) -> u64 {
    func_ordinal as u64 * LINE_STRIDE + op_ordinal as u64 + 1
}

/// line used for the optional row at a function's body start
pub fn start_line_of(func_ordinal: usize) -> u64 {
    func_ordinal as u64 * LINE_STRIDE + LINE_STRIDE - 1
}

fn leb(mut v: u64, out: &mut Vec<u8>) {
    loop {
        let b = (v & 0x7f) as u8;
        v >>= 7;
        if v == 0 {
            out.push(b);
            break;
        }
        out.push(b | 0x80);
    }
}

fn sleb(mut v: i64, out: &mut Vec<u8>) {
    loop {
        let b = (v & 0x7f) as u8;
        v >>= 7;
        let done = (v == 0 && b & 0x40 == 0) || (v == -1 && b & 0x40 != 0);
        if done {
            out.push(b);
            break;
        }
        out.push(b | 0x80);
    }
}

/// rows of one sequence: (code-relative address, line); then the end address
fn sequence_rows(m: &ModuleD, plan: &DwarfPlan, seq: &[usize]) -> (Vec<(u64, u64)>, u64) {
    let cs = m.code_section_start.unwrap_or(0) as u64;
    let mut rows = Vec::new();
    let mut end = 0;
    for &fo in seq {
        let f = &m.funcs[fo];
        if plan.row_at_function_start {
            rows.push((f.body_range.start as u64 - cs, start_line_of(fo)));
        }
        for (k, op) in f.ops.iter().enumerate() {
            rows.push((op.offset as u64 - cs, line_of(fo, k)));
        }
        end = f.entry_range.end as u64 - cs;
    }
    (rows, end)
}

fn sequence_base(m: &ModuleD, plan: &DwarfPlan, seq: &[usize], rows: &[(u64, u64)]) -> u64 {
    if plan.base_at_size_field {
        let cs = m.code_section_start.unwrap_or(0) as u64;
        m.funcs[seq[0]].entry_range.start as u64 - cs
    } else {
        rows[0].0
    }
}

fn hand_encoded_v5_line_program(m: &ModuleD, plan: &DwarfPlan) -> Vec<u8> {
    let mut prog = Vec::new();
    for seq in &plan.sequences {
        let (rows, end) = sequence_rows(m, plan, seq);
        if rows.is_empty() {
            continue;
        }
        // DW_LNE_set_address
        prog.extend_from_slice(&[0x00, 0x05, 0x02]);
        let base = sequence_base(m, plan, seq, &rows);
        prog.extend_from_slice(&(base as u32).to_le_bytes());
        // DW_LNS_set_file 0  (what clang emits for every row in DWARF 5)
        prog.extend_from_slice(&[0x04, 0x00]);
        let mut addr = base;
        let mut line: i64 = 1;
        for (a, l) in &rows {
            if *a != addr {
                prog.push(0x02); // advance_pc
                leb(*a - addr, &mut prog);
                addr = *a;
            }
            let dl = *l as i64 - line;
            if dl != 0 {
                prog.push(0x03); // advance_line
                sleb(dl, &mut prog);
                line = *l as i64;
            }
            prog.push(0x01); // copy
        }
        prog.push(0x02);
        leb(end - addr, &mut prog);
        prog.extend_from_slice(&[0x00, 0x01, 0x01]); // end_sequence
    }
    // header (after header_length)
    let mut h = Vec::new();
    h.push(1); // minimum_instruction_length
    h.push(1); // maximum_operations_per_instruction
    h.push(1); // default_is_stmt
    h.push((-5i8) as u8); // line_base
    h.push(14); // line_range
    h.push(13); // opcode_base
    h.extend_from_slice(&[0, 1, 1, 1, 1, 0, 0, 0, 1, 0, 0, 1]);
    h.push(1); // directory_entry_format_count
    h.extend_from_slice(&[0x01, 0x08]); // DW_LNCT_path, DW_FORM_string
    h.push(1); // directories_count
    h.extend_from_slice(b"/src\0");
    h.push(2); // file_name_entry_format_count
    h.extend_from_slice(&[0x01, 0x08, 0x02, 0x0f]); // path:string, directory_index:udata
    h.push(2); // file_names_count
    h.extend_from_slice(b"main.c\0");
    h.push(0);
    h.extend_from_slice(b"other.c\0");
    h.push(0);
    let mut unit = Vec::new();
    unit.extend_from_slice(&5u16.to_le_bytes());
    unit.push(4); // address_size
    unit.push(0); // segment_selector_size
    unit.extend_from_slice(&(h.len() as u32).to_le_bytes());
    unit.extend_from_slice(&h);
    unit.extend_from_slice(&prog);
    let mut out = Vec::new();
    out.extend_from_slice(&(unit.len() as u32).to_le_bytes());
    out.extend_from_slice(&unit);
    out
}

/// Build the .debug_* sections for `m` under `plan`.
pub fn synthesize(m: &ModuleD, plan: &DwarfPlan) -> Option<Vec<(String, Vec<u8>)>> {
    // a module without local functions has no code section: its DWARF is a
    // compile unit without subprograms and an empty line program
    let cs = if m.funcs.is_empty() { 0 } else { m.code_section_start? as u64 };
    let encoding = gimli::Encoding {
        format: gimli::Format::Dwarf32,
        version: plan.version,
        address_size: 4,
    };
    let mut dwarf = gw::Dwarf::new();
    let comp_dir = gw::LineString::new(&b"/src"[..], encoding, &mut dwarf.line_strings);
    let comp_file = gw::LineString::new(&b"main.c"[..], encoding, &mut dwarf.line_strings);
    let mut program = gw::LineProgram::new(encoding, gimli::LineEncoding::default(), comp_dir, comp_file, None);
    let dir = program.default_directory();
    let fname = gw::LineString::new(&b"main.c"[..], encoding, &mut dwarf.line_strings);
    let file = program.add_file(fname, dir, None);
    // the gimli-written program is used as is for v4; for v5 it is a
    // placeholder that is replaced by the hand-encoded program below
    for seq in &plan.sequences {
        let (rows, end) = sequence_rows(m, plan, seq);
        if rows.is_empty() {
            continue;
        }
        let base = sequence_base(m, plan, seq, &rows);
        program.begin_sequence(Some(gw::Address::Constant(base)));
        for (a, l) in &rows {
            program.row().address_offset = a - base;
            program.row().line = *l;
            program.row().file = file;
            program.generate_row();
        }
        program.end_sequence(end - base);
    }
    let mut unit = gw::Unit::new(encoding, program);
    let root = unit.root();
    {
        let name = dwarf.strings.add(&b"main.c"[..]);
        let r = unit.get_mut(root);
        r.set(gimli::DW_AT_name, gw::AttributeValue::StringRef(name));
        if plan.cu_range && !m.funcs.is_empty() {
            let lo = m.funcs[0].body_range.start as u64 - cs;
            let hi = m.funcs[m.funcs.len() - 1].entry_range.end as u64 - cs;
            r.set(gimli::DW_AT_low_pc, gw::AttributeValue::Address(gw::Address::Constant(lo)));
            r.set(gimli::DW_AT_high_pc, gw::AttributeValue::Udata(hi - lo));
        } else {
            r.set(gimli::DW_AT_low_pc, gw::AttributeValue::Address(gw::Address::Constant(0)));
        }
    }
    for (fo, f) in m.funcs.iter().enumerate() {
        let die = unit.add(root, gimli::DW_TAG_subprogram);
        let name = dwarf.strings.add(format!("fn{}", fo).into_bytes());
        let low = if plan.low_pc_at_body {
            f.body_range.start as u64 - cs
        } else {
            f.entry_range.start as u64 - cs
        };
        let high = f.entry_range.end as u64 - cs - low;
        let d = unit.get_mut(die);
        d.set(gimli::DW_AT_name, gw::AttributeValue::StringRef(name));
        d.set(gimli::DW_AT_low_pc, gw::AttributeValue::Address(gw::Address::Constant(low)));
        d.set(gimli::DW_AT_high_pc, gw::AttributeValue::Udata(high));
        if plan.children && fo % 2 == 0 {
            // children: a parameter, and a lexical block covering the body
            // that has a variable of its own
            let pname = dwarf.strings.add(format!("p{}", fo).into_bytes());
            let p = unit.add(die, gimli::DW_TAG_formal_parameter);
            unit.get_mut(p).set(gimli::DW_AT_name, gw::AttributeValue::StringRef(pname));
            let blk = unit.add(die, gimli::DW_TAG_lexical_block);
            let b = unit.get_mut(blk);
            b.set(gimli::DW_AT_low_pc, gw::AttributeValue::Address(gw::Address::Constant(low)));
            b.set(gimli::DW_AT_high_pc, gw::AttributeValue::Udata(high));
            let vname = dwarf.strings.add(format!("v{}", fo).into_bytes());
            let v = unit.add(blk, gimli::DW_TAG_variable);
            unit.get_mut(v).set(gimli::DW_AT_name, gw::AttributeValue::StringRef(vname));
        }
    }
    dwarf.units.add(unit);
    let mut sections = gw::Sections::new(gw::EndianVec::new(LittleEndian));
    dwarf.write(&mut sections).ok()?;
    let mut out: Vec<(String, Vec<u8>)> = Vec::new();
    sections
        .for_each(|id, data| -> Result<(), ()> {
            if !data.slice().is_empty() {
                out.push((id.name().to_string(), data.slice().to_vec()));
            }
            Ok(())
        })
        .ok()?;
    if plan.version >= 5 {
        let hand = hand_encoded_v5_line_program(m, plan);
        for s in out.iter_mut() {
            if s.0 == ".debug_line" {
                s.1 = hand.clone();
            }
        }
    }
    Some(out)
}

pub fn gen_plan(m: &ModuleD, ch: &mut Ch) -> DwarfPlan {
    let version = if ch.chance(1, 3) { 5 } else { 4 };
    let low_pc_at_body = ch.chance(2, 3);
    let row_at_function_start = ch.chance(1, 3);
    let n = m.funcs.len();
    let mut sequences = Vec::new();
    let mut i = 0;
    while i < n {
        // one sequence per function, or a run of consecutive functions
        let run = if ch.chance(1, 3) { 1 + ch.below(4) } else { 1 };
        let e = (i + run).min(n);
        sequences.push((i..e).collect());
        i = e;
    }
    let cu_range = ch.chance(1, 3);
    let children = ch.chance(1, 2);
    let base_at_size_field = ch.chance(1, 4);
    DwarfPlan {
        base_at_size_field,
        children,
        version,
        low_pc_at_body,
        sequences,
        row_at_function_start,
        cu_range,
    }
}

/// the LLVM-like subset: one sequence per function, low_pc at the body start
pub fn gen_plan_simple(m: &ModuleD, ch: &mut Ch) -> DwarfPlan {
    DwarfPlan {
        version: if ch.chance(1, 3) { 5 } else { 4 },
        low_pc_at_body: true,
        sequences: (0..m.funcs.len()).map(|i| vec![i]).collect(),
        row_at_function_start: ch.chance(1, 3),
        base_at_size_field: false,
        cu_range: ch.chance(1, 2),
        children: ch.chance(1, 2),
    }
}

pub fn attach_dwarf_simple(bytes: &[u8], ch: &mut Ch) -> Option<Vec<u8>> {
    let m = decode(bytes).ok()?;
    if m.funcs.is_empty() {
        return None;
    }
    let plan = gen_plan_simple(&m, ch);
    attach(bytes, &m, &plan)
}

/// Append synthesized DWARF sections to a module (as trailing custom sections).
pub fn attach(bytes: &[u8], m: &ModuleD, plan: &DwarfPlan) -> Option<Vec<u8>> {
    attach_with(bytes, m, plan, false, false)
}

/// The same sections in reverse order (section order carries no meaning),
/// optionally with a header-only `.debug_str_offsets` table (DWARF 5, no
/// entries; nothing refers to it) in front of `.debug_str`.
pub fn attach_with(bytes: &[u8], m: &ModuleD, plan: &DwarfPlan, reverse: bool, str_offsets: bool) -> Option<Vec<u8>> {
    let mut secs = synthesize(m, plan)?;
    if reverse {
        secs.reverse();
    }
    if str_offsets {
        let at = secs.iter().position(|s| s.0 == ".debug_str").unwrap_or(0);
        // unit_length = 4, version = 5, padding = 0
        secs.insert(at, (".debug_str_offsets".to_string(), vec![4, 0, 0, 0, 5, 0, 0, 0]));
    }
    let mut out = bytes.to_vec();
    for (name, data) in secs {
        let mut payload = Vec::new();
        leb(name.len() as u64, &mut payload);
        payload.extend_from_slice(name.as_bytes());
        payload.extend_from_slice(&data);
        out.push(0);
        leb(payload.len() as u64, &mut out);
        out.extend_from_slice(&payload);
    }
    Some(out)
}

/// DWARF (v4, no subprograms, empty line program) for a module without code
pub fn attach_dwarf_codeless(bytes: &[u8]) -> Option<Vec<u8>> {
    let m = decode(bytes).ok()?;
    if !m.funcs.is_empty() {
        return None;
    }
    let plan = DwarfPlan {
        version: 4,
        low_pc_at_body: true,
        sequences: vec![],
        row_at_function_start: false,
        base_at_size_field: false,
        cu_range: false,
        children: false,
    };
    attach(bytes, &m, &plan)
}

pub fn attach_dwarf(bytes: &[u8], ch: &mut Ch) -> Option<Vec<u8>> {
    let m = decode(bytes).ok()?;
    if m.funcs.is_empty() {
        return None;
    }
    let plan = gen_plan(&m, ch);
    attach(bytes, &m, &plan)
}

pub fn attach_dwarf_with(bytes: &[u8], ch: &mut Ch, reverse: bool, str_offsets: bool) -> Option<Vec<u8>> {
    let m = decode(bytes).ok()?;
    if m.funcs.is_empty() {
        return None;
    }
    let plan = gen_plan(&m, ch);
    attach_with(bytes, &m, &plan, reverse, str_offsets)
}

// ---------------------------------------------------------------------------
// reading back

#[derive(Clone, Debug, Default)]
pub struct ReadBack {
    /// (address, line, end_sequence) in program order, per sequence
    pub sequences: Vec<Vec<(u64, u64, bool)>>,
    /// subprogram name -> (low_pc, high_pc as length)
    pub subprograms: BTreeMap<String, (u64, u64)>,
    pub version: u16,
}

pub fn read_back(bytes: &[u8]) -> Result<ReadBack, String> {
    let mut sections: BTreeMap<String, Vec<u8>> = BTreeMap::new();
    for p in wasmparser::Parser::new(0).parse_all(bytes) {
        if let Ok(wasmparser::Payload::CustomSection(s)) = p {
            if s.name().starts_with(".debug") {
                sections.insert(s.name().to_string(), s.data().to_vec());
            }
        }
    }
    let empty: Vec<u8> = Vec::new();
    let load = |id: gimli::SectionId| -> Result<gimli::EndianSlice<LittleEndian>, gimli::Error> {
        Ok(gimli::EndianSlice::new(
            sections.get(id.name()).unwrap_or(&empty),
            LittleEndian,
        ))
    };
    let dwarf = gimli::Dwarf::load(load).map_err(|e| e.to_string())?;
    let mut out = ReadBack::default();
    let mut units = dwarf.units();
    while let Some(h) = units.next().map_err(|e| e.to_string())? {
        let unit = dwarf.unit(h).map_err(|e| e.to_string())?;
        out.version = unit.header.version();
        // DIEs
        let mut entries = unit.entries();
        while let Some((_, e)) = entries.next_dfs().map_err(|e| e.to_string())? {
            if e.tag() == gimli::DW_TAG_subprogram {
                let name = match e.attr_value(gimli::DW_AT_name).map_err(|e| e.to_string())? {
                    Some(v) => dwarf
                        .attr_string(&unit, v)
                        .map(|s| String::from_utf8_lossy(s.slice()).to_string())
                        .unwrap_or_default(),
                    None => String::new(),
                };
                let low = match e.attr_value(gimli::DW_AT_low_pc).map_err(|e| e.to_string())? {
                    Some(gimli::AttributeValue::Addr(a)) => a,
                    _ => continue,
                };
                let high = match e.attr_value(gimli::DW_AT_high_pc).map_err(|e| e.to_string())? {
                    Some(gimli::AttributeValue::Udata(a)) => a,
                    Some(gimli::AttributeValue::Addr(a)) => a.saturating_sub(low),
                    Some(other) => other.udata_value().unwrap_or(0),
                    None => 0,
                };
                out.subprograms.insert(name, (low, high));
            }
        }
        if let Some(program) = unit.line_program.clone() {
            let mut rows = program.rows();
            let mut cur = Vec::new();
            while let Some((_, row)) = rows.next_row().map_err(|e| e.to_string())? {
                let line = row.line().map(|l| l.get()).unwrap_or(0);
                cur.push((row.address(), line, row.end_sequence()));
                if row.end_sequence() {
                    out.sequences.push(std::mem::take(&mut cur));
                }
            }
            if !cur.is_empty() {
                out.sequences.push(cur);
            }
        }
    }
    Ok(out)
}
