//! Numeric, memory-access, atomic and SIMD operators of the reference
//! interpreter.

use super::{Instance, Trap, Val};
use wasmparser::{MemArg, Operator};

fn f32_of(b: u32) -> f32 {
    f32::from_bits(b)
}
fn f64_of(b: u64) -> f64 {
    f64::from_bits(b)
}

fn fmin32(a: f32, b: f32) -> f32 {
    if a.is_nan() || b.is_nan() {
        return a + b;
    }
    if a == b {
        return f32::from_bits(a.to_bits() | b.to_bits());
    }
    a.min(b)
}
fn fmax32(a: f32, b: f32) -> f32 {
    if a.is_nan() || b.is_nan() {
        return a + b;
    }
    if a == b {
        return f32::from_bits(a.to_bits() & b.to_bits());
    }
    a.max(b)
}
fn fmin64(a: f64, b: f64) -> f64 {
    if a.is_nan() || b.is_nan() {
        return a + b;
    }
    if a == b {
        return f64::from_bits(a.to_bits() | b.to_bits());
    }
    a.min(b)
}
fn fmax64(a: f64, b: f64) -> f64 {
    if a.is_nan() || b.is_nan() {
        return a + b;
    }
    if a == b {
        return f64::from_bits(a.to_bits() & b.to_bits());
    }
    a.max(b)
}

fn trunc_f64_to(v: f64, lo: f64, hi: f64) -> Result<f64, Trap> {
    if v.is_nan() {
        return Err(Trap::InvalidConversionToInteger);
    }
    let t = v.trunc();
    if t <= lo || t >= hi {
        return Err(Trap::IntegerOverflow);
    }
    Ok(t)
}

macro_rules! pop {
    ($st:expr, $v:ident) => {
        match $st.pop() {
            Some(Val::$v(x)) => x,
            other => return Err(Trap::Unsupported(format!("stack type confusion: wanted {} got {:?}", stringify!($v), other))),
        }
    };
}

macro_rules! bin {
    ($st:expr, $t:ident, $f:expr) => {{
        let b = pop!($st, $t);
        let a = pop!($st, $t);
        $st.push(Val::$t($f(a, b)));
    }};
}
macro_rules! rel {
    ($st:expr, $t:ident, $f:expr) => {{
        let b = pop!($st, $t);
        let a = pop!($st, $t);
        $st.push(Val::I32($f(a, b) as i32));
    }};
}
macro_rules! un {
    ($st:expr, $t:ident, $r:ident, $f:expr) => {{
        let a = pop!($st, $t);
        $st.push(Val::$r($f(a)));
    }};
}
macro_rules! fbin32 {
    ($st:expr, $f:expr) => {{
        let b = f32_of(pop!($st, F32));
        let a = f32_of(pop!($st, F32));
        let r: f32 = $f(a, b);
        $st.push(Val::F32(r.to_bits()));
    }};
}
macro_rules! fbin64 {
    ($st:expr, $f:expr) => {{
        let b = f64_of(pop!($st, F64));
        let a = f64_of(pop!($st, F64));
        let r: f64 = $f(a, b);
        $st.push(Val::F64(r.to_bits()));
    }};
}
macro_rules! frel32 {
    ($st:expr, $f:expr) => {{
        let b = f32_of(pop!($st, F32));
        let a = f32_of(pop!($st, F32));
        $st.push(Val::I32($f(a, b) as i32));
    }};
}
macro_rules! frel64 {
    ($st:expr, $f:expr) => {{
        let b = f64_of(pop!($st, F64));
        let a = f64_of(pop!($st, F64));
        $st.push(Val::I32($f(a, b) as i32));
    }};
}

const SUPPORTED: &[&str] = &[
    "I32Eqz", "I32Eq", "I32Ne", "I32LtS", "I32LtU", "I32GtS", "I32GtU", "I32LeS", "I32LeU", "I32GeS", "I32GeU",
    "I64Eqz", "I64Eq", "I64Ne", "I64LtS", "I64LtU", "I64GtS", "I64GtU", "I64LeS", "I64LeU", "I64GeS", "I64GeU",
    "F32Eq", "F32Ne", "F32Lt", "F32Gt", "F32Le", "F32Ge", "F64Eq", "F64Ne", "F64Lt", "F64Gt", "F64Le", "F64Ge",
    "I32Clz", "I32Ctz", "I32Popcnt", "I32Add", "I32Sub", "I32Mul", "I32DivS", "I32DivU", "I32RemS", "I32RemU",
    "I32And", "I32Or", "I32Xor", "I32Shl", "I32ShrS", "I32ShrU", "I32Rotl", "I32Rotr",
    "I64Clz", "I64Ctz", "I64Popcnt", "I64Add", "I64Sub", "I64Mul", "I64DivS", "I64DivU", "I64RemS", "I64RemU",
    "I64And", "I64Or", "I64Xor", "I64Shl", "I64ShrS", "I64ShrU", "I64Rotl", "I64Rotr",
    "F32Abs", "F32Neg", "F32Ceil", "F32Floor", "F32Trunc", "F32Nearest", "F32Sqrt", "F32Add", "F32Sub", "F32Mul",
    "F32Div", "F32Min", "F32Max", "F32Copysign",
    "F64Abs", "F64Neg", "F64Ceil", "F64Floor", "F64Trunc", "F64Nearest", "F64Sqrt", "F64Add", "F64Sub", "F64Mul",
    "F64Div", "F64Min", "F64Max", "F64Copysign",
    "I32WrapI64", "I32TruncF32S", "I32TruncF32U", "I32TruncF64S", "I32TruncF64U", "I64ExtendI32S", "I64ExtendI32U",
    "I64TruncF32S", "I64TruncF32U", "I64TruncF64S", "I64TruncF64U", "F32ConvertI32S", "F32ConvertI32U",
    "F32ConvertI64S", "F32ConvertI64U", "F32DemoteF64", "F64ConvertI32S", "F64ConvertI32U", "F64ConvertI64S",
    "F64ConvertI64U", "F64PromoteF32", "I32ReinterpretF32", "I64ReinterpretF64", "F32ReinterpretI32",
    "F64ReinterpretI64",
    "I32Extend8S", "I32Extend16S", "I64Extend8S", "I64Extend16S", "I64Extend32S",
    "I32TruncSatF32S", "I32TruncSatF32U", "I32TruncSatF64S", "I32TruncSatF64U", "I64TruncSatF32S", "I64TruncSatF32U",
    "I64TruncSatF64S", "I64TruncSatF64U",
    "I32Load", "I64Load", "F32Load", "F64Load", "I32Load8S", "I32Load8U", "I32Load16S", "I32Load16U", "I64Load8S",
    "I64Load8U", "I64Load16S", "I64Load16U", "I64Load32S", "I64Load32U", "I32Store", "I64Store", "F32Store",
    "F64Store", "I32Store8", "I32Store16", "I64Store8", "I64Store16", "I64Store32",
    "I32AtomicLoad", "I64AtomicLoad", "I32AtomicLoad8U", "I32AtomicLoad16U", "I64AtomicLoad8U", "I64AtomicLoad16U",
    "I64AtomicLoad32U", "I32AtomicStore", "I64AtomicStore", "I32AtomicStore8", "I32AtomicStore16", "I64AtomicStore8",
    "I64AtomicStore16", "I64AtomicStore32",
    "I32AtomicRmwAdd", "I64AtomicRmwAdd", "I32AtomicRmw8AddU", "I32AtomicRmw16AddU", "I64AtomicRmw8AddU",
    "I64AtomicRmw16AddU", "I64AtomicRmw32AddU",
    "I32AtomicRmwSub", "I64AtomicRmwSub", "I32AtomicRmw8SubU", "I32AtomicRmw16SubU", "I64AtomicRmw8SubU",
    "I64AtomicRmw16SubU", "I64AtomicRmw32SubU",
    "I32AtomicRmwAnd", "I64AtomicRmwAnd", "I32AtomicRmw8AndU", "I32AtomicRmw16AndU", "I64AtomicRmw8AndU",
    "I64AtomicRmw16AndU", "I64AtomicRmw32AndU",
    "I32AtomicRmwOr", "I64AtomicRmwOr", "I32AtomicRmw8OrU", "I32AtomicRmw16OrU", "I64AtomicRmw8OrU",
    "I64AtomicRmw16OrU", "I64AtomicRmw32OrU",
    "I32AtomicRmwXor", "I64AtomicRmwXor", "I32AtomicRmw8XorU", "I32AtomicRmw16XorU", "I64AtomicRmw8XorU",
    "I64AtomicRmw16XorU", "I64AtomicRmw32XorU",
    "I32AtomicRmwXchg", "I64AtomicRmwXchg", "I32AtomicRmw8XchgU", "I32AtomicRmw16XchgU", "I64AtomicRmw8XchgU",
    "I64AtomicRmw16XchgU", "I64AtomicRmw32XchgU",
    "I32AtomicRmwCmpxchg", "I64AtomicRmwCmpxchg", "I32AtomicRmw8CmpxchgU", "I32AtomicRmw16CmpxchgU",
    "I64AtomicRmw8CmpxchgU", "I64AtomicRmw16CmpxchgU", "I64AtomicRmw32CmpxchgU",
    "MemoryAtomicNotify", "MemoryAtomicWait32", "MemoryAtomicWait64",
    // SIMD subset: everything whose immediates carry meaning, plus lane-wise integer basics
    "V128Load", "V128Store", "V128Load8Splat", "V128Load16Splat", "V128Load32Splat", "V128Load64Splat",
    "V128Load32Zero", "V128Load64Zero", "V128Load8Lane", "V128Load16Lane", "V128Load32Lane", "V128Load64Lane",
    "V128Store8Lane", "V128Store16Lane", "V128Store32Lane", "V128Store64Lane",
    "V128Load8x8S", "V128Load8x8U", "V128Load16x4S", "V128Load16x4U", "V128Load32x2S", "V128Load32x2U",
    "I8x16Swizzle", "I8x16Splat", "I16x8Splat", "I32x4Splat", "I64x2Splat", "F32x4Splat", "F64x2Splat",
    "I8x16ExtractLaneS", "I8x16ExtractLaneU", "I8x16ReplaceLane", "I16x8ExtractLaneS", "I16x8ExtractLaneU",
    "I16x8ReplaceLane", "I32x4ExtractLane", "I32x4ReplaceLane", "I64x2ExtractLane", "I64x2ReplaceLane",
    "F32x4ExtractLane", "F32x4ReplaceLane", "F64x2ExtractLane", "F64x2ReplaceLane",
    "V128Not", "V128And", "V128AndNot", "V128Or", "V128Xor", "V128Bitselect", "V128AnyTrue",
    "I8x16Add", "I8x16Sub", "I16x8Add", "I16x8Sub", "I16x8Mul", "I32x4Add", "I32x4Sub", "I32x4Mul", "I64x2Add",
    "I64x2Sub", "I64x2Mul", "I8x16Eq", "I8x16Ne", "I16x8Eq", "I16x8Ne", "I32x4Eq", "I32x4Ne", "I64x2Eq", "I64x2Ne",
    "I8x16AllTrue", "I16x8AllTrue", "I32x4AllTrue", "I64x2AllTrue", "I8x16Bitmask", "I16x8Bitmask", "I32x4Bitmask",
    "I64x2Bitmask", "I8x16Neg", "I16x8Neg", "I32x4Neg", "I64x2Neg",
];

pub fn supports(name: &str) -> bool {
    SUPPORTED.contains(&name)
}

fn lanes8(v: u128) -> [u8; 16] {
    v.to_le_bytes()
}
fn from8(b: [u8; 16]) -> u128 {
    u128::from_le_bytes(b)
}
fn lanes16(v: u128) -> [u16; 8] {
    let b = v.to_le_bytes();
    let mut o = [0u16; 8];
    for i in 0..8 {
        o[i] = u16::from_le_bytes([b[2 * i], b[2 * i + 1]]);
    }
    o
}
fn from16(l: [u16; 8]) -> u128 {
    let mut b = [0u8; 16];
    for i in 0..8 {
        b[2 * i..2 * i + 2].copy_from_slice(&l[i].to_le_bytes());
    }
    u128::from_le_bytes(b)
}
fn lanes32(v: u128) -> [u32; 4] {
    let b = v.to_le_bytes();
    let mut o = [0u32; 4];
    for i in 0..4 {
        o[i] = u32::from_le_bytes([b[4 * i], b[4 * i + 1], b[4 * i + 2], b[4 * i + 3]]);
    }
    o
}
fn from32(l: [u32; 4]) -> u128 {
    let mut b = [0u8; 16];
    for i in 0..4 {
        b[4 * i..4 * i + 4].copy_from_slice(&l[i].to_le_bytes());
    }
    u128::from_le_bytes(b)
}
fn lanes64(v: u128) -> [u64; 2] {
    [v as u64, (v >> 64) as u64]
}
fn from64(l: [u64; 2]) -> u128 {
    (l[0] as u128) | ((l[1] as u128) << 64)
}

impl<'a> Instance<'a> {
    fn ld<const N: usize>(&self, st: &mut Vec<Val>, m: &MemArg) -> Result<[u8; N], Trap> {
        self.load_bytes::<N>(m.memory, st, m)
    }

    fn rmw(&mut self, st: &mut Vec<Val>, m: &MemArg, size: usize, is64: bool, f: fn(u64, u64) -> u64) -> Result<(), Trap> {
        let operand = if is64 { pop!(st, I64) as u64 } else { pop!(st, I32) as u32 as u64 };
        let ea = self.atomic_ea(st, m, size)?;
        let mem = &mut self.mems[m.memory as usize].data;
        let mut buf = [0u8; 8];
        buf[..size].copy_from_slice(&mem[ea..ea + size]);
        let old = u64::from_le_bytes(buf);
        let mask = if size == 8 { u64::MAX } else { (1u64 << (size * 8)) - 1 };
        let new = f(old, operand & mask) & mask;
        mem[ea..ea + size].copy_from_slice(&new.to_le_bytes()[..size]);
        if is64 {
            st.push(Val::I64(old as i64));
        } else {
            st.push(Val::I32(old as u32 as i32));
        }
        Ok(())
    }

    fn cmpxchg(&mut self, st: &mut Vec<Val>, m: &MemArg, size: usize, is64: bool) -> Result<(), Trap> {
        let repl = if is64 { pop!(st, I64) as u64 } else { pop!(st, I32) as u32 as u64 };
        let exp = if is64 { pop!(st, I64) as u64 } else { pop!(st, I32) as u32 as u64 };
        let ea = self.atomic_ea(st, m, size)?;
        let mem = &mut self.mems[m.memory as usize].data;
        let mut buf = [0u8; 8];
        buf[..size].copy_from_slice(&mem[ea..ea + size]);
        let old = u64::from_le_bytes(buf);
        let mask = if size == 8 { u64::MAX } else { (1u64 << (size * 8)) - 1 };
        if old == (exp & mask) {
            mem[ea..ea + size].copy_from_slice(&(repl & mask).to_le_bytes()[..size]);
        }
        if is64 {
            st.push(Val::I64(old as i64));
        } else {
            st.push(Val::I32(old as u32 as i32));
        }
        Ok(())
    }

    fn atomic_load(&mut self, st: &mut Vec<Val>, m: &MemArg, size: usize, is64: bool) -> Result<(), Trap> {
        let ea = self.atomic_ea(st, m, size)?;
        let mem = &self.mems[m.memory as usize].data;
        let mut buf = [0u8; 8];
        buf[..size].copy_from_slice(&mem[ea..ea + size]);
        let v = u64::from_le_bytes(buf);
        if is64 {
            st.push(Val::I64(v as i64));
        } else {
            st.push(Val::I32(v as u32 as i32));
        }
        Ok(())
    }

    fn atomic_store(&mut self, st: &mut Vec<Val>, m: &MemArg, size: usize, is64: bool) -> Result<(), Trap> {
        let v = if is64 { pop!(st, I64) as u64 } else { pop!(st, I32) as u32 as u64 };
        let ea = self.atomic_ea(st, m, size)?;
        self.mems[m.memory as usize].data[ea..ea + size].copy_from_slice(&v.to_le_bytes()[..size]);
        Ok(())
    }

    pub(super) fn exec_numeric(&mut self, op: &Operator<'a>, st: &mut Vec<Val>) -> Result<(), Trap> {
        use Operator::*;
        match op {
            I32Eqz => un!(st, I32, I32, |a: i32| (a == 0) as i32),
            I32Eq => rel!(st, I32, |a: i32, b: i32| a == b),
            I32Ne => rel!(st, I32, |a: i32, b: i32| a != b),
            I32LtS => rel!(st, I32, |a: i32, b: i32| a < b),
            I32LtU => rel!(st, I32, |a: i32, b: i32| (a as u32) < (b as u32)),
            I32GtS => rel!(st, I32, |a: i32, b: i32| a > b),
            I32GtU => rel!(st, I32, |a: i32, b: i32| (a as u32) > (b as u32)),
            I32LeS => rel!(st, I32, |a: i32, b: i32| a <= b),
            I32LeU => rel!(st, I32, |a: i32, b: i32| (a as u32) <= (b as u32)),
            I32GeS => rel!(st, I32, |a: i32, b: i32| a >= b),
            I32GeU => rel!(st, I32, |a: i32, b: i32| (a as u32) >= (b as u32)),
            I64Eqz => un!(st, I64, I32, |a: i64| (a == 0) as i32),
            I64Eq => rel!(st, I64, |a: i64, b: i64| a == b),
            I64Ne => rel!(st, I64, |a: i64, b: i64| a != b),
            I64LtS => rel!(st, I64, |a: i64, b: i64| a < b),
            I64LtU => rel!(st, I64, |a: i64, b: i64| (a as u64) < (b as u64)),
            I64GtS => rel!(st, I64, |a: i64, b: i64| a > b),
            I64GtU => rel!(st, I64, |a: i64, b: i64| (a as u64) > (b as u64)),
            I64LeS => rel!(st, I64, |a: i64, b: i64| a <= b),
            I64LeU => rel!(st, I64, |a: i64, b: i64| (a as u64) <= (b as u64)),
            I64GeS => rel!(st, I64, |a: i64, b: i64| a >= b),
            I64GeU => rel!(st, I64, |a: i64, b: i64| (a as u64) >= (b as u64)),
            F32Eq => frel32!(st, |a: f32, b: f32| a == b),
            F32Ne => frel32!(st, |a: f32, b: f32| a != b),
            F32Lt => frel32!(st, |a: f32, b: f32| a < b),
            F32Gt => frel32!(st, |a: f32, b: f32| a > b),
            F32Le => frel32!(st, |a: f32, b: f32| a <= b),
            F32Ge => frel32!(st, |a: f32, b: f32| a >= b),
            F64Eq => frel64!(st, |a: f64, b: f64| a == b),
            F64Ne => frel64!(st, |a: f64, b: f64| a != b),
            F64Lt => frel64!(st, |a: f64, b: f64| a < b),
            F64Gt => frel64!(st, |a: f64, b: f64| a > b),
            F64Le => frel64!(st, |a: f64, b: f64| a <= b),
            F64Ge => frel64!(st, |a: f64, b: f64| a >= b),
            I32Clz => un!(st, I32, I32, |a: i32| a.leading_zeros() as i32),
            I32Ctz => un!(st, I32, I32, |a: i32| a.trailing_zeros() as i32),
            I32Popcnt => un!(st, I32, I32, |a: i32| a.count_ones() as i32),
            I32Add => bin!(st, I32, |a: i32, b: i32| a.wrapping_add(b)),
            I32Sub => bin!(st, I32, |a: i32, b: i32| a.wrapping_sub(b)),
            I32Mul => bin!(st, I32, |a: i32, b: i32| a.wrapping_mul(b)),
            I32DivS => {
                let b = pop!(st, I32);
                let a = pop!(st, I32);
                if b == 0 {
                    return Err(Trap::IntegerDivideByZero);
                }
                if a == i32::MIN && b == -1 {
                    return Err(Trap::IntegerOverflow);
                }
                st.push(Val::I32(a.wrapping_div(b)));
            }
            I32DivU => {
                let b = pop!(st, I32) as u32;
                let a = pop!(st, I32) as u32;
                if b == 0 {
                    return Err(Trap::IntegerDivideByZero);
                }
                st.push(Val::I32((a / b) as i32));
            }
            I32RemS => {
                let b = pop!(st, I32);
                let a = pop!(st, I32);
                if b == 0 {
                    return Err(Trap::IntegerDivideByZero);
                }
                st.push(Val::I32(a.wrapping_rem(b)));
            }
            I32RemU => {
                let b = pop!(st, I32) as u32;
                let a = pop!(st, I32) as u32;
                if b == 0 {
                    return Err(Trap::IntegerDivideByZero);
                }
                st.push(Val::I32((a % b) as i32));
            }
            I32And => bin!(st, I32, |a: i32, b: i32| a & b),
            I32Or => bin!(st, I32, |a: i32, b: i32| a | b),
            I32Xor => bin!(st, I32, |a: i32, b: i32| a ^ b),
            I32Shl => bin!(st, I32, |a: i32, b: i32| a.wrapping_shl(b as u32)),
            I32ShrS => bin!(st, I32, |a: i32, b: i32| a.wrapping_shr(b as u32)),
            I32ShrU => bin!(st, I32, |a: i32, b: i32| ((a as u32).wrapping_shr(b as u32)) as i32),
            I32Rotl => bin!(st, I32, |a: i32, b: i32| a.rotate_left(b as u32 & 31)),
            I32Rotr => bin!(st, I32, |a: i32, b: i32| a.rotate_right(b as u32 & 31)),
            I64Clz => un!(st, I64, I64, |a: i64| a.leading_zeros() as i64),
            I64Ctz => un!(st, I64, I64, |a: i64| a.trailing_zeros() as i64),
            I64Popcnt => un!(st, I64, I64, |a: i64| a.count_ones() as i64),
            I64Add => bin!(st, I64, |a: i64, b: i64| a.wrapping_add(b)),
            I64Sub => bin!(st, I64, |a: i64, b: i64| a.wrapping_sub(b)),
            I64Mul => bin!(st, I64, |a: i64, b: i64| a.wrapping_mul(b)),
            I64DivS => {
                let b = pop!(st, I64);
                let a = pop!(st, I64);
                if b == 0 {
                    return Err(Trap::IntegerDivideByZero);
                }
                if a == i64::MIN && b == -1 {
                    return Err(Trap::IntegerOverflow);
                }
                st.push(Val::I64(a.wrapping_div(b)));
            }
            I64DivU => {
                let b = pop!(st, I64) as u64;
                let a = pop!(st, I64) as u64;
                if b == 0 {
                    return Err(Trap::IntegerDivideByZero);
                }
                st.push(Val::I64((a / b) as i64));
            }
            I64RemS => {
                let b = pop!(st, I64);
                let a = pop!(st, I64);
                if b == 0 {
                    return Err(Trap::IntegerDivideByZero);
                }
                st.push(Val::I64(a.wrapping_rem(b)));
            }
            I64RemU => {
                let b = pop!(st, I64) as u64;
                let a = pop!(st, I64) as u64;
                if b == 0 {
                    return Err(Trap::IntegerDivideByZero);
                }
                st.push(Val::I64((a % b) as i64));
            }
            I64And => bin!(st, I64, |a: i64, b: i64| a & b),
            I64Or => bin!(st, I64, |a: i64, b: i64| a | b),
            I64Xor => bin!(st, I64, |a: i64, b: i64| a ^ b),
            I64Shl => bin!(st, I64, |a: i64, b: i64| a.wrapping_shl(b as u32)),
            I64ShrS => bin!(st, I64, |a: i64, b: i64| a.wrapping_shr(b as u32)),
            I64ShrU => bin!(st, I64, |a: i64, b: i64| ((a as u64).wrapping_shr(b as u32)) as i64),
            I64Rotl => bin!(st, I64, |a: i64, b: i64| a.rotate_left(b as u32 & 63)),
            I64Rotr => bin!(st, I64, |a: i64, b: i64| a.rotate_right(b as u32 & 63)),
            F32Abs => un!(st, F32, F32, |a: u32| a & 0x7fff_ffff),
            F32Neg => un!(st, F32, F32, |a: u32| a ^ 0x8000_0000),
            F32Ceil => un!(st, F32, F32, |a: u32| f32_of(a).ceil().to_bits()),
            F32Floor => un!(st, F32, F32, |a: u32| f32_of(a).floor().to_bits()),
            F32Trunc => un!(st, F32, F32, |a: u32| f32_of(a).trunc().to_bits()),
            F32Nearest => un!(st, F32, F32, |a: u32| f32_of(a).round_ties_even().to_bits()),
            F32Sqrt => un!(st, F32, F32, |a: u32| f32_of(a).sqrt().to_bits()),
            F32Add => fbin32!(st, |a: f32, b: f32| a + b),
            F32Sub => fbin32!(st, |a: f32, b: f32| a - b),
            F32Mul => fbin32!(st, |a: f32, b: f32| a * b),
            F32Div => fbin32!(st, |a: f32, b: f32| a / b),
            F32Min => fbin32!(st, fmin32),
            F32Max => fbin32!(st, fmax32),
            F32Copysign => bin!(st, F32, |a: u32, b: u32| (a & 0x7fff_ffff) | (b & 0x8000_0000)),
            F64Abs => un!(st, F64, F64, |a: u64| a & 0x7fff_ffff_ffff_ffff),
            F64Neg => un!(st, F64, F64, |a: u64| a ^ 0x8000_0000_0000_0000),
            F64Ceil => un!(st, F64, F64, |a: u64| f64_of(a).ceil().to_bits()),
            F64Floor => un!(st, F64, F64, |a: u64| f64_of(a).floor().to_bits()),
            F64Trunc => un!(st, F64, F64, |a: u64| f64_of(a).trunc().to_bits()),
            F64Nearest => un!(st, F64, F64, |a: u64| f64_of(a).round_ties_even().to_bits()),
            F64Sqrt => un!(st, F64, F64, |a: u64| f64_of(a).sqrt().to_bits()),
            F64Add => fbin64!(st, |a: f64, b: f64| a + b),
            F64Sub => fbin64!(st, |a: f64, b: f64| a - b),
            F64Mul => fbin64!(st, |a: f64, b: f64| a * b),
            F64Div => fbin64!(st, |a: f64, b: f64| a / b),
            F64Min => fbin64!(st, fmin64),
            F64Max => fbin64!(st, fmax64),
            F64Copysign => bin!(st, F64, |a: u64, b: u64| (a & 0x7fff_ffff_ffff_ffff) | (b & 0x8000_0000_0000_0000)),
            I32WrapI64 => un!(st, I64, I32, |a: i64| a as i32),
            I32TruncF32S => {
                let v = f32_of(pop!(st, F32)) as f64;
                st.push(Val::I32(trunc_f64_to(v, -2147483649.0, 2147483648.0)? as i32));
            }
            I32TruncF32U => {
                let v = f32_of(pop!(st, F32)) as f64;
                st.push(Val::I32(trunc_f64_to(v, -1.0, 4294967296.0)? as u32 as i32));
            }
            I32TruncF64S => {
                let v = f64_of(pop!(st, F64));
                st.push(Val::I32(trunc_f64_to(v, -2147483649.0, 2147483648.0)? as i32));
            }
            I32TruncF64U => {
                let v = f64_of(pop!(st, F64));
                st.push(Val::I32(trunc_f64_to(v, -1.0, 4294967296.0)? as u32 as i32));
            }
            I64ExtendI32S => un!(st, I32, I64, |a: i32| a as i64),
            I64ExtendI32U => un!(st, I32, I64, |a: i32| a as u32 as i64),
            I64TruncF32S | I64TruncF64S => {
                let v = if matches!(op, I64TruncF32S) { f32_of(pop!(st, F32)) as f64 } else { f64_of(pop!(st, F64)) };
                if v.is_nan() {
                    return Err(Trap::InvalidConversionToInteger);
                }
                let t = v.trunc();
                if t < -9223372036854775808.0 || t >= 9223372036854775808.0 {
                    return Err(Trap::IntegerOverflow);
                }
                st.push(Val::I64(t as i64));
            }
            I64TruncF32U | I64TruncF64U => {
                let v = if matches!(op, I64TruncF32U) { f32_of(pop!(st, F32)) as f64 } else { f64_of(pop!(st, F64)) };
                if v.is_nan() {
                    return Err(Trap::InvalidConversionToInteger);
                }
                let t = v.trunc();
                if t <= -1.0 || t >= 18446744073709551616.0 {
                    return Err(Trap::IntegerOverflow);
                }
                st.push(Val::I64(t as u64 as i64));
            }
            F32ConvertI32S => un!(st, I32, F32, |a: i32| (a as f32).to_bits()),
            F32ConvertI32U => un!(st, I32, F32, |a: i32| (a as u32 as f32).to_bits()),
            F32ConvertI64S => un!(st, I64, F32, |a: i64| (a as f32).to_bits()),
            F32ConvertI64U => un!(st, I64, F32, |a: i64| (a as u64 as f32).to_bits()),
            F32DemoteF64 => un!(st, F64, F32, |a: u64| (f64_of(a) as f32).to_bits()),
            F64ConvertI32S => un!(st, I32, F64, |a: i32| (a as f64).to_bits()),
            F64ConvertI32U => un!(st, I32, F64, |a: i32| (a as u32 as f64).to_bits()),
            F64ConvertI64S => un!(st, I64, F64, |a: i64| (a as f64).to_bits()),
            F64ConvertI64U => un!(st, I64, F64, |a: i64| (a as u64 as f64).to_bits()),
            F64PromoteF32 => un!(st, F32, F64, |a: u32| (f32_of(a) as f64).to_bits()),
            I32ReinterpretF32 => un!(st, F32, I32, |a: u32| a as i32),
            I64ReinterpretF64 => un!(st, F64, I64, |a: u64| a as i64),
            F32ReinterpretI32 => un!(st, I32, F32, |a: i32| a as u32),
            F64ReinterpretI64 => un!(st, I64, F64, |a: i64| a as u64),
            I32Extend8S => un!(st, I32, I32, |a: i32| a as i8 as i32),
            I32Extend16S => un!(st, I32, I32, |a: i32| a as i16 as i32),
            I64Extend8S => un!(st, I64, I64, |a: i64| a as i8 as i64),
            I64Extend16S => un!(st, I64, I64, |a: i64| a as i16 as i64),
            I64Extend32S => un!(st, I64, I64, |a: i64| a as i32 as i64),
            // Rust's float->int `as` casts saturate and map NaN to 0: exactly trunc_sat
            I32TruncSatF32S => un!(st, F32, I32, |a: u32| f32_of(a) as i32),
            I32TruncSatF32U => un!(st, F32, I32, |a: u32| f32_of(a) as u32 as i32),
            I32TruncSatF64S => un!(st, F64, I32, |a: u64| f64_of(a) as i32),
            I32TruncSatF64U => un!(st, F64, I32, |a: u64| f64_of(a) as u32 as i32),
            I64TruncSatF32S => un!(st, F32, I64, |a: u32| f32_of(a) as i64),
            I64TruncSatF32U => un!(st, F32, I64, |a: u32| f32_of(a) as u64 as i64),
            I64TruncSatF64S => un!(st, F64, I64, |a: u64| f64_of(a) as i64),
            I64TruncSatF64U => un!(st, F64, I64, |a: u64| f64_of(a) as u64 as i64),
            // ---- loads / stores ----
            I32Load { memarg } => {
                let b = self.ld::<4>(st, memarg)?;
                st.push(Val::I32(i32::from_le_bytes(b)));
            }
            I64Load { memarg } => {
                let b = self.ld::<8>(st, memarg)?;
                st.push(Val::I64(i64::from_le_bytes(b)));
            }
            F32Load { memarg } => {
                let b = self.ld::<4>(st, memarg)?;
                st.push(Val::F32(u32::from_le_bytes(b)));
            }
            F64Load { memarg } => {
                let b = self.ld::<8>(st, memarg)?;
                st.push(Val::F64(u64::from_le_bytes(b)));
            }
            I32Load8S { memarg } => {
                let b = self.ld::<1>(st, memarg)?;
                st.push(Val::I32(b[0] as i8 as i32));
            }
            I32Load8U { memarg } => {
                let b = self.ld::<1>(st, memarg)?;
                st.push(Val::I32(b[0] as i32));
            }
            I32Load16S { memarg } => {
                let b = self.ld::<2>(st, memarg)?;
                st.push(Val::I32(i16::from_le_bytes(b) as i32));
            }
            I32Load16U { memarg } => {
                let b = self.ld::<2>(st, memarg)?;
                st.push(Val::I32(u16::from_le_bytes(b) as i32));
            }
            I64Load8S { memarg } => {
                let b = self.ld::<1>(st, memarg)?;
                st.push(Val::I64(b[0] as i8 as i64));
            }
            I64Load8U { memarg } => {
                let b = self.ld::<1>(st, memarg)?;
                st.push(Val::I64(b[0] as i64));
            }
            I64Load16S { memarg } => {
                let b = self.ld::<2>(st, memarg)?;
                st.push(Val::I64(i16::from_le_bytes(b) as i64));
            }
            I64Load16U { memarg } => {
                let b = self.ld::<2>(st, memarg)?;
                st.push(Val::I64(u16::from_le_bytes(b) as i64));
            }
            I64Load32S { memarg } => {
                let b = self.ld::<4>(st, memarg)?;
                st.push(Val::I64(i32::from_le_bytes(b) as i64));
            }
            I64Load32U { memarg } => {
                let b = self.ld::<4>(st, memarg)?;
                st.push(Val::I64(u32::from_le_bytes(b) as i64));
            }
            I32Store { memarg } => {
                let v = pop!(st, I32);
                self.store_bytes(st, memarg, &v.to_le_bytes())?;
            }
            I64Store { memarg } => {
                let v = pop!(st, I64);
                self.store_bytes(st, memarg, &v.to_le_bytes())?;
            }
            F32Store { memarg } => {
                let v = pop!(st, F32);
                self.store_bytes(st, memarg, &v.to_le_bytes())?;
            }
            F64Store { memarg } => {
                let v = pop!(st, F64);
                self.store_bytes(st, memarg, &v.to_le_bytes())?;
            }
            I32Store8 { memarg } => {
                let v = pop!(st, I32);
                self.store_bytes(st, memarg, &v.to_le_bytes()[..1])?;
            }
            I32Store16 { memarg } => {
                let v = pop!(st, I32);
                self.store_bytes(st, memarg, &v.to_le_bytes()[..2])?;
            }
            I64Store8 { memarg } => {
                let v = pop!(st, I64);
                self.store_bytes(st, memarg, &v.to_le_bytes()[..1])?;
            }
            I64Store16 { memarg } => {
                let v = pop!(st, I64);
                self.store_bytes(st, memarg, &v.to_le_bytes()[..2])?;
            }
            I64Store32 { memarg } => {
                let v = pop!(st, I64);
                self.store_bytes(st, memarg, &v.to_le_bytes()[..4])?;
            }
            // ---- atomics (single-threaded semantics) ----
            I32AtomicLoad { memarg } => self.atomic_load(st, memarg, 4, false)?,
            I64AtomicLoad { memarg } => self.atomic_load(st, memarg, 8, true)?,
            I32AtomicLoad8U { memarg } => self.atomic_load(st, memarg, 1, false)?,
            I32AtomicLoad16U { memarg } => self.atomic_load(st, memarg, 2, false)?,
            I64AtomicLoad8U { memarg } => self.atomic_load(st, memarg, 1, true)?,
            I64AtomicLoad16U { memarg } => self.atomic_load(st, memarg, 2, true)?,
            I64AtomicLoad32U { memarg } => self.atomic_load(st, memarg, 4, true)?,
            I32AtomicStore { memarg } => self.atomic_store(st, memarg, 4, false)?,
            I64AtomicStore { memarg } => self.atomic_store(st, memarg, 8, true)?,
            I32AtomicStore8 { memarg } => self.atomic_store(st, memarg, 1, false)?,
            I32AtomicStore16 { memarg } => self.atomic_store(st, memarg, 2, false)?,
            I64AtomicStore8 { memarg } => self.atomic_store(st, memarg, 1, true)?,
            I64AtomicStore16 { memarg } => self.atomic_store(st, memarg, 2, true)?,
            I64AtomicStore32 { memarg } => self.atomic_store(st, memarg, 4, true)?,
            I32AtomicRmwAdd { memarg } => self.rmw(st, memarg, 4, false, |a, b| a.wrapping_add(b))?,
            I64AtomicRmwAdd { memarg } => self.rmw(st, memarg, 8, true, |a, b| a.wrapping_add(b))?,
            I32AtomicRmw8AddU { memarg } => self.rmw(st, memarg, 1, false, |a, b| a.wrapping_add(b))?,
            I32AtomicRmw16AddU { memarg } => self.rmw(st, memarg, 2, false, |a, b| a.wrapping_add(b))?,
            I64AtomicRmw8AddU { memarg } => self.rmw(st, memarg, 1, true, |a, b| a.wrapping_add(b))?,
            I64AtomicRmw16AddU { memarg } => self.rmw(st, memarg, 2, true, |a, b| a.wrapping_add(b))?,
            I64AtomicRmw32AddU { memarg } => self.rmw(st, memarg, 4, true, |a, b| a.wrapping_add(b))?,
            I32AtomicRmwSub { memarg } => self.rmw(st, memarg, 4, false, |a, b| a.wrapping_sub(b))?,
            I64AtomicRmwSub { memarg } => self.rmw(st, memarg, 8, true, |a, b| a.wrapping_sub(b))?,
            I32AtomicRmw8SubU { memarg } => self.rmw(st, memarg, 1, false, |a, b| a.wrapping_sub(b))?,
            I32AtomicRmw16SubU { memarg } => self.rmw(st, memarg, 2, false, |a, b| a.wrapping_sub(b))?,
            I64AtomicRmw8SubU { memarg } => self.rmw(st, memarg, 1, true, |a, b| a.wrapping_sub(b))?,
            I64AtomicRmw16SubU { memarg } => self.rmw(st, memarg, 2, true, |a, b| a.wrapping_sub(b))?,
            I64AtomicRmw32SubU { memarg } => self.rmw(st, memarg, 4, true, |a, b| a.wrapping_sub(b))?,
            I32AtomicRmwAnd { memarg } => self.rmw(st, memarg, 4, false, |a, b| a & b)?,
            I64AtomicRmwAnd { memarg } => self.rmw(st, memarg, 8, true, |a, b| a & b)?,
            I32AtomicRmw8AndU { memarg } => self.rmw(st, memarg, 1, false, |a, b| a & b)?,
            I32AtomicRmw16AndU { memarg } => self.rmw(st, memarg, 2, false, |a, b| a & b)?,
            I64AtomicRmw8AndU { memarg } => self.rmw(st, memarg, 1, true, |a, b| a & b)?,
            I64AtomicRmw16AndU { memarg } => self.rmw(st, memarg, 2, true, |a, b| a & b)?,
            I64AtomicRmw32AndU { memarg } => self.rmw(st, memarg, 4, true, |a, b| a & b)?,
            I32AtomicRmwOr { memarg } => self.rmw(st, memarg, 4, false, |a, b| a | b)?,
            I64AtomicRmwOr { memarg } => self.rmw(st, memarg, 8, true, |a, b| a | b)?,
            I32AtomicRmw8OrU { memarg } => self.rmw(st, memarg, 1, false, |a, b| a | b)?,
            I32AtomicRmw16OrU { memarg } => self.rmw(st, memarg, 2, false, |a, b| a | b)?,
            I64AtomicRmw8OrU { memarg } => self.rmw(st, memarg, 1, true, |a, b| a | b)?,
            I64AtomicRmw16OrU { memarg } => self.rmw(st, memarg, 2, true, |a, b| a | b)?,
            I64AtomicRmw32OrU { memarg } => self.rmw(st, memarg, 4, true, |a, b| a | b)?,
            I32AtomicRmwXor { memarg } => self.rmw(st, memarg, 4, false, |a, b| a ^ b)?,
            I64AtomicRmwXor { memarg } => self.rmw(st, memarg, 8, true, |a, b| a ^ b)?,
            I32AtomicRmw8XorU { memarg } => self.rmw(st, memarg, 1, false, |a, b| a ^ b)?,
            I32AtomicRmw16XorU { memarg } => self.rmw(st, memarg, 2, false, |a, b| a ^ b)?,
            I64AtomicRmw8XorU { memarg } => self.rmw(st, memarg, 1, true, |a, b| a ^ b)?,
            I64AtomicRmw16XorU { memarg } => self.rmw(st, memarg, 2, true, |a, b| a ^ b)?,
            I64AtomicRmw32XorU { memarg } => self.rmw(st, memarg, 4, true, |a, b| a ^ b)?,
            I32AtomicRmwXchg { memarg } => self.rmw(st, memarg, 4, false, |_a, b| b)?,
            I64AtomicRmwXchg { memarg } => self.rmw(st, memarg, 8, true, |_a, b| b)?,
            I32AtomicRmw8XchgU { memarg } => self.rmw(st, memarg, 1, false, |_a, b| b)?,
            I32AtomicRmw16XchgU { memarg } => self.rmw(st, memarg, 2, false, |_a, b| b)?,
            I64AtomicRmw8XchgU { memarg } => self.rmw(st, memarg, 1, true, |_a, b| b)?,
            I64AtomicRmw16XchgU { memarg } => self.rmw(st, memarg, 2, true, |_a, b| b)?,
            I64AtomicRmw32XchgU { memarg } => self.rmw(st, memarg, 4, true, |_a, b| b)?,
            I32AtomicRmwCmpxchg { memarg } => self.cmpxchg(st, memarg, 4, false)?,
            I64AtomicRmwCmpxchg { memarg } => self.cmpxchg(st, memarg, 8, true)?,
            I32AtomicRmw8CmpxchgU { memarg } => self.cmpxchg(st, memarg, 1, false)?,
            I32AtomicRmw16CmpxchgU { memarg } => self.cmpxchg(st, memarg, 2, false)?,
            I64AtomicRmw8CmpxchgU { memarg } => self.cmpxchg(st, memarg, 1, true)?,
            I64AtomicRmw16CmpxchgU { memarg } => self.cmpxchg(st, memarg, 2, true)?,
            I64AtomicRmw32CmpxchgU { memarg } => self.cmpxchg(st, memarg, 4, true)?,
            MemoryAtomicNotify { memarg } => {
                let _count = pop!(st, I32);
                let _ea = self.atomic_ea(st, memarg, 4)?;
                st.push(Val::I32(0));
            }
            MemoryAtomicWait32 { memarg } => {
                let timeout = pop!(st, I64);
                let expected = pop!(st, I32);
                let ea = self.atomic_ea(st, memarg, 4)?;
                if !self.mems[memarg.memory as usize].shared {
                    return Err(Trap::AtomicWaitNonShared);
                }
                let d = &self.mems[memarg.memory as usize].data;
                let cur = i32::from_le_bytes([d[ea], d[ea + 1], d[ea + 2], d[ea + 3]]);
                if cur != expected {
                    st.push(Val::I32(1));
                } else if timeout >= 0 {
                    st.push(Val::I32(2));
                } else {
                    return Err(Trap::WouldBlock);
                }
            }
            MemoryAtomicWait64 { memarg } => {
                let timeout = pop!(st, I64);
                let expected = pop!(st, I64);
                let ea = self.atomic_ea(st, memarg, 8)?;
                if !self.mems[memarg.memory as usize].shared {
                    return Err(Trap::AtomicWaitNonShared);
                }
                let d = &self.mems[memarg.memory as usize].data;
                let mut b = [0u8; 8];
                b.copy_from_slice(&d[ea..ea + 8]);
                if i64::from_le_bytes(b) != expected {
                    st.push(Val::I32(1));
                } else if timeout >= 0 {
                    st.push(Val::I32(2));
                } else {
                    return Err(Trap::WouldBlock);
                }
            }
            // ---- SIMD subset ----
            V128Load { memarg } => {
                let b = self.ld::<16>(st, memarg)?;
                st.push(Val::V128(u128::from_le_bytes(b)));
            }
            V128Store { memarg } => {
                let v = pop!(st, V128);
                self.store_bytes(st, memarg, &v.to_le_bytes())?;
            }
            V128Load8Splat { memarg } => {
                let b = self.ld::<1>(st, memarg)?;
                st.push(Val::V128(from8([b[0]; 16])));
            }
            V128Load16Splat { memarg } => {
                let b = self.ld::<2>(st, memarg)?;
                st.push(Val::V128(from16([u16::from_le_bytes(b); 8])));
            }
            V128Load32Splat { memarg } => {
                let b = self.ld::<4>(st, memarg)?;
                st.push(Val::V128(from32([u32::from_le_bytes(b); 4])));
            }
            V128Load64Splat { memarg } => {
                let b = self.ld::<8>(st, memarg)?;
                st.push(Val::V128(from64([u64::from_le_bytes(b); 2])));
            }
            V128Load32Zero { memarg } => {
                let b = self.ld::<4>(st, memarg)?;
                st.push(Val::V128(u32::from_le_bytes(b) as u128));
            }
            V128Load64Zero { memarg } => {
                let b = self.ld::<8>(st, memarg)?;
                st.push(Val::V128(u64::from_le_bytes(b) as u128));
            }
            V128Load8x8S { memarg } | V128Load8x8U { memarg } => {
                let b = self.ld::<8>(st, memarg)?;
                let mut l = [0u16; 8];
                for i in 0..8 {
                    l[i] = if matches!(op, V128Load8x8S { .. }) { b[i] as i8 as i16 as u16 } else { b[i] as u16 };
                }
                st.push(Val::V128(from16(l)));
            }
            V128Load16x4S { memarg } | V128Load16x4U { memarg } => {
                let b = self.ld::<8>(st, memarg)?;
                let mut l = [0u32; 4];
                for i in 0..4 {
                    let x = u16::from_le_bytes([b[2 * i], b[2 * i + 1]]);
                    l[i] = if matches!(op, V128Load16x4S { .. }) { x as i16 as i32 as u32 } else { x as u32 };
                }
                st.push(Val::V128(from32(l)));
            }
            V128Load32x2S { memarg } | V128Load32x2U { memarg } => {
                let b = self.ld::<8>(st, memarg)?;
                let mut l = [0u64; 2];
                for i in 0..2 {
                    let x = u32::from_le_bytes([b[4 * i], b[4 * i + 1], b[4 * i + 2], b[4 * i + 3]]);
                    l[i] = if matches!(op, V128Load32x2S { .. }) { x as i32 as i64 as u64 } else { x as u64 };
                }
                st.push(Val::V128(from64(l)));
            }
            V128Load8Lane { memarg, lane } => {
                let v = pop!(st, V128);
                let b = self.ld::<1>(st, memarg)?;
                let mut l = lanes8(v);
                l[*lane as usize] = b[0];
                st.push(Val::V128(from8(l)));
            }
            V128Load16Lane { memarg, lane } => {
                let v = pop!(st, V128);
                let b = self.ld::<2>(st, memarg)?;
                let mut l = lanes16(v);
                l[*lane as usize] = u16::from_le_bytes(b);
                st.push(Val::V128(from16(l)));
            }
            V128Load32Lane { memarg, lane } => {
                let v = pop!(st, V128);
                let b = self.ld::<4>(st, memarg)?;
                let mut l = lanes32(v);
                l[*lane as usize] = u32::from_le_bytes(b);
                st.push(Val::V128(from32(l)));
            }
            V128Load64Lane { memarg, lane } => {
                let v = pop!(st, V128);
                let b = self.ld::<8>(st, memarg)?;
                let mut l = lanes64(v);
                l[*lane as usize] = u64::from_le_bytes(b);
                st.push(Val::V128(from64(l)));
            }
            V128Store8Lane { memarg, lane } => {
                let v = pop!(st, V128);
                self.store_bytes(st, memarg, &[lanes8(v)[*lane as usize]])?;
            }
            V128Store16Lane { memarg, lane } => {
                let v = pop!(st, V128);
                self.store_bytes(st, memarg, &lanes16(v)[*lane as usize].to_le_bytes())?;
            }
            V128Store32Lane { memarg, lane } => {
                let v = pop!(st, V128);
                self.store_bytes(st, memarg, &lanes32(v)[*lane as usize].to_le_bytes())?;
            }
            V128Store64Lane { memarg, lane } => {
                let v = pop!(st, V128);
                self.store_bytes(st, memarg, &lanes64(v)[*lane as usize].to_le_bytes())?;
            }
            I8x16Shuffle { lanes } => {
                let b = lanes8(pop!(st, V128));
                let a = lanes8(pop!(st, V128));
                let mut o = [0u8; 16];
                for i in 0..16 {
                    let k = lanes[i] as usize;
                    o[i] = if k < 16 { a[k] } else { b[k - 16] };
                }
                st.push(Val::V128(from8(o)));
            }
            I8x16Swizzle => {
                let s = lanes8(pop!(st, V128));
                let a = lanes8(pop!(st, V128));
                let mut o = [0u8; 16];
                for i in 0..16 {
                    o[i] = if (s[i] as usize) < 16 { a[s[i] as usize] } else { 0 };
                }
                st.push(Val::V128(from8(o)));
            }
            I8x16Splat => un!(st, I32, V128, |a: i32| from8([a as u8; 16])),
            I16x8Splat => un!(st, I32, V128, |a: i32| from16([a as u16; 8])),
            I32x4Splat => un!(st, I32, V128, |a: i32| from32([a as u32; 4])),
            I64x2Splat => un!(st, I64, V128, |a: i64| from64([a as u64; 2])),
            F32x4Splat => un!(st, F32, V128, |a: u32| from32([a; 4])),
            F64x2Splat => un!(st, F64, V128, |a: u64| from64([a; 2])),
            I8x16ExtractLaneS { lane } => un!(st, V128, I32, |a: u128| lanes8(a)[*lane as usize] as i8 as i32),
            I8x16ExtractLaneU { lane } => un!(st, V128, I32, |a: u128| lanes8(a)[*lane as usize] as i32),
            I16x8ExtractLaneS { lane } => un!(st, V128, I32, |a: u128| lanes16(a)[*lane as usize] as i16 as i32),
            I16x8ExtractLaneU { lane } => un!(st, V128, I32, |a: u128| lanes16(a)[*lane as usize] as i32),
            I32x4ExtractLane { lane } => un!(st, V128, I32, |a: u128| lanes32(a)[*lane as usize] as i32),
            I64x2ExtractLane { lane } => un!(st, V128, I64, |a: u128| lanes64(a)[*lane as usize] as i64),
            F32x4ExtractLane { lane } => un!(st, V128, F32, |a: u128| lanes32(a)[*lane as usize]),
            F64x2ExtractLane { lane } => un!(st, V128, F64, |a: u128| lanes64(a)[*lane as usize]),
            I8x16ReplaceLane { lane } => {
                let x = pop!(st, I32);
                let mut l = lanes8(pop!(st, V128));
                l[*lane as usize] = x as u8;
                st.push(Val::V128(from8(l)));
            }
            I16x8ReplaceLane { lane } => {
                let x = pop!(st, I32);
                let mut l = lanes16(pop!(st, V128));
                l[*lane as usize] = x as u16;
                st.push(Val::V128(from16(l)));
            }
            I32x4ReplaceLane { lane } => {
                let x = pop!(st, I32);
                let mut l = lanes32(pop!(st, V128));
                l[*lane as usize] = x as u32;
                st.push(Val::V128(from32(l)));
            }
            I64x2ReplaceLane { lane } => {
                let x = pop!(st, I64);
                let mut l = lanes64(pop!(st, V128));
                l[*lane as usize] = x as u64;
                st.push(Val::V128(from64(l)));
            }
            F32x4ReplaceLane { lane } => {
                let x = pop!(st, F32);
                let mut l = lanes32(pop!(st, V128));
                l[*lane as usize] = x;
                st.push(Val::V128(from32(l)));
            }
            F64x2ReplaceLane { lane } => {
                let x = pop!(st, F64);
                let mut l = lanes64(pop!(st, V128));
                l[*lane as usize] = x;
                st.push(Val::V128(from64(l)));
            }
            V128Not => un!(st, V128, V128, |a: u128| !a),
            V128And => bin!(st, V128, |a: u128, b: u128| a & b),
            V128AndNot => bin!(st, V128, |a: u128, b: u128| a & !b),
            V128Or => bin!(st, V128, |a: u128, b: u128| a | b),
            V128Xor => bin!(st, V128, |a: u128, b: u128| a ^ b),
            V128Bitselect => {
                let c = pop!(st, V128);
                let b = pop!(st, V128);
                let a = pop!(st, V128);
                st.push(Val::V128((a & c) | (b & !c)));
            }
            V128AnyTrue => un!(st, V128, I32, |a: u128| (a != 0) as i32),
            I8x16Add | I8x16Sub => {
                let b = lanes8(pop!(st, V128));
                let a = lanes8(pop!(st, V128));
                let mut o = [0u8; 16];
                for i in 0..16 {
                    o[i] = if matches!(op, I8x16Add) { a[i].wrapping_add(b[i]) } else { a[i].wrapping_sub(b[i]) };
                }
                st.push(Val::V128(from8(o)));
            }
            I16x8Add | I16x8Sub | I16x8Mul => {
                let b = lanes16(pop!(st, V128));
                let a = lanes16(pop!(st, V128));
                let mut o = [0u16; 8];
                for i in 0..8 {
                    o[i] = match op {
                        I16x8Add => a[i].wrapping_add(b[i]),
                        I16x8Sub => a[i].wrapping_sub(b[i]),
                        _ => a[i].wrapping_mul(b[i]),
                    };
                }
                st.push(Val::V128(from16(o)));
            }
            I32x4Add | I32x4Sub | I32x4Mul => {
                let b = lanes32(pop!(st, V128));
                let a = lanes32(pop!(st, V128));
                let mut o = [0u32; 4];
                for i in 0..4 {
                    o[i] = match op {
                        I32x4Add => a[i].wrapping_add(b[i]),
                        I32x4Sub => a[i].wrapping_sub(b[i]),
                        _ => a[i].wrapping_mul(b[i]),
                    };
                }
                st.push(Val::V128(from32(o)));
            }
            I64x2Add | I64x2Sub | I64x2Mul => {
                let b = lanes64(pop!(st, V128));
                let a = lanes64(pop!(st, V128));
                let mut o = [0u64; 2];
                for i in 0..2 {
                    o[i] = match op {
                        I64x2Add => a[i].wrapping_add(b[i]),
                        I64x2Sub => a[i].wrapping_sub(b[i]),
                        _ => a[i].wrapping_mul(b[i]),
                    };
                }
                st.push(Val::V128(from64(o)));
            }
            I8x16Eq | I8x16Ne => {
                let b = lanes8(pop!(st, V128));
                let a = lanes8(pop!(st, V128));
                let mut o = [0u8; 16];
                for i in 0..16 {
                    o[i] = if (a[i] == b[i]) == matches!(op, I8x16Eq) { 0xff } else { 0 };
                }
                st.push(Val::V128(from8(o)));
            }
            I16x8Eq | I16x8Ne => {
                let b = lanes16(pop!(st, V128));
                let a = lanes16(pop!(st, V128));
                let mut o = [0u16; 8];
                for i in 0..8 {
                    o[i] = if (a[i] == b[i]) == matches!(op, I16x8Eq) { 0xffff } else { 0 };
                }
                st.push(Val::V128(from16(o)));
            }
            I32x4Eq | I32x4Ne => {
                let b = lanes32(pop!(st, V128));
                let a = lanes32(pop!(st, V128));
                let mut o = [0u32; 4];
                for i in 0..4 {
                    o[i] = if (a[i] == b[i]) == matches!(op, I32x4Eq) { u32::MAX } else { 0 };
                }
                st.push(Val::V128(from32(o)));
            }
            I64x2Eq | I64x2Ne => {
                let b = lanes64(pop!(st, V128));
                let a = lanes64(pop!(st, V128));
                let mut o = [0u64; 2];
                for i in 0..2 {
                    o[i] = if (a[i] == b[i]) == matches!(op, I64x2Eq) { u64::MAX } else { 0 };
                }
                st.push(Val::V128(from64(o)));
            }
            I8x16AllTrue => un!(st, V128, I32, |a: u128| lanes8(a).iter().all(|x| *x != 0) as i32),
            I16x8AllTrue => un!(st, V128, I32, |a: u128| lanes16(a).iter().all(|x| *x != 0) as i32),
            I32x4AllTrue => un!(st, V128, I32, |a: u128| lanes32(a).iter().all(|x| *x != 0) as i32),
            I64x2AllTrue => un!(st, V128, I32, |a: u128| lanes64(a).iter().all(|x| *x != 0) as i32),
            I8x16Bitmask => un!(st, V128, I32, |a: u128| lanes8(a).iter().enumerate().fold(0i32, |m, (i, x)| m | (((*x >> 7) as i32) << i))),
            I16x8Bitmask => un!(st, V128, I32, |a: u128| lanes16(a).iter().enumerate().fold(0i32, |m, (i, x)| m | (((*x >> 15) as i32) << i))),
            I32x4Bitmask => un!(st, V128, I32, |a: u128| lanes32(a).iter().enumerate().fold(0i32, |m, (i, x)| m | (((*x >> 31) as i32) << i))),
            I64x2Bitmask => un!(st, V128, I32, |a: u128| lanes64(a).iter().enumerate().fold(0i32, |m, (i, x)| m | (((*x >> 63) as i32) << i))),
            I8x16Neg => un!(st, V128, V128, |a: u128| {
                let mut l = lanes8(a);
                for x in l.iter_mut() {
                    *x = x.wrapping_neg();
                }
                from8(l)
            }),
            I16x8Neg => un!(st, V128, V128, |a: u128| {
                let mut l = lanes16(a);
                for x in l.iter_mut() {
                    *x = x.wrapping_neg();
                }
                from16(l)
            }),
            I32x4Neg => un!(st, V128, V128, |a: u128| {
                let mut l = lanes32(a);
                for x in l.iter_mut() {
                    *x = x.wrapping_neg();
                }
                from32(l)
            }),
            I64x2Neg => un!(st, V128, V128, |a: u128| {
                let mut l = lanes64(a);
                for x in l.iter_mut() {
                    *x = x.wrapping_neg();
                }
                from64(l)
            }),
            other => return Err(Trap::Unsupported(format!("{:?}", other).chars().take(40).collect())),
        }
        Ok(())
    }
}
