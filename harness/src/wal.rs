//! Thin, panic-guarded wrappers around the walrus API under test.

use crate::run::{guard, Failure};
use walrus::{Module, ModuleConfig};

#[derive(Clone, Copy, Debug, Default, PartialEq, Eq)]
pub struct Cfg {
    pub names: bool,
    pub producers: bool,
    pub dwarf: bool,
    pub code_transform: bool,
    pub only_stable: bool,
    pub synthetic_names: bool,
}

impl Cfg {
    pub fn plain() -> Cfg {
        Cfg {
            names: true,
            producers: true,
            dwarf: false,
            code_transform: false,
            only_stable: false,
            synthetic_names: false,
        }
    }
    pub fn bare() -> Cfg {
        Cfg {
            names: false,
            producers: false,
            dwarf: false,
            code_transform: false,
            only_stable: false,
            synthetic_names: false,
        }
    }
    pub fn to_config(&self) -> ModuleConfig {
        let mut c = ModuleConfig::new();
        c.generate_name_section(self.names);
        c.generate_producers_section(self.producers);
        c.preserve_code_transform(self.code_transform);
        c.generate_dwarf(self.dwarf);
        c.only_stable_features(self.only_stable);
        c.generate_synthetic_names_for_anonymous_items(self.synthetic_names);
        c
    }
    /// the same final settings reached through a setter history: for every
    /// bit of `hist` the corresponding switch is first set to the opposite
    /// value (a configuration object is documented as a set of independent
    /// switches; only DWARF-on forces the code transform on)
    pub fn to_config_hist(&self, hist: u8) -> ModuleConfig {
        let mut c = ModuleConfig::new();
        if hist & 1 != 0 {
            c.generate_name_section(!self.names);
        }
        if hist & 2 != 0 {
            c.generate_producers_section(!self.producers);
        }
        if hist & 4 != 0 {
            c.generate_dwarf(!self.dwarf);
        }
        if hist & 8 != 0 {
            c.preserve_code_transform(!self.code_transform);
        }
        if hist & 16 != 0 {
            c.only_stable_features(!self.only_stable);
        }
        // strict validation "strictly isn't required to create a Module":
        // switching it must not change what a valid module round-trips to
        c.strict_validate(hist & 3 != 3);
        c.generate_name_section(self.names);
        c.generate_producers_section(self.producers);
        if hist & 32 != 0 {
            // the code-transform switch set after DWARF generation: DWARF on
            // with the transform explicitly off is a reachable configuration
            c.generate_dwarf(self.dwarf);
            c.preserve_code_transform(self.code_transform);
        } else {
            c.preserve_code_transform(self.code_transform);
            c.generate_dwarf(self.dwarf);
        }
        c.only_stable_features(self.only_stable);
        c.generate_synthetic_names_for_anonymous_items(self.synthetic_names);
        c
    }
}

/// parse; Ok(Err(msg)) = walrus rejected the input; Err = panic
pub fn parse(bytes: &[u8], cfg: &ModuleConfig) -> Result<Result<Module, String>, Failure> {
    guard("parse", || cfg.parse(bytes).map_err(|e| format!("{:#}", e)))
}

pub fn emit(m: &mut Module) -> Result<Vec<u8>, Failure> {
    guard("emit", || m.emit_wasm())
}

pub fn gc(m: &mut Module) -> Result<(), Failure> {
    guard("gc", || walrus::passes::gc::run(m))
}

/// parse + emit with a config; rejection is reported as Ok(None)
pub fn roundtrip(bytes: &[u8], cfg: Cfg, do_gc: bool) -> Result<Option<Vec<u8>>, Failure> {
    let c = cfg.to_config();
    let mut m = match parse(bytes, &c)? {
        Ok(m) => m,
        Err(_) => return Ok(None),
    };
    if do_gc {
        gc(&mut m)?;
    }
    emit(&mut m).map(Some)
}
