//! Fixed inputs: the repository's own .wat fixtures (converted on the fly from
//! /repo's working tree) and the committed real-world corpus.

use std::path::{Path, PathBuf};
use std::sync::OnceLock;

fn repo_dir() -> PathBuf {
    std::env::var("WALRUS_REPO").map(PathBuf::from).unwrap_or_else(|_| PathBuf::from("/repo"))
}

fn verif_dir() -> PathBuf {
    std::env::var("VERIF_DIR").map(PathBuf::from).unwrap_or_else(|_| PathBuf::from("/verif"))
}

fn walk(dir: &Path, out: &mut Vec<PathBuf>) {
    if let Ok(rd) = std::fs::read_dir(dir) {
        let mut es: Vec<PathBuf> = rd.filter_map(|e| e.ok().map(|e| e.path())).collect();
        es.sort();
        for p in es {
            if p.is_dir() {
                if p.file_name().map(|n| n == "spec-tests").unwrap_or(false) {
                    continue;
                }
                walk(&p, out);
            } else {
                out.push(p);
            }
        }
    }
}

/// (origin, wasm bytes) of every fixture that converts and validates.
pub fn all() -> &'static Vec<(String, Vec<u8>)> {
    static C: OnceLock<Vec<(String, Vec<u8>)>> = OnceLock::new();
    C.get_or_init(|| {
        let mut out = Vec::new();
        let mut files = Vec::new();
        walk(&repo_dir().join("crates/tests/tests"), &mut files);
        for p in files {
            let ext = p.extension().and_then(|e| e.to_str()).unwrap_or("");
            if ext == "wat" || ext == "wast" {
                if p.to_string_lossy().contains("/invalid/") {
                    continue;
                }
                if let Ok(bytes) = wat::parse_file(&p) {
                    if crate::optable::validate_walrus(&bytes).is_ok() {
                        let name = p
                            .strip_prefix(repo_dir())
                            .unwrap_or(&p)
                            .to_string_lossy()
                            .to_string();
                        out.push((format!("fixture:{}", name), bytes));
                    }
                }
            }
        }
        for sub in ["corpus/real", "corpus/extra"] {
            let mut files = Vec::new();
            walk(&verif_dir().join(sub), &mut files);
            for p in files {
                if p.extension().map(|e| e == "wasm").unwrap_or(false) {
                    if let Ok(bytes) = std::fs::read(&p) {
                        let name = p.file_name().unwrap().to_string_lossy().to_string();
                        out.push((format!("{}:{}", sub, name), bytes));
                    }
                }
            }
        }
        out
    })
}
