//! walrus verification harness: generators, oracles and property checks.

pub mod ch;
pub mod corpus;
pub mod decode;
pub mod dwarf;
pub mod edits;
pub mod exec;
pub mod gen;
pub mod interp;
pub mod iso;
pub mod mutate;
pub mod names;
pub mod ops;
pub mod optable;
pub mod props;
pub mod reach;
pub mod run;
pub mod spy;
pub mod wal;
