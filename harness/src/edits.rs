//! Well-formed edit scripts over walrus's public builder / edit API
//! (DESIGN §4 C02). Every edit is well-formed by construction.

use crate::ch::Ch;
use walrus::ir::*;
use walrus::*;

fn push_default(b: &mut InstrSeqBuilder, t: ValType, k: i32) {
    match t {
        ValType::I32 => {
            b.i32_const(k);
        }
        ValType::I64 => {
            b.i64_const(k as i64);
        }
        ValType::F32 => {
            b.f32_const(k as f32);
        }
        ValType::F64 => {
            b.f64_const(k as f64);
        }
        ValType::V128 => {
            b.const_(Value::V128(k as u128));
        }
        ValType::Ref(r) => {
            b.ref_null(r);
        }
    }
}

fn val_types(ch: &mut Ch, n: usize) -> Vec<ValType> {
    let all = [
        ValType::I32,
        ValType::I64,
        ValType::F32,
        ValType::F64,
        ValType::V128,
        ValType::Ref(RefType::Funcref),
        ValType::Ref(RefType::Externref),
    ];
    (0..n).map(|_| *ch.pick(&all)).collect()
}

/// Functions that code refers to with `ref.func` and that nothing but one
/// function export declares (no element segment, no global initialiser, no
/// second export): removing or retargeting that export makes the module
/// invalid by the rules of wasm, whatever walrus does.
pub fn sole_declaring_exports(m: &Module) -> std::collections::HashSet<FunctionId> {
    use std::collections::HashSet;
    struct Refs(HashSet<FunctionId>);
    impl<'a> Visitor<'a> for Refs {
        fn visit_ref_func(&mut self, r: &RefFunc) {
            self.0.insert(r.func);
        }
    }
    let mut refs = Refs(HashSet::new());
    for (_, f) in m.funcs.iter_local() {
        dfs_in_order(&mut refs, f, f.entry_block());
    }
    let mut declared: HashSet<FunctionId> = HashSet::new();
    for e in m.elements.iter() {
        // (a passive segment that nothing refers to is removed by the GC pass
        // even when it is the only declaration left: recorded under C06)
        let removable = match &e.kind {
            ElementKind::Passive => true,
            ElementKind::Active { table, .. } => m.tables.get(*table).import.is_none(),
            ElementKind::Declared => false,
        };
        if removable {
            continue;
        }
        match &e.items {
            ElementItems::Functions(v) => declared.extend(v.iter().copied()),
            ElementItems::Expressions(_, v) => {
                for x in v {
                    if let ConstExpr::RefFunc(f) = x {
                        declared.insert(*f);
                    }
                }
            }
        }
    }
    for g in m.globals.iter() {
        if let GlobalKind::Local(ConstExpr::RefFunc(f)) = &g.kind {
            declared.insert(*f);
        }
    }
    refs.0
        .into_iter()
        .filter(|f| !declared.contains(f))
        .filter(|f| m.exports.iter().filter(|e| matches!(e.item, ExportItem::Function(g) if g == *f)).count() == 1)
        .collect()
}

/// Apply up to `n` edits; returns a description of each applied edit.
pub fn apply(m: &mut Module, ch: &mut Ch, n: usize) -> Vec<String> {
    let mut log = Vec::new();
    for i in 0..n {
        let k = ch.below(18);
        match k {
            0 => {
                // add a function built with the builder, export it
                let np = ch.below(3);
                let nr = ch.below(3);
                let params = val_types(ch, np);
                let results = val_types(ch, nr);
                // a scratch local that is older than the argument locals
                let scratch = if ch.bool() { Some(m.locals.add(ValType::I32)) } else { None };
                let args: Vec<LocalId> = params.iter().map(|t| m.locals.add(*t)).collect();
                let mut fb = FunctionBuilder::new(&mut m.types, &params, &results);
                {
                    let mut body = fb.func_body();
                    if let Some(s) = scratch {
                        body.i32_const(3).local_set(s).local_get(s).drop();
                    }
                    // use a param if there is one
                    if let Some(a) = args.first() {
                        body.local_get(*a).drop();
                    }
                    for t in &results {
                        push_default(&mut body, *t, 7 + i as i32);
                    }
                }
                let f = fb.finish(args, &mut m.funcs);
                m.exports.add(&format!("edit_f{}", i), f);
                log.push(format!("add-func({}p,{}r)", np, nr));
            }
            1 => {
                let t = val_types(ch, 1)[0];
                let init = match t {
                    ValType::I32 => ConstExpr::Value(Value::I32(5)),
                    ValType::I64 => ConstExpr::Value(Value::I64(6)),
                    ValType::F32 => ConstExpr::Value(Value::F32(1.5)),
                    ValType::F64 => ConstExpr::Value(Value::F64(2.5)),
                    ValType::V128 => ConstExpr::Value(Value::V128(9)),
                    ValType::Ref(r) => ConstExpr::RefNull(r),
                };
                let g = m.globals.add_local(t, ch.bool(), false, init);
                if ch.bool() {
                    m.exports.add(&format!("edit_g{}", i), g);
                }
                log.push("add-global".into());
            }
            2 => {
                let mem = m.memories.add_local(false, false, 1, Some(2), None);
                m.exports.add(&format!("edit_m{}", i), mem);
                log.push("add-memory".into());
            }
            3 => {
                let t = m.tables.add_local(false, 2, Some(4), RefType::Funcref);
                m.exports.add(&format!("edit_t{}", i), t);
                log.push("add-table".into());
            }
            4 => {
                let ty = m.types.add(&[ValType::I32], &[]);
                let (f, _) = m.add_import_func("edit", &format!("imp{}", i), ty);
                if ch.bool() {
                    m.exports.add(&format!("edit_if{}", i), f);
                }
                log.push("add-import-func".into());
            }
            5 => {
                let (g, _) = m.add_import_global("edit", &format!("gimp{}", i), ValType::I32, false, false);
                if ch.bool() {
                    m.exports.add(&format!("edit_ig{}", i), g);
                }
                log.push("add-import-global".into());
            }
            6 => {
                // data segment, passive or active on an existing memory
                let mems: Vec<MemoryId> = m.memories.iter().map(|x| x.id()).collect();
                if mems.is_empty() || ch.bool() {
                    m.data.add(DataKind::Passive, vec![1, 2, 3]);
                    log.push("add-passive-data".into());
                } else {
                    let mem = *ch.pick(&mems);
                    let m64 = m.memories.get(mem).memory64;
                    let offset = if m64 {
                        ConstExpr::Value(Value::I64(3))
                    } else {
                        ConstExpr::Value(Value::I32(3))
                    };
                    let d = m.data.add(DataKind::Active { memory: mem, offset }, vec![9, 8]);
                    m.memories.get_mut(mem).data_segments.insert(d);
                    log.push("add-active-data".into());
                }
            }
            7 => {
                let funcs: Vec<FunctionId> = m.funcs.iter().map(|f| f.id()).collect();
                let tabs: Vec<TableId> = m
                    .tables
                    .iter()
                    .filter(|t| t.element_ty == RefType::Funcref)
                    .map(|t| t.id())
                    .collect();
                let items: Vec<FunctionId> = if funcs.is_empty() {
                    vec![]
                } else {
                    (0..ch.below(3)).map(|_| *ch.pick(&funcs)).collect()
                };
                if tabs.is_empty() || ch.bool() {
                    m.elements.add(ElementKind::Passive, ElementItems::Functions(items));
                    log.push("add-passive-elem".into());
                } else {
                    let t = *ch.pick(&tabs);
                    let t64 = m.tables.get(t).table64;
                    let offset = if t64 {
                        ConstExpr::Value(Value::I64(0))
                    } else {
                        ConstExpr::Value(Value::I32(0))
                    };
                    let e = m
                        .elements
                        .add(ElementKind::Active { table: t, offset }, ElementItems::Functions(items));
                    m.tables.get_mut(t).elem_segments.insert(e);
                    log.push("add-active-elem".into());
                }
            }
            8 => {
                // (an export can be what declares a function for `ref.func`:
                // such an export is not deleted, the edit would not be well-formed)
                let sole = sole_declaring_exports(m);
                let ex: Vec<ExportId> = m
                    .exports
                    .iter()
                    .filter(|e| match e.item {
                        ExportItem::Function(f) => !sole.contains(&f),
                        _ => true,
                    })
                    .map(|e| e.id())
                    .collect();
                if !ex.is_empty() {
                    let e = *ch.pick(&ex);
                    m.exports.delete(e);
                    log.push("delete-export".into());
                }
            }
            9 => {
                // replace an imported function by a local body
                let imps: Vec<FunctionId> = m
                    .imports
                    .iter()
                    .filter_map(|i| match i.kind {
                        ImportKind::Function(f) => Some(f),
                        _ => None,
                    })
                    .collect();
                if !imps.is_empty() {
                    let f = *ch.pick(&imps);
                    let results: Vec<ValType> = m.types.results(m.funcs.get(f).ty()).to_vec();
                    let r = m.replace_imported_func(f, |(body, args)| {
                        for a in args.iter() {
                            body.local_get(*a).drop();
                        }
                        for t in &results {
                            push_default(body, *t, 3);
                        }
                    });
                    if r.is_ok() {
                        log.push("replace-imported-func".into());
                    }
                }
            }
            10 => {
                let exps: Vec<FunctionId> = m
                    .exports
                    .iter()
                    .filter_map(|e| match e.item {
                        ExportItem::Function(f) => Some(f),
                        _ => None,
                    })
                    .filter(|f| matches!(m.funcs.get(*f).kind, FunctionKind::Local(_)))
                    .collect();
                // retargeting the export that alone declares a `ref.func` target
                // is left to C18, where it is a recorded finding
                let sole = sole_declaring_exports(m);
                let exps: Vec<FunctionId> = exps.into_iter().filter(|f| !sole.contains(f)).collect();
                if !exps.is_empty() {
                    let f = *ch.pick(&exps);
                    let results: Vec<ValType> = m.types.results(m.funcs.get(f).ty()).to_vec();
                    let r = m.replace_exported_func(f, |(body, args)| {
                        for a in args.iter() {
                            body.local_get(*a).drop();
                        }
                        for t in &results {
                            push_default(body, *t, 4);
                        }
                    });
                    if r.is_ok() {
                        log.push("replace-exported-func".into());
                    }
                }
            }
            11 => {
                // an imported table next to whatever tables exist
                let ty = if ch.bool() { RefType::Funcref } else { RefType::Externref };
                let (t, _) = m.add_import_table("edit", &format!("timp{}", i), false, 1, Some(3), ty);
                if ch.bool() {
                    m.exports.add(&format!("edit_it{}", i), t);
                }
                log.push("add-import-table".into());
            }
            12 => {
                let (mem, _) = m.add_import_memory("edit", &format!("mimp{}", i), false, false, 1, Some(2), None);
                if ch.bool() {
                    m.exports.add(&format!("edit_im{}", i), mem);
                }
                log.push("add-import-memory".into());
            }
            13 => {
                // a builder-made block with a parameter and a result at the
                // start of a local function: i32.const; block [i32]->[i32]; drop
                let locals: Vec<FunctionId> = m.funcs.iter_local().map(|(id, _)| id).collect();
                if !locals.is_empty() {
                    let f = *ch.pick(&locals);
                    let (np, nr) = *ch.pick(&[(1usize, 1usize), (2, 1), (1, 2), (0, 2)]);
                    let ty = InstrSeqType::new(&mut m.types, &vec![ValType::I32; np], &vec![ValType::I32; nr]);
                    let lf = m.funcs.get_mut(f).kind.unwrap_local_mut();
                    let mut b = lf.builder_mut().func_body();
                    let mut at = 0;
                    for k in 0..np {
                        b.const_at(at, Value::I32(0x77aa00 + k as i32));
                        at += 1;
                    }
                    b.block_at(at, ty, |bb| {
                        // np values in, nr values out
                        let mut have = np;
                        while have > nr {
                            bb.drop();
                            have -= 1;
                        }
                        while have < nr {
                            bb.i32_const(7);
                            have += 1;
                        }
                    });
                    at += 1;
                    for _ in 0..nr {
                        b.drop_at(at);
                        at += 1;
                    }
                    log.push(format!("insert-multi-value-block({}p,{}r)", np, nr));
                }
            }
            14 => {
                // a builder-made block whose type is [] -> R for the result
                // list R of the function it is put into (the signature of that
                // function's hidden entry type)
                let locals: Vec<FunctionId> = m.funcs.iter_local().map(|(id, _)| id).collect();
                if !locals.is_empty() {
                    let f = *ch.pick(&locals);
                    let results: Vec<ValType> = m.types.results(m.funcs.get(f).ty()).to_vec();
                    if !results.is_empty() {
                        let ty = if ch.bool() {
                            InstrSeqType::new(&mut m.types, &[], &results)
                        } else {
                            match InstrSeqType::existing(&m.types, &[], &results) {
                                Some(t) => t,
                                None => InstrSeqType::new(&mut m.types, &[], &results),
                            }
                        };
                        let lf = m.funcs.get_mut(f).kind.unwrap_local_mut();
                        let mut b = lf.builder_mut().func_body();
                        b.block_at(0, ty, |bb| {
                            for t in &results {
                                push_default(bb, *t, 11);
                            }
                        });
                        for k in 0..results.len() {
                            b.drop_at(1 + k);
                        }
                        log.push(format!("insert-block-typed-like-the-function-results({})", results.len()));
                    }
                }
            }
            15 => {
                // a loop with a result whose body branches back to the loop
                // itself (valid for a loop: its label takes the parameters;
                // for a block the label would take the result), via loop_at
                let locals: Vec<FunctionId> = m.funcs.iter_local().map(|(id, _)| id).collect();
                if !locals.is_empty() {
                    let f = *ch.pick(&locals);
                    let ty = InstrSeqType::new(&mut m.types, &[], &[ValType::I32]);
                    let lf = m.funcs.get_mut(f).kind.unwrap_local_mut();
                    let mut b = lf.builder_mut().func_body();
                    b.loop_at(0, ty, |bb| {
                        let me = bb.id();
                        bb.br(me);
                    });
                    b.drop_at(1);
                    log.push("insert-self-branching-loop".into());
                }
            }
            16 => {
                // redirect every reference to a local function to a new
                // function of the same type (instructions through a mutable
                // traversal), then delete the old one
                let locals: Vec<FunctionId> = m.funcs.iter_local().map(|(id, _)| id).collect();
                if !locals.is_empty() {
                    let old = *ch.pick(&locals);
                    let ty = m.funcs.get(old).ty();
                    let (params, results) = (m.types.params(ty).to_vec(), m.types.results(ty).to_vec());
                    let args: Vec<LocalId> = params.iter().map(|t| m.locals.add(*t)).collect();
                    let mut fb = FunctionBuilder::new(&mut m.types, &params, &results);
                    {
                        let mut body = fb.func_body();
                        for t in &results {
                            push_default(&mut body, *t, 21);
                        }
                    }
                    let new = fb.finish(args, &mut m.funcs);
                    struct Redirect(FunctionId, FunctionId);
                    impl VisitorMut for Redirect {
                        fn visit_function_id_mut(&mut self, f: &mut FunctionId) {
                            if *f == self.0 {
                                *f = self.1;
                            }
                        }
                    }
                    for (_, lf) in m.funcs.iter_local_mut() {
                        let entry = lf.entry_block();
                        dfs_pre_order_mut(&mut Redirect(old, new), lf, entry);
                    }
                    for e in m.exports.iter_mut() {
                        if let ExportItem::Function(f) = &mut e.item {
                            if *f == old {
                                *f = new;
                            }
                        }
                    }
                    for e in m.elements.iter_mut() {
                        match &mut e.items {
                            ElementItems::Functions(v) => {
                                for f in v.iter_mut() {
                                    if *f == old {
                                        *f = new;
                                    }
                                }
                            }
                            ElementItems::Expressions(_, v) => {
                                for x in v.iter_mut() {
                                    if let ConstExpr::RefFunc(f) = x {
                                        if *f == old {
                                            *f = new;
                                        }
                                    }
                                }
                            }
                        }
                    }
                    let gids: Vec<GlobalId> = m.globals.iter().map(|g| g.id()).collect();
                    for g in gids {
                        if let GlobalKind::Local(ConstExpr::RefFunc(f)) = &mut m.globals.get_mut(g).kind {
                            if *f == old {
                                *f = new;
                            }
                        }
                    }
                    if m.start == Some(old) {
                        m.start = Some(new);
                    }
                    m.funcs.delete(old);
                    log.push("redirect-and-delete-function".into());
                }
            }
            _ => {
                // insert a stack-neutral const;drop pair somewhere
                if insert_const_drop(m, ch).is_some() {
                    log.push("insert-const-drop".into());
                }
            }
        }
    }
    log
}

/// Insert `i32.const K; drop` at a chosen position of a chosen reachable
/// sequence of a chosen local function. Returns (function, K).
pub fn insert_const_drop(m: &mut Module, ch: &mut Ch) -> Option<(FunctionId, i32)> {
    let locals: Vec<FunctionId> = m.funcs.iter_local().map(|(id, _)| id).collect();
    if locals.is_empty() {
        return None;
    }
    let f = *ch.pick(&locals);
    let lf = m.funcs.get_mut(f).kind.unwrap_local_mut();
    // collect reachable sequences
    let mut seqs = vec![lf.entry_block()];
    let mut i = 0;
    while i < seqs.len() {
        let s = seqs[i];
        for (ins, _) in lf.block(s).instrs.iter() {
            match ins {
                Instr::Block(b) => seqs.push(b.seq),
                Instr::Loop(l) => seqs.push(l.seq),
                Instr::IfElse(ie) => {
                    seqs.push(ie.consequent);
                    seqs.push(ie.alternative);
                }
                _ => {}
            }
        }
        i += 1;
        if seqs.len() > 10_000 {
            break;
        }
    }
    let s = *ch.pick(&seqs);
    let len = lf.block(s).instrs.len();
    let pos = ch.below(len + 1);
    let k = 0x5eed00 + ch.below(200) as i32;
    let mut b = lf.builder_mut().instr_seq(s);
    b.instr_at(pos, Drop {});
    b.instr_at(pos, Const { value: Value::I32(k) });
    Some((f, k))
}
