//! Table of "simple" operators (no immediates, only a memarg, only a lane,
//! memarg+lane) generated from wasmparser's operator list, with stack
//! signatures *discovered* through the reference validator rather than
//! tabulated by hand.

use crate::ops::VT;
use std::sync::OnceLock;
use wasmparser::{MemArg, Operator, WasmFeatures};

#[derive(Clone, Copy)]
pub enum Ctor {
    Nullary(fn() -> Operator<'static>),
    MemArg(fn(MemArg) -> Operator<'static>),
    MemArgLane(fn(MemArg, u8) -> Operator<'static>),
    Lane(fn(u8) -> Operator<'static>),
}

#[derive(Clone)]
pub struct SimpleOp {
    pub name: &'static str,
    pub proposal: &'static str,
    pub ctor: Ctor,
    pub params: Vec<VT>,
    pub results: Vec<VT>,
    /// accepted alignment exponents (memarg ops)
    pub aligns: Vec<u8>,
    /// maximal lane index accepted (lane ops)
    pub max_lane: u8,
}

impl SimpleOp {
    pub fn has_memarg(&self) -> bool {
        matches!(self.ctor, Ctor::MemArg(_) | Ctor::MemArgLane(_))
    }
    pub fn has_lane(&self) -> bool {
        matches!(self.ctor, Ctor::Lane(_) | Ctor::MemArgLane(_))
    }
    pub fn build(&self, memarg: MemArg, lane: u8) -> Operator<'static> {
        match self.ctor {
            Ctor::Nullary(f) => f(),
            Ctor::MemArg(f) => f(memarg),
            Ctor::MemArgLane(f) => f(memarg, lane),
            Ctor::Lane(f) => f(lane),
        }
    }
}

struct Raw {
    name: &'static str,
    proposal: &'static str,
    ctor: Ctor,
}

macro_rules! collect_simple {
    ($( @$proposal:ident $op:ident $({ $($arg:ident: $argty:ty),* })? => $visit:ident)*) => {
        fn raw_table() -> Vec<Raw> {
            let mut v = Vec::new();
            $( collect_simple!(@one v, $proposal, $op $({ $($arg: $argty),* })?); )*
            v
        }
    };
    (@one $v:ident, $proposal:ident, $op:ident) => {
        $v.push(Raw { name: stringify!($op), proposal: stringify!($proposal),
                      ctor: Ctor::Nullary(|| Operator::$op) });
    };
    (@one $v:ident, $proposal:ident, $op:ident { memarg: $t:ty }) => {
        $v.push(Raw { name: stringify!($op), proposal: stringify!($proposal),
                      ctor: Ctor::MemArg(|memarg| Operator::$op { memarg }) });
    };
    (@one $v:ident, $proposal:ident, $op:ident { memarg: $t:ty, lane: $l:ty }) => {
        $v.push(Raw { name: stringify!($op), proposal: stringify!($proposal),
                      ctor: Ctor::MemArgLane(|memarg, lane| Operator::$op { memarg, lane }) });
    };
    (@one $v:ident, $proposal:ident, $op:ident { lane: $l:ty }) => {
        $v.push(Raw { name: stringify!($op), proposal: stringify!($proposal),
                      ctor: Ctor::Lane(|lane| Operator::$op { lane }) });
    };
    (@one $v:ident, $proposal:ident, $op:ident { $($arg:ident: $argty:ty),* }) => {};
}
wasmparser::for_each_operator!(collect_simple);

/// The feature set walrus documents as supported (see DESIGN §3.2).
pub fn walrus_features(only_stable: bool) -> WasmFeatures {
    let mut f = WasmFeatures::empty();
    f.insert(WasmFeatures::FLOATS);
    f.insert(WasmFeatures::MUTABLE_GLOBAL);
    f.insert(WasmFeatures::SATURATING_FLOAT_TO_INT);
    f.insert(WasmFeatures::SIGN_EXTENSION);
    f.insert(WasmFeatures::MULTI_VALUE);
    f.insert(WasmFeatures::REFERENCE_TYPES);
    f.insert(WasmFeatures::BULK_MEMORY);
    f.insert(WasmFeatures::SIMD);
    f.insert(WasmFeatures::RELAXED_SIMD);
    f.insert(WasmFeatures::TAIL_CALL);
    if !only_stable {
        f.insert(WasmFeatures::MULTI_MEMORY);
        f.insert(WasmFeatures::MEMORY64);
        f.insert(WasmFeatures::THREADS);
    }
    f
}

pub fn validate_with(bytes: &[u8], f: WasmFeatures) -> Result<(), String> {
    let mut v = wasmparser::Validator::new_with_features(f);
    v.validate_all(bytes).map(|_| ()).map_err(|e| e.to_string())
}

pub fn validate_walrus(bytes: &[u8]) -> Result<(), String> {
    validate_with(bytes, walrus_features(false))
}

/// Build a probe module: one shared 32-bit memory, a function whose locals are
/// one of each value type, body = local.get of `params`, then `op`, then
/// either `unreachable` (results unknown) or nothing with the given result.
fn probe(op: &Operator<'static>, params: &[VT], result: Option<Option<VT>>) -> Vec<u8> {
    use wasm_encoder::reencode::Reencode;
    let mut m = wasm_encoder::Module::new();
    let mut types = wasm_encoder::TypeSection::new();
    let res: Vec<wasm_encoder::ValType> = match result {
        Some(Some(t)) => vec![t.to_we()],
        _ => vec![],
    };
    types.function(vec![], res);
    m.section(&types);
    let mut funcs = wasm_encoder::FunctionSection::new();
    funcs.function(0);
    m.section(&funcs);
    let mut mems = wasm_encoder::MemorySection::new();
    mems.memory(wasm_encoder::MemoryType {
        minimum: 1,
        maximum: Some(1),
        memory64: false,
        shared: true,
        page_size_log2: None,
    });
    m.section(&mems);
    let mut code = wasm_encoder::CodeSection::new();
    let mut f = wasm_encoder::Function::new(VT::ALL.iter().map(|t| (1u32, t.to_we())));
    for p in params {
        let idx = VT::ALL.iter().position(|t| t == p).unwrap() as u32;
        f.instruction(&wasm_encoder::Instruction::LocalGet(idx));
    }
    let mut r = wasm_encoder::reencode::RoundtripReencoder;
    match r.instruction(op.clone()) {
        Ok(i) => {
            f.instruction(&i);
        }
        Err(_) => {
            f.instruction(&wasm_encoder::Instruction::Unreachable);
        }
    }
    if result.is_none() {
        f.instruction(&wasm_encoder::Instruction::Unreachable);
    }
    f.instruction(&wasm_encoder::Instruction::End);
    code.function(&f);
    m.section(&code);
    m.finish()
}

fn tuples(len: usize) -> Vec<Vec<VT>> {
    let mut out: Vec<Vec<VT>> = vec![vec![]];
    for _ in 0..len {
        let mut next = Vec::new();
        for t in &out {
            for v in VT::ALL {
                let mut n = t.clone();
                n.push(v);
                next.push(n);
            }
        }
        out = next;
    }
    out
}

fn discover(raw: &Raw, feats: WasmFeatures) -> Option<SimpleOp> {
    let zero = MemArg {
        align: 0,
        max_align: 0,
        offset: 0,
        memory: 0,
    };
    let build = |m: MemArg, l: u8| -> Operator<'static> {
        match raw.ctor {
            Ctor::Nullary(f) => f(),
            Ctor::MemArg(f) => f(m),
            Ctor::MemArgLane(f) => f(m, l),
            Ctor::Lane(f) => f(l),
        }
    };
    // control / structural nullary ops are handled by hand in the generator
    if matches!(
        raw.name,
        "Unreachable" | "Nop" | "Else" | "End" | "Return" | "Drop" | "Select" | "CatchAll" | "ThrowRef"
    ) {
        return None;
    }
    let has_memarg = matches!(raw.ctor, Ctor::MemArg(_) | Ctor::MemArgLane(_));
    // alignment candidates: atomics demand the exact natural alignment, so try
    // every exponent until one works
    let align_cands: Vec<u8> = if has_memarg { (0..=4).collect() } else { vec![0] };
    let mut found: Option<(Vec<VT>, u8)> = None;
    'outer: for len in 0..=3 {
        for t in tuples(len) {
            for a in &align_cands {
                let mut ma = zero;
                ma.align = *a;
                ma.max_align = *a;
                let op = build(ma, 0);
                if validate_with(&probe(&op, &t, None), feats).is_ok() {
                    found = Some((t, *a));
                    break 'outer;
                }
            }
        }
    }
    let (params, a0) = found?;
    let mut ma = zero;
    ma.align = a0;
    ma.max_align = a0;
    let op0 = build(ma, 0);
    let mut results = None;
    let mut cands: Vec<Option<VT>> = vec![None];
    cands.extend(VT::ALL.iter().map(|t| Some(*t)));
    for r in cands {
        if validate_with(&probe(&op0, &params, Some(r)), feats).is_ok() {
            results = Some(r);
            break;
        }
    }
    let results: Vec<VT> = match results? {
        None => vec![],
        Some(t) => vec![t],
    };
    let mut aligns = Vec::new();
    if has_memarg {
        for a in 0..=5u8 {
            let mut ma = zero;
            ma.align = a;
            ma.max_align = a;
            if validate_with(&probe(&build(ma, 0), &params, None), feats).is_ok() {
                aligns.push(a);
            }
        }
    }
    let mut max_lane = 0;
    if matches!(raw.ctor, Ctor::Lane(_) | Ctor::MemArgLane(_)) {
        for l in 0..=32u8 {
            let ok = crate::run::guard("probe", || {
                validate_with(&probe(&build(ma, l), &params, None), feats).is_ok()
            })
            .unwrap_or(false);
            if ok {
                max_lane = l;
            } else {
                break;
            }
        }
    }
    Some(SimpleOp {
        name: raw.name,
        proposal: raw.proposal,
        ctor: raw.ctor,
        params,
        results,
        aligns,
        max_lane,
    })
}

/// All simple operators accepted under walrus's full feature set.
pub fn table() -> &'static Vec<SimpleOp> {
    static T: OnceLock<Vec<SimpleOp>> = OnceLock::new();
    T.get_or_init(|| {
        use rayon::prelude::*;
        let feats = walrus_features(false);
        let raws = raw_table();
        raws.par_iter().filter_map(|r| discover(r, feats)).collect()
    })
}

/// Number of operators that take only simple immediates, for reporting.
pub fn raw_count() -> usize {
    raw_table().len()
}
