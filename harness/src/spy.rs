//! Observation through walrus's public extension points: `on_parse` captures
//! the parse-time index map, a spy custom section captures the CodeTransform
//! and the emit-time index map (DESIGN §4 C11 / C19).

use std::borrow::Cow;
use std::ops::Range;
use std::sync::{Arc, Mutex};
use walrus::*;

/// ids handed out by the parse-time map, per index space, in index order
#[derive(Clone, Debug, Default)]
pub struct ParseIds {
    pub funcs: Vec<FunctionId>,
    pub types: Vec<TypeId>,
    pub tables: Vec<TableId>,
    pub mems: Vec<MemoryId>,
    pub globals: Vec<GlobalId>,
    pub elems: Vec<ElementId>,
    pub datas: Vec<DataId>,
    /// per function index: local ids in index order (as far as the map answers)
    pub locals: Vec<Vec<LocalId>>,
    /// did an out-of-range query (len, len+7) wrongly succeed?
    pub out_of_range_ok: Vec<String>,
}

#[derive(Clone, Debug, Default)]
pub struct EmitAnswers {
    pub funcs: Vec<(FunctionId, u32)>,
    pub types: Vec<(TypeId, u32)>,
    pub tables: Vec<(TableId, u32)>,
    pub mems: Vec<(MemoryId, u32)>,
    pub globals: Vec<(GlobalId, u32)>,
    pub elems: Vec<(ElementId, u32)>,
    pub datas: Vec<(DataId, u32)>,
}

#[derive(Clone, Debug, Default)]
pub struct Transform {
    pub instruction_map: Vec<(Option<u32>, usize)>,
    pub code_section_start: usize,
    pub function_ranges: Vec<(FunctionId, Range<usize>)>,
}

#[derive(Debug, Default)]
pub struct Shared {
    pub parse_ids: Mutex<Option<ParseIds>>,
    /// which ids to ask the emit-time map about (live ones), set before emit
    pub ask: Mutex<Option<EmitAnswers>>,
    pub answers: Mutex<Option<EmitAnswers>>,
    pub transform: Mutex<Option<Transform>>,
    pub data_calls: Mutex<usize>,
    pub transform_calls: Mutex<usize>,
}

#[derive(Debug)]
pub struct SpySection {
    pub shared: Arc<Shared>,
    pub name: &'static str,
}

impl CustomSection for SpySection {
    fn name(&self) -> &str {
        self.name
    }
    fn data(&self, ids: &IdsToIndices) -> Cow<[u8]> {
        *self.shared.data_calls.lock().unwrap() += 1;
        if let Some(ask) = self.shared.ask.lock().unwrap().clone() {
            let ans = EmitAnswers {
                funcs: ask.funcs.iter().map(|(id, _)| (*id, ids.get_func_index(*id))).collect(),
                types: ask.types.iter().map(|(id, _)| (*id, ids.get_type_index(*id))).collect(),
                tables: ask.tables.iter().map(|(id, _)| (*id, ids.get_table_index(*id))).collect(),
                mems: ask.mems.iter().map(|(id, _)| (*id, ids.get_memory_index(*id))).collect(),
                globals: ask.globals.iter().map(|(id, _)| (*id, ids.get_global_index(*id))).collect(),
                elems: ask.elems.iter().map(|(id, _)| (*id, ids.get_element_index(*id))).collect(),
                datas: ask.datas.iter().map(|(id, _)| (*id, ids.get_data_index(*id))).collect(),
            };
            *self.shared.answers.lock().unwrap() = Some(ans);
        }
        Cow::Borrowed(&[])
    }
    fn apply_code_transform(&mut self, t: &CodeTransform) {
        *self.shared.transform_calls.lock().unwrap() += 1;
        *self.shared.transform.lock().unwrap() = Some(Transform {
            instruction_map: t
                .instruction_map
                .iter()
                .map(|(l, o)| (if l.is_default() { None } else { Some(l.data()) }, *o))
                .collect(),
            code_section_start: t.code_section_start,
            function_ranges: t.function_ranges.clone(),
        });
    }
}

fn collect<T: Copy>(get: impl Fn(u32) -> walrus::Result<T>, what: &str, bad: &mut Vec<String>) -> Vec<T> {
    let mut v = Vec::new();
    let mut i = 0u32;
    loop {
        match get(i) {
            Ok(x) => v.push(x),
            Err(_) => break,
        }
        i += 1;
        if i > 2_000_000 {
            break;
        }
    }
    for probe in [i + 7, u32::MAX] {
        if get(probe).is_ok() {
            bad.push(format!("{} index {} answered although only {} exist", what, probe, i));
        }
    }
    v
}

/// Configure `cfg` so that parsing records the index map and installs the spy.
pub fn install(cfg: &mut ModuleConfig, n_locals_hint: Vec<usize>) -> Arc<Shared> {
    install_named(cfg, n_locals_hint, "verif-spy")
}

/// as `install`, with the spy section under a chosen name (tool-convention
/// names such as `dylink.0` included: the map must be complete for them too)
pub fn install_named(cfg: &mut ModuleConfig, n_locals_hint: Vec<usize>, spy_name: &'static str) -> Arc<Shared> {
    let shared = Arc::new(Shared::default());
    let s2 = shared.clone();
    cfg.on_parse(move |module, indices| {
        let mut bad = Vec::new();
        let mut ids = ParseIds {
            funcs: collect(|i| indices.get_func(i), "function", &mut bad),
            types: collect(|i| indices.get_type(i), "type", &mut bad),
            tables: collect(|i| indices.get_table(i), "table", &mut bad),
            mems: collect(|i| indices.get_memory(i), "memory", &mut bad),
            globals: collect(|i| indices.get_global(i), "global", &mut bad),
            elems: collect(|i| indices.get_element(i), "element", &mut bad),
            datas: collect(|i| indices.get_data(i), "data", &mut bad),
            locals: vec![],
            out_of_range_ok: vec![],
        };
        for (fi, f) in ids.funcs.iter().enumerate() {
            let mut ls = Vec::new();
            let want = n_locals_hint.get(fi).copied().unwrap_or(0);
            let mut l = 0u32;
            loop {
                match indices.get_local(*f, l) {
                    Ok(x) => ls.push(x),
                    Err(_) => break,
                }
                l += 1;
                if l as usize > want + 8 {
                    break;
                }
            }
            ids.locals.push(ls);
        }
        ids.out_of_range_ok = bad;
        *s2.parse_ids.lock().unwrap() = Some(ids);
        module.customs.add(SpySection { shared: s2.clone(), name: spy_name });
        Ok(())
    });
    shared
}

/// Before emitting: tell the spy which ids are alive so that it only asks the
/// emit-time map about those.
pub fn ask_about_live(shared: &Shared, m: &Module) {
    let ids = match shared.parse_ids.lock().unwrap().clone() {
        Some(i) => i,
        None => return,
    };
    let live_f: std::collections::HashSet<FunctionId> = m.funcs.iter().map(|f| f.id()).collect();
    let live_t: std::collections::HashSet<TypeId> = m.types.iter().map(|f| f.id()).collect();
    let live_tab: std::collections::HashSet<TableId> = m.tables.iter().map(|f| f.id()).collect();
    let live_m: std::collections::HashSet<MemoryId> = m.memories.iter().map(|f| f.id()).collect();
    let live_g: std::collections::HashSet<GlobalId> = m.globals.iter().map(|f| f.id()).collect();
    let live_e: std::collections::HashSet<ElementId> = m.elements.iter().map(|f| f.id()).collect();
    let live_d: std::collections::HashSet<DataId> = m.data.iter().map(|f| f.id()).collect();
    let ask = EmitAnswers {
        funcs: ids.funcs.iter().filter(|i| live_f.contains(i)).map(|i| (*i, 0)).collect(),
        types: ids.types.iter().filter(|i| live_t.contains(i)).map(|i| (*i, 0)).collect(),
        tables: ids.tables.iter().filter(|i| live_tab.contains(i)).map(|i| (*i, 0)).collect(),
        mems: ids.mems.iter().filter(|i| live_m.contains(i)).map(|i| (*i, 0)).collect(),
        globals: ids.globals.iter().filter(|i| live_g.contains(i)).map(|i| (*i, 0)).collect(),
        elems: ids.elems.iter().filter(|i| live_e.contains(i)).map(|i| (*i, 0)).collect(),
        datas: ids.datas.iter().filter(|i| live_d.contains(i)).map(|i| (*i, 0)).collect(),
    };
    *shared.ask.lock().unwrap() = Some(ask);
}

/// A custom section whose payload is the code transform it was handed: with
/// it, a wrong transform becomes a difference in the emitted bytes (C09).
#[derive(Debug, Default)]
pub struct EchoSection {
    pub payload: Vec<u8>,
}

impl CustomSection for EchoSection {
    fn name(&self) -> &str {
        "verif-echo"
    }
    fn data(&self, _: &IdsToIndices) -> Cow<[u8]> {
        Cow::Owned(self.payload.clone())
    }
    fn apply_code_transform(&mut self, t: &CodeTransform) {
        let mut out = Vec::new();
        out.extend_from_slice(&(t.code_section_start as u64).to_le_bytes());
        let mut fr: Vec<(usize, usize, usize)> = t.function_ranges.iter().map(|(id, r)| (id.index(), r.start, r.end)).collect();
        fr.sort();
        for (i, s, e) in fr {
            out.extend_from_slice(&(i as u32).to_le_bytes());
            out.extend_from_slice(&(s as u32).to_le_bytes());
            out.extend_from_slice(&(e as u32).to_le_bytes());
        }
        let mut im: Vec<(u32, usize)> = t
            .instruction_map
            .iter()
            .map(|(l, o)| (if l.is_default() { u32::MAX } else { l.data() }, *o))
            .collect();
        im.sort();
        for (l, o) in im {
            out.extend_from_slice(&l.to_le_bytes());
            out.extend_from_slice(&(o as u32).to_le_bytes());
        }
        self.payload = out;
    }
}
