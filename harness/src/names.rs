//! Decode of the `name` custom section (wasmparser only).

use std::collections::BTreeMap;

#[derive(Clone, Debug, Default, PartialEq)]
pub struct Names {
    pub module: Option<String>,
    pub funcs: BTreeMap<u32, String>,
    pub locals: BTreeMap<(u32, u32), String>,
    pub types: BTreeMap<u32, String>,
    pub tables: BTreeMap<u32, String>,
    pub mems: BTreeMap<u32, String>,
    pub globals: BTreeMap<u32, String>,
    pub elems: BTreeMap<u32, String>,
    pub datas: BTreeMap<u32, String>,
    pub present: bool,
    pub other_subsections: usize,
}

fn map(m: wasmparser::NameMap) -> anyhow::Result<BTreeMap<u32, String>> {
    let mut out = BTreeMap::new();
    for n in m {
        let n = n?;
        out.insert(n.index, n.name.to_string());
    }
    Ok(out)
}

pub fn decode_names(bytes: &[u8]) -> anyhow::Result<Names> {
    let mut out = Names::default();
    for p in wasmparser::Parser::new(0).parse_all(bytes) {
        if let wasmparser::Payload::CustomSection(s) = p? {
            if s.name() != "name" {
                continue;
            }
            out.present = true;
            let r = wasmparser::NameSectionReader::new(wasmparser::BinaryReader::new(
                s.data(),
                s.data_offset(),
                wasmparser::WasmFeatures::all(),
            ));
            for sub in r {
                match sub? {
                    wasmparser::Name::Module { name, .. } => out.module = Some(name.to_string()),
                    wasmparser::Name::Function(m) => out.funcs.extend(map(m)?),
                    wasmparser::Name::Type(m) => out.types.extend(map(m)?),
                    wasmparser::Name::Table(m) => out.tables.extend(map(m)?),
                    wasmparser::Name::Memory(m) => out.mems.extend(map(m)?),
                    wasmparser::Name::Global(m) => out.globals.extend(map(m)?),
                    wasmparser::Name::Element(m) => out.elems.extend(map(m)?),
                    wasmparser::Name::Data(m) => out.datas.extend(map(m)?),
                    wasmparser::Name::Local(m) => {
                        for f in m {
                            let f = f?;
                            for n in f.names {
                                let n = n?;
                                out.locals.insert((f.index, n.index), n.name.to_string());
                            }
                        }
                    }
                    _ => out.other_subsections += 1,
                }
            }
        }
    }
    Ok(out)
}
