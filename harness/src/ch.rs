//! Choice stream: every random decision of every generator is read from a
//! byte string, so proptest / libFuzzer own all randomness and shrinking a
//! byte string shrinks the case. Byte 0 always selects the first (simplest)
//! alternative; an exhausted stream yields zeros.

pub struct Ch<'a> {
    d: &'a [u8],
    p: usize,
}

impl<'a> Ch<'a> {
    pub fn new(d: &'a [u8]) -> Ch<'a> {
        Ch { d, p: 0 }
    }
    pub fn exhausted(&self) -> bool {
        self.p >= self.d.len()
    }
    pub fn remaining(&self) -> usize {
        self.d.len().saturating_sub(self.p)
    }
    pub fn byte(&mut self) -> u8 {
        let b = self.d.get(self.p).copied().unwrap_or(0);
        self.p += 1;
        b
    }
    /// uniform-ish in 0..n, monotone in the consumed byte(s)
    pub fn below(&mut self, n: usize) -> usize {
        if n <= 1 {
            return 0;
        }
        if n <= 256 {
            (self.byte() as usize * n) >> 8
        } else {
            let v = ((self.byte() as usize) << 8) | self.byte() as usize;
            ((v as u64 * n as u64) >> 16) as usize
        }
    }
    pub fn range(&mut self, lo: usize, hi_incl: usize) -> usize {
        lo + self.below(hi_incl - lo + 1)
    }
    pub fn bool(&mut self) -> bool {
        self.byte() & 1 == 1
    }
    /// true with probability about num/den (false on a zero byte)
    pub fn chance(&mut self, num: usize, den: usize) -> bool {
        let b = self.byte() as usize;
        num >= den || b * den >= (den - num) * 256
    }
    pub fn pick<'b, T>(&mut self, xs: &'b [T]) -> &'b T {
        &xs[self.below(xs.len())]
    }
    pub fn u32(&mut self) -> u32 {
        u32::from_le_bytes([self.byte(), self.byte(), self.byte(), self.byte()])
    }
    pub fn u64(&mut self) -> u64 {
        (self.u32() as u64) | ((self.u32() as u64) << 32)
    }
    pub fn bytes(&mut self, n: usize) -> Vec<u8> {
        (0..n).map(|_| self.byte()).collect()
    }
}

pub const I32_POOL: &[i32] = &[
    0, 1, -1, 2, 3, 7, 8, 16, 31, 32, 63, 64, -64, -65, 100, 127, 128, 255, 256, 1000, 8191, 8192,
    65535, 65536, 0x7fff_ffff, -0x8000_0000, 0x7fff_ff80u32 as i32, 0x1234_5678, -2, 10,
];
pub const I64_POOL: &[i64] = &[
    0, 1, -1, 2, 3, 7, 8, 31, 32, 63, 64, -64, -65, 127, 128, 255, 256, 65535, 65536, 0x7fff_ffff,
    -0x8000_0000, 0xffff_ffff, 0x1_0000_0000, i64::MAX, i64::MIN, 0x0123_4567_89ab_cdef, -2, 10,
];
pub const F32_POOL: &[u32] = &[
    0, 0x8000_0000, 0x3f80_0000, 0xbf80_0000, 0x4000_0000, 0x3f00_0000, 0x7f80_0000, 0xff80_0000,
    0x7fc0_0000, 0xffc0_0000, 0x7fa0_0000, 0x7f80_0001, 0x0000_0001, 0x0080_0000, 0x4f00_0000,
    0xcf00_0000, 0x4049_0fdb, 0x5f00_0000, 0x7f7f_ffff, 0x4b00_0000,
];
pub const F64_POOL: &[u64] = &[
    0, 0x8000_0000_0000_0000, 0x3ff0_0000_0000_0000, 0xbff0_0000_0000_0000, 0x4000_0000_0000_0000,
    0x3fe0_0000_0000_0000, 0x7ff0_0000_0000_0000, 0xfff0_0000_0000_0000, 0x7ff8_0000_0000_0000,
    0xfff8_0000_0000_0000, 0x7ff4_0000_0000_0000, 0x7ff0_0000_0000_0001, 0x1, 0x0010_0000_0000_0000,
    0x41e0_0000_0000_0000, 0xc1e0_0000_0000_0000, 0x4009_21fb_5444_2d18, 0x43e0_0000_0000_0000,
    0x7fef_ffff_ffff_ffff, 0x7ff0_0000_2000_0000,
];
