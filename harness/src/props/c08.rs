//! C08 — emission is deterministic, repeatable and a fixpoint.

use super::*;
use crate::decode::raw_sections;
use crate::optable::validate_walrus;
use crate::wal;
use serde_json::json;

pub fn def() -> PropDef {
    PropDef {
        id: "C08",
        run,
        check,
        meta,
    }
}

fn meta(_ctx: &Ctx) -> EvidenceMeta {
    EvidenceMeta {
        rule: "accepted modules (generated with custom sections, fixtures, real corpus); per module: emit three times on one Module value, emit from two fresh parses, emit in a fresh process (1 case in 64), and emit(parse(emit(m))); non-trivial = module has a custom section, or >=2 functions, or >=2 types; distinct by module bytes. Oracle: byte equality.".into(),
        assumptions: vec!["the fresh-process comparison re-executes this binary on the same input (different hasher seeds, different ASLR)".into()],
        level: "exploration",
        exhaustive: false,
    }
}

fn first_diff(a: &[u8], b: &[u8]) -> String {
    let (sa, sb) = match (raw_sections(a), raw_sections(b)) {
        (Ok(x), Ok(y)) => (x, y),
        _ => return "unparsable".into(),
    };
    let name = |s: &crate::decode::RawSection| match &s.name {
        Some(n) if s.id == 0 => {
            if n.starts_with(".debug") {
                "custom:.debug*".to_string()
            } else if n == "name" || n == "producers" {
                format!("custom:{}", n)
            } else {
                "custom:other".to_string()
            }
        }
        _ => format!("section-{}", s.id),
    };
    for (x, y) in sa.iter().zip(sb.iter()) {
        if x.id != y.id || a[x.whole.clone()] != b[y.whole.clone()] {
            if x.id == y.id {
                return format!("{}-differs", name(x));
            }
            return format!("{}-vs-{}", name(x), name(y));
        }
    }
    if sa.len() > sb.len() {
        return format!("{}-missing", name(&sa[sb.len()]));
    }
    if sb.len() > sa.len() {
        return format!("{}-extra", name(&sb[sa.len()]));
    }
    "identical".into()
}

pub fn emit_hash(bytes: &[u8]) -> Option<u64> {
    let cfg = wal::Cfg::plain().to_config();
    let mut m = wal::parse(bytes, &cfg).ok()?.ok()?;
    let b = wal::emit(&mut m).ok()?;
    Some(fnv(&b))
}

pub fn check(_ctx: &Ctx, input: &Input) -> CaseResult {
    let mut out = CaseOut::default();
    let mut p = match prepare(input) {
        Some(p) => p,
        None => return Ok(out),
    };
    // sections walrus interprets but can only partly read (it warns and keeps
    // what it read): a `producers` section whose second field is truncated, a
    // `name` section whose second subsection is; whatever walrus makes of them
    // must be stable from the first output on
    match fnv(&p.bytes) % 8 {
        5 => {
            let payload = [&[9u8][..], b"producers", &[2, 8], b"language", &[1, 1, b'C', 1, b'1', 10], b"proc"].concat();
            p.bytes.push(0);
            p.bytes.push(payload.len() as u8);
            p.bytes.extend(payload);
            out.label("input:half-readable-producers-section");
        }
        6 => {
            let payload = [&[4u8][..], b"name", &[1, 4, 1, 0, 1, b'z', 2, 5, 1, 0]].concat();
            p.bytes.push(0);
            p.bytes.push(payload.len() as u8);
            p.bytes.extend(payload);
            out.label("input:half-readable-name-section");
        }
        _ => {}
    }
    out.hash = fnv(&p.bytes);
    if let Some(s) = &p.spec {
        feature_labels(&mut out, s);
    }
    if validate_walrus(&p.bytes).is_err() {
        out.label("skip:input-invalid");
        return Ok(out);
    }
    let synthetic = out.hash % 4 == 1;
    if synthetic {
        out.label("config:synthetic-names");
    }
    let cfg = wal::Cfg {
        synthetic_names: synthetic,
        ..wal::Cfg::plain()
    }
    .to_config();
    let mut m = match wal::parse(&p.bytes, &cfg) {
        Ok(Ok(m)) => m,
        Ok(Err(_)) => {
            out.label("skip:walrus-rejected(C05)");
            return Ok(out);
        }
        Err(_) => {
            out.label("skip:parse-panic(C05)");
            return Ok(out);
        }
    };
    let b1 = match wal::emit(&mut m) {
        Ok(b) => b,
        Err(_) => {
            out.label("skip:emit-panic(C02)");
            return Ok(out);
        }
    };
    for k in 2..=3 {
        let bk = wal::emit(&mut m).map_err(|f| {
            Failure::new(format!("repeat-emit-{}", f.signature), format!("emit #{} panicked: {} [{}]", k, f.detail, p.origin))
        })?;
        if bk != b1 {
            return Err(Failure::new(
                format!("repeat-emit-differs:{}", first_diff(&b1, &bk)),
                format!("emit #{} on the same Module differs from emit #1 ({} vs {} bytes) [{}]", k, bk.len(), b1.len(), p.origin),
            ));
        }
    }
    // fresh parse, same process
    if let Ok(Ok(mut m2)) = wal::parse(&p.bytes, &cfg) {
        if let Ok(b) = wal::emit(&mut m2) {
            if b != b1 {
                return Err(Failure::new(
                    format!("fresh-parse-differs:{}", first_diff(&b1, &b)),
                    format!("two parses of the same input emit different bytes [{}]", p.origin),
                ));
            }
        }
    }
    // fresh process, 1 in 16
    if out.hash % 64 == 0 {
        out.label("fresh-process-compared");
        if let Ok(exe) = std::env::current_exe() {
            let tmp = std::env::temp_dir().join(format!("walrus-verif-c08-{}-{:x}.wasm", std::process::id(), out.hash));
            if std::fs::write(&tmp, &p.bytes).is_ok() {
                let o = std::process::Command::new(exe).arg("emit-hash").arg(&tmp).output();
                let _ = std::fs::remove_file(&tmp);
                if let Ok(o) = o {
                    let s = String::from_utf8_lossy(&o.stdout);
                    if let Ok(h) = s.trim().parse::<u64>() {
                        if h != fnv(&b1) {
                            return Err(Failure::new(
                                "fresh-process-differs",
                                format!("a fresh process emits different bytes for the same input [{}]", p.origin),
                            ));
                        }
                    }
                }
            }
        }
    }
    // history: emit, then edit, then emit must equal (fresh parse) edit, emit —
    // an earlier emit may leave nothing behind that later emits can see
    {
        let h = out.hash;
        let eb: Vec<u8> = (0..48).map(|i| (mix(h, 1000 + i) >> 21) as u8).collect();
        let edit = |m: &mut walrus::Module| -> Option<usize> {
            let mut ch = crate::ch::Ch::new(&eb);
            let n = 2 + ch.below(6);
            let mut done = 0;
            for _ in 0..n {
                if crate::edits::insert_const_drop(m, &mut ch).is_some() {
                    done += 1;
                }
            }
            Some(done)
        };
        if let Ok(Some(k)) = guard("edit", || edit(&mut m)) {
            if k > 0 {
                if let (Ok(after_emit), Ok(Ok(mut fresh))) = (wal::emit(&mut m), wal::parse(&p.bytes, &cfg)) {
                    if let Ok(Some(_)) = guard("edit", || edit(&mut fresh)) {
                        if let Ok(reference) = wal::emit(&mut fresh) {
                            out.label("history:emit-edit-emit");
                            if reference != after_emit {
                                return Err(Failure::new(
                                    format!("emit-leaves-state-behind:{}", first_diff(&reference, &after_emit)),
                                    format!(
                                        "emit; edit; emit gives {} bytes, a fresh parse with the same edit gives {} bytes: the first emit influenced the second [{}]",
                                        after_emit.len(),
                                        reference.len(),
                                        p.origin
                                    ),
                                ));
                            }
                        }
                    }
                }
            }
        }
    }
    // fixpoint
    match wal::parse(&b1, &cfg) {
        Ok(Ok(mut m3)) => {
            if let Ok(b4) = wal::emit(&mut m3) {
                if b4 != b1 {
                    return Err(Failure::new(
                        format!("not-a-fixpoint:{}", first_diff(&b1, &b4)),
                        format!("emit(parse(out)) != out ({} vs {} bytes) [{}]", b4.len(), b1.len(), p.origin),
                    ));
                }
            }
        }
        _ => {
            out.label("skip:output-rejected(C02)");
            return Ok(out);
        }
    }
    // the output of parse > GC > emit is walrus's own output as well: it is
    // repeatable on the same Module and a fixpoint of the round trip
    if let Ok(Ok(mut mg)) = wal::parse(&p.bytes, &cfg) {
        if wal::gc(&mut mg).is_ok() {
            if let Ok(g1) = wal::emit(&mut mg) {
                if let Ok(g2) = wal::emit(&mut mg) {
                    if g2 != g1 {
                        return Err(Failure::new(
                            format!("repeat-emit-differs:after-gc:{}", first_diff(&g1, &g2)),
                            format!("second emit after GC differs from the first ({} vs {} bytes) [{}]", g2.len(), g1.len(), p.origin),
                        ));
                    }
                }
                if let Ok(Ok(mut m5)) = wal::parse(&g1, &cfg) {
                    if let Ok(g3) = wal::emit(&mut m5) {
                        if g3 != g1 {
                            return Err(Failure::new(
                                format!("not-a-fixpoint:after-gc:{}", first_diff(&g1, &g3)),
                                format!("out = emit(gc(parse(in))); emit(parse(out)) != out ({} vs {} bytes) [{}]", g3.len(), g1.len(), p.origin),
                            ));
                        }
                        out.label("gc-output-fixpoint-compared");
                    }
                }
            }
        }
    }
    // with DWARF generation on, walrus's own output (second generation) is a
    // fixpoint as well: one case in eight carries LLVM-like DWARF with nested DIEs
    if out.hash % 8 == 3 {
        let mut dch = crate::ch::Ch::new(&p.bytes[..p.bytes.len().min(64)]);
        if let Some(with) = crate::dwarf::attach_dwarf_simple(&p.bytes, &mut dch) {
            let dcfg = wal::Cfg { dwarf: true, ..wal::Cfg::plain() };
            let gen = |b: &[u8]| -> Option<Vec<u8>> { wal::roundtrip(b, dcfg, false).ok().flatten() };
            if let Some(g1) = gen(&with) {
                if let Some(g2) = gen(&g1) {
                    if let Some(g3) = gen(&g2) {
                        if g3 != g2 {
                            return Err(Failure::new(
                                format!("not-a-fixpoint:dwarf:{}", first_diff(&g2, &g3)),
                                format!("with DWARF generation on, emit(parse(out2)) != out2 for walrus's own second-generation output ({} vs {} bytes) [{}]", g3.len(), g2.len(), p.origin),
                            ));
                        }
                        out.label("dwarf-fixpoint-compared");
                    }
                }
            }
        }
    }
    let secs = raw_sections(&p.bytes).unwrap_or_default();
    let n_custom = secs.iter().filter(|s| s.id == 0).count();
    let d = crate::decode::decode(&p.bytes).ok();
    let (nf, nt) = d.map(|d| (d.funcs.len(), d.types.len())).unwrap_or((0, 0));
    out.nontrivial = n_custom > 0 || nf >= 2 || nt >= 2;
    if n_custom > 0 {
        out.label("has-custom-sections");
    }
    if out.nontrivial {
        out.sample = Some(json!({"origin": p.origin, "bytes": p.bytes.len(), "custom_sections": n_custom, "functions": nf, "types": nt, "output_bytes": b1.len()}));
    }
    Ok(out)
}

fn run(ctx: &Ctx) {
    let plans = [GenPlan {
        gen: "full-nobig",
        cases: ctx.tier.pick(100_000, 1_000_000),
        min_len: 0,
        max_len: ctx.tier.pick(1200, 3000),
    }];
    standard_run(ctx, check, &plans, true);
}
