//! C05 — parsing is a total, sound and complete validation gate.

use super::*;
use crate::ch::Ch;
use crate::optable::{validate_with, walrus_features};
use crate::wal;
use serde_json::json;
use wasm_encoder as we;

pub fn def() -> PropDef {
    PropDef {
        id: "C05",
        run,
        check,
        meta,
    }
}

fn meta(_ctx: &Ctx) -> EvidenceMeta {
    EvidenceMeta {
        rule: "byte strings: random bytes behind a wasm header, 0-3 byte/structure-level mutations of generated modules and corpus members (bit flips, truncation, LEB padding, section swap/dup/drop/retag, foreign sections, foreign opcodes and value types), truncations of corpus members at every 7th offset, and deep-nesting inputs parsed in a child process; x {default, only_stable_features}. non-trivial = the reference validator got past the header (input has >= 1 well-formed section) ; distinct by input bytes. Oracle: no unwind; walrus Ok <=> wasmparser::Validator(feature set documented for the config) Ok; child killed by a signal = stack overflow = violation; watchdog = inconclusive; a deep input that costs more than 3 s of CPU time is re-run at a quarter of the depth and a cost ratio above 10 (linear: 4, quadratic: 16) is a violation of 'never hangs'.".into(),
        assumptions: vec![
            "the supported feature set is re-stated in the harness from walrus's documentation (optable::walrus_features), not read from walrus".into(),
            "memory exhaustion is outside the statement and never reported".into(),
        ],
        level: "exploration",
        exhaustive: false,
    }
}

fn verdicts(bytes: &[u8], out: &mut CaseOut, origin: &str) -> Result<(bool, bool), Failure> {
    let mut res = [false, false];
    for (i, stable) in [false, true].iter().enumerate() {
        let cfg = wal::Cfg {
            only_stable: *stable,
            ..wal::Cfg::plain()
        };
        // the same settings reached directly, through a clone of the
        // configuration object, or through a setter history that first sets
        // switches the other way (strict validation stays on)
        let h = fnv(bytes);
        let mc = match h % 3 {
            0 => cfg.to_config(),
            1 => cfg.to_config().clone(),
            _ => cfg.to_config_hist((h >> 8) as u8 & 0b11110),
        };
        // ... and one case in eight goes through the file entry point
        let via_file = (h >> 16) % 8 == 7;
        let parsed = if via_file {
            let path = std::env::temp_dir().join(format!("walrus-verif-c05-{}-{:?}.wasm", std::process::id(), std::thread::current().id()));
            if std::fs::write(&path, bytes).is_ok() {
                let r = crate::run::guard("parse", || mc.parse_file(&path).map_err(|e| format!("{:#}", e)));
                let _ = std::fs::remove_file(&path);
                r
            } else {
                wal::parse(bytes, &mc)
            }
        } else {
            wal::parse(bytes, &mc)
        };
        let w = parsed.map_err(|f| {
            Failure::new(
                f.signature.clone(),
                format!("{} [stable={} {} {} bytes]", f.detail, stable, origin, bytes.len()),
            )
        })?;
        let v = validate_with(bytes, walrus_features(*stable));
        match (&w, &v) {
            (Ok(_), Ok(())) => {
                res[i] = true;
            }
            (Err(_), Err(_)) => {}
            (Ok(_), Err(e)) => {
                return Err(Failure::new(
                    format!("unsound-accept:{}", super::c02::normalise_msg(e)),
                    format!(
                        "walrus (only_stable={}) accepted bytes the reference validator rejects: {} [{}]",
                        stable, e, origin
                    ),
                ));
            }
            (Err(e), Ok(())) => {
                return Err(Failure::new(
                    format!("incomplete-reject:{}", super::c02::normalise_msg(&first_line(e))),
                    format!(
                        "walrus (only_stable={}) rejected a module the reference validator accepts: {} [{}]",
                        stable, e, origin
                    ),
                ));
            }
        }
        drop(w);
    }
    if res[0] && !res[1] {
        out.label("needs-unstable-feature");
    }
    Ok((res[0], res[1]))
}

fn first_line(s: &str) -> String {
    // anyhow chain "a: b: c" — the innermost cause names the root
    s.rsplit(": ").next().unwrap_or(s).to_string()
}

pub fn materialise(input: &Input, out: &mut CaseOut) -> Option<(Vec<u8>, String)> {
    match input {
        Input::Choices { gen, bytes } => match gen.as_str() {
            "bytes" => {
                let mut b = vec![0, 0x61, 0x73, 0x6d, 1, 0, 0, 0];
                if bytes.first().map(|x| x % 8 == 7).unwrap_or(false) {
                    b.clear();
                }
                b.extend(bytes.iter().skip(1));
                Some((b, "random-bytes".to_string()))
            }
            _ => {
                // mutant: header byte = number of mutations, 24 bytes of
                // mutation choices, rest generates the module
                let n = (bytes.first().copied().unwrap_or(0) % 4) as usize;
                let mb: Vec<u8> = bytes.iter().skip(1).take(24).copied().collect();
                let rest: Vec<u8> = bytes.iter().skip(25).copied().collect();
                let g = crate::gen::generate(&rest, &cfg_for("full"));
                let mut b = g.bytes;
                let mut ch = Ch::new(&mb);
                for _ in 0..n {
                    let m = crate::mutate::mutate_once(&mut b, &mut ch);
                    out.label(format!("mut:{}", m));
                }
                if n == 0 {
                    out.label("mut:none");
                }
                Some((b, format!("mutant({})", n)))
            }
        },
        Input::Wasm { origin, bytes } => Some((bytes.clone(), origin.clone())),
        Input::Json(_) => None,
    }
}

pub fn check(_ctx: &Ctx, input: &Input) -> CaseResult {
    let mut out = CaseOut::default();
    if let Input::Json(v) = input {
        if let Some(k) = v.get("deep").and_then(|x| x.as_str()) {
            return deep_case(k);
        }
        return Ok(out);
    }
    let (bytes, origin) = match materialise(input, &mut out) {
        Some(x) => x,
        None => return Ok(out),
    };
    out.hash = fnv(&bytes);
    let (a, _s) = verdicts(&bytes, &mut out, &origin)?;
    out.label(if a { "verdict:accepted" } else { "verdict:rejected" });
    // non-trivial: at least one well-formed section after the header
    let past_header = crate::decode::raw_sections(&bytes).map(|s| !s.is_empty()).unwrap_or(false)
        || (bytes.len() > 8 && bytes.starts_with(b"\0asm"));
    out.nontrivial = past_header;
    if !a && past_header {
        out.label("rejected-after-header");
    }
    if out.hash % 64 == 0 {
        out.sample = Some(json!({"origin": origin, "bytes": bytes.len(), "accepted": a, "head": bytes.iter().take(24).map(|b| format!("{:02x}", b)).collect::<String>()}));
    }
    Ok(out)
}

// ---- deep nesting, in a child process ----

fn deep_module(kind: &str) -> Vec<u8> {
    deep_module_n(kind, 100_000)
}

fn deep_module_n(kind: &str, n: usize) -> Vec<u8> {
    let mut m = we::Module::new();
    let mut t = we::TypeSection::new();
    t.function(vec![], vec![]);
    m.section(&t);
    let mut f = we::FunctionSection::new();
    f.function(0);
    m.section(&f);
    let mut code = we::CodeSection::new();
    if kind == "huge-locals" {
        // invalid: one local group declaring u32::MAX locals; must be rejected
        // quickly, not allocated
        let mut body = Vec::new();
        body.push(1u8); // one group
        body.extend_from_slice(&[0xff, 0xff, 0xff, 0xff, 0x0f]); // count = u32::MAX
        body.push(0x7f); // i32
        body.push(0x0b); // end
        let mut c = we::CodeSection::new();
        c.raw(&body);
        m.section(&c);
        return m.finish();
    }
    let mut func = match kind {
        "locals" => we::Function::new((0..50_000).map(|i| (1u32, if i % 2 == 0 { we::ValType::I32 } else { we::ValType::I64 }))),
        _ => we::Function::new(vec![]),
    };
    match kind {
        "blocks" => {
            for _ in 0..n {
                func.instruction(&we::Instruction::Block(we::BlockType::Empty));
            }
            for _ in 0..n {
                func.instruction(&we::Instruction::End);
            }
        }
        "loops" => {
            for _ in 0..n {
                func.instruction(&we::Instruction::Loop(we::BlockType::Empty));
            }
            for _ in 0..n {
                func.instruction(&we::Instruction::End);
            }
        }
        "ifs" => {
            for _ in 0..n {
                func.instruction(&we::Instruction::I32Const(1));
                func.instruction(&we::Instruction::If(we::BlockType::Empty));
            }
            for _ in 0..n {
                func.instruction(&we::Instruction::End);
            }
        }
        "if-else" => {
            for _ in 0..n / 2 {
                func.instruction(&we::Instruction::I32Const(1));
                func.instruction(&we::Instruction::If(we::BlockType::Empty));
                func.instruction(&we::Instruction::Else);
            }
            for _ in 0..n / 2 {
                func.instruction(&we::Instruction::End);
            }
        }
        "dead-blocks" => {
            func.instruction(&we::Instruction::Unreachable);
            for _ in 0..n {
                func.instruction(&we::Instruction::Block(we::BlockType::Empty));
            }
            for _ in 0..n {
                func.instruction(&we::Instruction::End);
            }
        }
        "br_table" => {
            func.instruction(&we::Instruction::I32Const(0));
            func.instruction(&we::Instruction::BrTable(vec![0u32; n].into(), 0));
        }
        "locals" => {}
        "huge-locals" => {}
        "wide" => {
            // one sequence of 70 000 instructions with a block near its end
            for _ in 0..35_000 {
                func.instruction(&we::Instruction::I32Const(1));
                func.instruction(&we::Instruction::Drop);
            }
            func.instruction(&we::Instruction::Block(we::BlockType::Empty));
            func.instruction(&we::Instruction::I32Const(2));
            func.instruction(&we::Instruction::Drop);
            func.instruction(&we::Instruction::End);
            func.instruction(&we::Instruction::I32Const(3));
            func.instruction(&we::Instruction::Drop);
        }
        "unclosed-blocks" => {
            // invalid: never closed
            for _ in 0..n {
                func.instruction(&we::Instruction::Block(we::BlockType::Empty));
            }
        }
        _ => {}
    }
    func.instruction(&we::Instruction::End);
    code.function(&func);
    m.section(&code);
    m.finish()
}

pub fn deep_module_pub(kind: &str) -> Vec<u8> {
    deep_module(kind)
}

pub const DEEP_KINDS: &[&str] = &[
    "blocks",
    "loops",
    "ifs",
    "if-else",
    "dead-blocks",
    "br_table",
    "locals",
    "huge-locals",
    "wide",
    "unclosed-blocks",
];

/// Runs in the child: parse (and, when accepted, emit) on the main thread.
pub fn child_main(path: &str) -> i32 {
    let bytes = match std::fs::read(path) {
        Ok(b) => b,
        Err(_) => return 3,
    };
    let cfg = wal::Cfg::plain().to_config();
    let code = match cfg.parse(&bytes) {
        Ok(mut m) => {
            println!("accepted");
            println!("parse_cpu_ms {}", own_cpu_ms());
            let out = m.emit_wasm();
            println!("emitted {}", out.len());
            0
        }
        Err(_) => {
            println!("rejected");
            0
        }
    };
    println!("cpu_ms {}", own_cpu_ms());
    code
}

/// CPU time (user + system) this process has used so far, from
/// /proc/self/stat; unlike wall-clock time it does not grow with the load
/// other processes put on the machine
fn own_cpu_ms() -> u64 {
    let s = std::fs::read_to_string("/proc/self/stat").unwrap_or_default();
    // fields after the parenthesised command name; utime and stime are the
    // 14th and 15th fields of the line, in ticks of 10 ms
    let rest = s.rsplit(')').next().unwrap_or("");
    let f: Vec<&str> = rest.split_whitespace().collect();
    let t = |i: usize| f.get(i).and_then(|x| x.parse::<u64>().ok()).unwrap_or(0);
    (t(11) + t(12)) * 10
}

struct ChildRun {
    status: Option<std::process::ExitStatus>,
    stdout: String,
}

fn run_parse_child(bytes: &[u8], tag: &str) -> Option<ChildRun> {
    let exe = std::env::current_exe().ok()?;
    let tmp = std::env::temp_dir().join(format!("walrus-verif-deep-{}-{}.wasm", std::process::id(), tag));
    std::fs::write(&tmp, bytes).ok()?;
    // the child runs under a 6 GiB address-space limit: unbounded allocation
    // ends in an abort (signal) instead of taking the machine down
    let mut child = match std::process::Command::new("sh")
        .arg("-c")
        .arg("ulimit -v 6000000; exec \"$0\" parse-child \"$1\"")
        .arg(exe)
        .arg(&tmp)
        .stdout(std::process::Stdio::piped())
        .stderr(std::process::Stdio::null())
        .spawn()
    {
        Ok(c) => c,
        Err(_) => {
            let _ = std::fs::remove_file(&tmp);
            return None;
        }
    };
    let start = std::time::Instant::now();
    let status = loop {
        match child.try_wait() {
            Ok(Some(s)) => break Some(s),
            Ok(None) => {
                if start.elapsed().as_secs() > 120 {
                    let _ = child.kill();
                    let _ = child.wait();
                    break None;
                }
                std::thread::sleep(std::time::Duration::from_millis(20));
            }
            Err(_) => break None,
        }
    };
    let mut stdout = String::new();
    if let Some(mut o) = child.stdout.take() {
        use std::io::Read;
        let _ = o.read_to_string(&mut stdout);
    }
    let _ = std::fs::remove_file(&tmp);
    Some(ChildRun { status, stdout })
}

fn cpu_ms_of(stdout: &str) -> Option<u64> {
    stdout.lines().filter_map(|l| l.strip_prefix("cpu_ms ")).filter_map(|x| x.trim().parse().ok()).last()
}

fn deep_case(kind: &str) -> CaseResult {
    use std::os::unix::process::ExitStatusExt;
    let mut out = CaseOut::default();
    let bytes = deep_module(kind);
    out.hash = fnv(kind.as_bytes());
    let v = validate_with(&bytes, walrus_features(false)).is_ok();
    let run = match run_parse_child(&bytes, kind) {
        Some(r) => r,
        None => return Ok(out),
    };
    let (status, stdout) = (run.status, run.stdout);
    match status {
        None => {
            out.label(format!("deep:{}:watchdog-inconclusive", kind));
            Ok(out)
        }
        Some(s) => {
            if let Some(sig) = s.signal() {
                return Err(Failure::new(
                    format!("deep:{}:killed-by-signal", kind),
                    format!(
                        "parsing/emitting the deep '{}' module ({} bytes) in a child process (8 MiB main-thread stack, 6 GiB address space) died with signal {} (11 = stack overflow, 6 = abort, e.g. allocation failure after unbounded allocation); stdout so far: {:?}",
                        kind,
                        bytes.len(),
                        sig,
                        stdout.trim()
                    ),
                ));
            }
            if s.code() != Some(0) {
                return Err(Failure::new(
                    format!("deep:{}:panicked", kind),
                    format!("child exited with {:?} on deep '{}' module; stdout {:?}", s.code(), kind, stdout.trim()),
                ));
            }
            let accepted = stdout.contains("accepted");
            if accepted != v {
                return Err(Failure::new(
                    format!("deep:{}:verdict", kind),
                    format!("walrus accepted={} but reference validator accepted={} for deep '{}'", accepted, v, kind),
                ));
            }
            // "never hangs": time is not a verdict, growth is. When the
            // depth-100000 input costs more than 3 s of CPU time, the same
            // shape at a quarter of the depth is measured too; linear work
            // costs a quarter, quadratic work a sixteenth. More than a factor
            // of 10 between the two is reported (CPU time of the child, not
            // wall-clock time; nothing is decided below the 3 s floor).
            if let Some(big) = cpu_ms_of(&stdout) {
                out.label(format!("deep:{}:{}", kind, if big > 3000 { "cpu-time-above-3s-floor" } else { "cpu-time-below-3s-floor" }));
                if big > 3000 && kind != "huge-locals" {
                    let small_bytes = deep_module_n(kind, 25_000);
                    if let Some(r2) = run_parse_child(&small_bytes, &format!("{}-quarter", kind)) {
                        if let (Some(st), Some(small)) = (r2.status, cpu_ms_of(&r2.stdout)) {
                            if st.success() && big > 10 * small.max(20) {
                                return Err(Failure::new(
                                    format!("deep:{}:superlinear-time", kind),
                                    format!(
                                        "the deep '{}' module with 100000 levels costs {} ms of CPU time, with 25000 levels {} ms: a factor of {} for 4 times the input (linear work: 4, quadratic: 16); at this growth rate inputs of a few MiB do not finish",
                                        kind, big, small, big / small.max(1)
                                    ),
                                ));
                            }
                            out.label(format!("deep:{}:growth-measured", kind));
                        }
                    }
                }
            }
            out.nontrivial = true;
            out.label(format!("deep:{}:{}", kind, if accepted { "accepted" } else { "rejected" }));
            out.sample = Some(json!({"deep": kind, "bytes": bytes.len(), "accepted": accepted, "child": stdout.trim()}));
            Ok(out)
        }
    }
}

/// Hand-encoded modules using encodings that only later proposals allow.
pub fn edge_encodings() -> Vec<(&'static str, Vec<u8>)> {
    fn module(body: &[u8], with_table: bool) -> Vec<u8> {
        let mut m = we::Module::new();
        let mut t = we::TypeSection::new();
        t.function(vec![], vec![]);
        m.section(&t);
        let mut f = we::FunctionSection::new();
        f.function(0);
        m.section(&f);
        if with_table {
            let mut tb = we::TableSection::new();
            tb.table(we::TableType {
                element_type: we::RefType::FUNCREF,
                table64: false,
                minimum: 1,
                maximum: None,
                shared: false,
            });
            m.section(&tb);
        }
        let mut ms = we::MemorySection::new();
        ms.memory(we::MemoryType {
            minimum: 1,
            maximum: None,
            memory64: false,
            shared: false,
            page_size_log2: None,
        });
        m.section(&ms);
        let mut c = we::CodeSection::new();
        let mut entry = vec![0u8]; // no locals; the size prefix is added by `raw`
        entry.extend_from_slice(body);
        c.raw(&entry);
        m.section(&c);
        m.finish()
    }
    vec![
        ("memory.size-overlong-index", module(&[0x3f, 0x80, 0x00, 0x1a, 0x0b], false)),
        ("memory.grow-overlong-index", module(&[0x41, 0x00, 0x40, 0x80, 0x00, 0x1a, 0x0b], false)),
        ("load-explicit-memory-0", module(&[0x41, 0x00, 0x28, 0x42, 0x00, 0x00, 0x1a, 0x0b], false)),
        ("store-explicit-memory-0", module(&[0x41, 0x00, 0x41, 0x00, 0x36, 0x42, 0x00, 0x00, 0x0b], false)),
        ("call_indirect-overlong-table", module(&[0x41, 0x00, 0x11, 0x00, 0x80, 0x00, 0x0b], true)),
        ("memory.size-plain", module(&[0x3f, 0x00, 0x1a, 0x0b], false)),
        ("memory.fill-overlong-index", module(&[0x41, 0x00, 0x41, 0x00, 0x41, 0x00, 0xfc, 0x0b, 0x80, 0x00, 0x0b], false)),
        ("memory.copy-overlong-index", module(&[0x41, 0x00, 0x41, 0x00, 0x41, 0x00, 0xfc, 0x0a, 0x80, 0x00, 0x00, 0x0b], false)),
    ]
}

fn run(ctx: &Ctx) {
    // encodings at the edge of the feature sets
    let edge: Vec<Input> = edge_encodings()
        .into_iter()
        .map(|(n, b)| Input::Wasm {
            origin: format!("edge-encoding:{}", n),
            bytes: b,
        })
        .collect();
    run_inputs(ctx, &edge, &check);
    ctx.add_label("edge-encodings", edge.len() as u64);
    // deep inputs (child processes)
    let deep: Vec<Input> = DEEP_KINDS.iter().map(|k| Input::Json(json!({ "deep": k }))).collect();
    run_inputs(ctx, &deep, &check);
    // truncations of corpus members
    let mut trunc = Vec::new();
    for (o, b) in crate::corpus::all().iter() {
        if b.len() > 3000 {
            continue;
        }
        let step = ctx.tier.pick(7, 1);
        let mut i = 0;
        while i < b.len() {
            trunc.push(Input::Wasm {
                origin: format!("trunc@{}:{}", i, o),
                bytes: b[..i].to_vec(),
            });
            i += step;
        }
    }
    run_inputs(ctx, &trunc, &check);
    ctx.add_label("truncations", trunc.len() as u64);
    let plans = [
        GenPlan {
            gen: "mutant",
            cases: ctx.tier.pick(80_000, 3_000_000),
            min_len: 25,
            max_len: ctx.tier.pick(1200, 4000),
        },
        GenPlan {
            gen: "bytes",
            cases: ctx.tier.pick(20_000, 1_000_000),
            min_len: 0,
            max_len: 200,
        },
    ];
    standard_run(ctx, check, &plans, true);
}
