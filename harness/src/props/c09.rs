//! C09 — parallel and serial builds agree under every schedule.
//!
//! This check runs in the harness binary built with `--features parallel`
//! (walrus/parallel). The serial answers come from the serial build of the
//! same harness, run as a co-process ("c09-server") so that every generated
//! case is judged differentially and shrinks as usual.

use super::*;
use crate::ch::Ch;
use serde_json::json;
use std::io::{Read, Write};
use std::sync::Mutex;

pub fn def() -> PropDef {
    PropDef {
        id: "C09",
        run,
        check,
        meta,
    }
}

fn meta(_ctx: &Ctx) -> EvidenceMeta {
    EvidenceMeta {
        rule: "modules with 1-400 (thorough: 5000) functions of equal and unequal size, valid and mutated-invalid (errors inside some function bodies), with passive data + memory.init users; each parsed+emitted by the serial build (co-process) and by the parallel build inside rayon pools of 1,2,3,4,8,16 threads (alternately a fresh pool and a pool shared by all cases of the process, so worker threads see module after module), repeated, and again (pools 1,3,16) with the GC pass between parse and emit, with a custom section that echoes the code transform into the output, and with DWARF generation on for inputs carrying LLVM-like DWARF; one case in eight has a function body larger than 32 KiB, with seeded yields/sleeps injected from inside the parallel closures (on_instr_loc callback during parse, log sink on the per-function 'emit function' record during emit). non-trivial = module has >= 8 functions and pools with >= 2 threads ran; distinct by input bytes. Oracle: identical accept/reject decision and byte-identical output for every pool size and repeat.".into(),
        assumptions: vec![
            "rayon schedules are sampled with perturbation, not enumerated: a violation that needs one specific interleaving can be missed".into(),
            "the serial reference is the same harness built without walrus/parallel".into(),
        ],
        level: "exploration",
        exhaustive: false,
    }
}

/// serial side: read length-prefixed inputs on stdin, answer one line each
pub fn server_main() -> i32 {
    let stdin = std::io::stdin();
    let mut inp = stdin.lock();
    let stdout = std::io::stdout();
    let mut out = stdout.lock();
    loop {
        let mut lenb = [0u8; 4];
        if inp.read_exact(&mut lenb).is_err() {
            return 0;
        }
        let n = u32::from_le_bytes(lenb) as usize;
        let mut buf = vec![0u8; n];
        if inp.read_exact(&mut buf).is_err() {
            return 0;
        }
        // first byte: 0 = parse+emit, 1 = parse+GC+emit, 2 = parse+emit with
        // a section that echoes the code transform, 3 = DWARF generation on
        if buf.is_empty() {
            return 0;
        }
        let line = match serial_answer(&buf[1..], buf[0]) {
            Ok(Some(b)) => format!("ok {} {}\n", fnv(&b), b.len()),
            Ok(None) => "rejected\n".to_string(),
            Err(f) => format!("panic {}\n", f.signature.replace(' ', "_")),
        };
        if out.write_all(line.as_bytes()).is_err() || out.flush().is_err() {
            return 0;
        }
    }
}

/// configuration of a mode (shared by both builds)
fn mode_config(mode: u8) -> walrus::ModuleConfig {
    let mut cfg = crate::wal::Cfg { dwarf: mode == 3, code_transform: mode == 2, ..crate::wal::Cfg::plain() }.to_config();
    if mode == 2 {
        // location ids shared by several instructions (and functions): the
        // map handed to custom sections must still be the same in both builds
        cfg.on_instr_loc(|pos| walrus::InstrLocId::new(*pos as u32 % 97));
        cfg.on_parse(|m, _| {
            m.customs.add(crate::spy::EchoSection::default());
            Ok(())
        });
    }
    cfg
}

fn serial_answer(bytes: &[u8], mode: u8) -> Result<Option<Vec<u8>>, Failure> {
    let cfg = mode_config(mode);
    let mut m = match crate::wal::parse(bytes, &cfg)? {
        Ok(m) => m,
        Err(_) => return Ok(None),
    };
    if mode == 1 {
        crate::wal::gc(&mut m)?;
    }
    crate::wal::emit(&mut m).map(Some)
}

struct Server {
    child: std::process::Child,
    stdin: std::process::ChildStdin,
    stdout: std::io::BufReader<std::process::ChildStdout>,
}

thread_local! {
    static SERVER: std::cell::RefCell<Option<Server>> = std::cell::RefCell::new(None);
}

static SPAWNED: Mutex<Vec<u32>> = Mutex::new(Vec::new());

fn ask_serial(bytes: &[u8], mode: u8) -> Option<String> {
    use std::io::BufRead;
    SERVER.with(|s| {
        let mut s = s.borrow_mut();
        if s.is_none() {
            let exe = std::env::var("WALRUS_VERIF_SERIAL").ok()?;
            let mut child = std::process::Command::new(exe)
                .arg("c09-server")
                .stdin(std::process::Stdio::piped())
                .stdout(std::process::Stdio::piped())
                .stderr(std::process::Stdio::null())
                .spawn()
                .ok()?;
            SPAWNED.lock().unwrap().push(child.id());
            let stdin = child.stdin.take()?;
            let stdout = std::io::BufReader::new(child.stdout.take()?);
            *s = Some(Server { child, stdin, stdout });
        }
        let srv = s.as_mut()?;
        srv.stdin.write_all(&(bytes.len() as u32 + 1).to_le_bytes()).ok()?;
        srv.stdin.write_all(&[mode]).ok()?;
        srv.stdin.write_all(bytes).ok()?;
        srv.stdin.flush().ok()?;
        let mut line = String::new();
        srv.stdout.read_line(&mut line).ok()?;
        let _ = &srv.child;
        if line.is_empty() {
            None
        } else {
            Some(line.trim().to_string())
        }
    })
}

#[cfg(feature = "parallel")]
mod par {
    use super::*;
    use std::sync::atomic::{AtomicU64, Ordering};

    pub static SALT: AtomicU64 = AtomicU64::new(0);

    fn perturb(x: u64) {
        let h = mix(x, SALT.load(Ordering::Relaxed));
        match h % 97 {
            0 => std::thread::sleep(std::time::Duration::from_micros(50 + (h >> 8) % 200)),
            1..=12 => std::thread::yield_now(),
            _ => {}
        }
    }

    struct Sink;
    impl log::Log for Sink {
        fn enabled(&self, m: &log::Metadata) -> bool {
            m.level() <= log::Level::Debug
        }
        fn log(&self, r: &log::Record) {
            // the per-function record is logged inside the parallel emit closure
            if r.level() == log::Level::Debug {
                if let Some(s) = r.args().as_str() {
                    if s.starts_with("emit function") {
                        perturb(s.len() as u64);
                    }
                } else {
                    let s = r.args().to_string();
                    if s.starts_with("emit function") {
                        perturb(fnv(s.as_bytes()));
                    }
                }
            }
        }
        fn flush(&self) {}
    }

    pub fn install_logger() {
        static S: Sink = Sink;
        let _ = log::set_logger(&S);
        log::set_max_level(log::LevelFilter::Debug);
    }

    pub fn run_once(bytes: &[u8], threads: usize, salt: u64, mode: u8) -> Result<Option<Vec<u8>>, Failure> {
        let gc = mode == 1;
        SALT.store(salt, Ordering::Relaxed);
        // even salts: a pool that lives as long as the process, shared by all
        // cases (worker threads, and whatever state they keep, see module
        // after module); odd salts: a fresh pool
        static SHARED: std::sync::OnceLock<std::sync::Mutex<std::collections::HashMap<usize, std::sync::Arc<rayon::ThreadPool>>>> = std::sync::OnceLock::new();
        let pool: std::sync::Arc<rayon::ThreadPool> = if salt % 2 == 0 {
            let mut map = SHARED.get_or_init(Default::default).lock().unwrap();
            match map.get(&threads) {
                Some(p) => p.clone(),
                None => {
                    let p = std::sync::Arc::new(
                        rayon::ThreadPoolBuilder::new()
                            .num_threads(threads)
                            .build()
                            .map_err(|e| Failure::new("harness:pool", e.to_string()))?,
                    );
                    map.insert(threads, p.clone());
                    p
                }
            }
        } else {
            std::sync::Arc::new(
                rayon::ThreadPoolBuilder::new()
                    .num_threads(threads)
                    .build()
                    .map_err(|e| Failure::new("harness:pool", e.to_string()))?,
            )
        };
        let mut cfg = mode_config(mode);
        cfg.on_instr_loc(move |pos| {
            perturb(*pos as u64);
            walrus::InstrLocId::new(if mode == 2 { *pos as u32 % 97 } else { *pos as u32 })
        });
        pool.install(|| {
            let mut m = match crate::wal::parse(bytes, &cfg)? {
                Ok(m) => m,
                Err(_) => return Ok(None),
            };
            if gc {
                crate::wal::gc(&mut m)?;
            }
            crate::wal::emit(&mut m).map(Some)
        })
    }
}

fn read_leb(b: &[u8], at: &mut usize) -> Option<u64> {
    let (mut v, mut shift) = (0u64, 0u32);
    loop {
        let x = *b.get(*at)?;
        *at += 1;
        v |= ((x & 0x7f) as u64) << shift;
        shift += 7;
        if x & 0x80 == 0 {
            return Some(v);
        }
        if shift > 35 {
            return None;
        }
    }
}

fn write_leb(mut v: u64, out: &mut Vec<u8>) {
    loop {
        let b = (v & 0x7f) as u8;
        v >>= 7;
        if v == 0 {
            out.push(b);
            return;
        }
        out.push(b | 0x80);
    }
}

/// insert `n` pairs `i32.const 0; drop` before the final `end` of code entry `k`
fn pad_code_entry(bytes: &[u8], k: usize, n: usize) -> Option<Vec<u8>> {
    let mut out = bytes[..8].to_vec();
    let mut at = 8;
    while at < bytes.len() {
        let id = bytes[at];
        let mut p = at + 1;
        let size = read_leb(bytes, &mut p)? as usize;
        let payload = bytes.get(p..p + size)?;
        if id != 10 {
            out.extend_from_slice(&bytes[at..p + size]);
        } else {
            let mut q = 0;
            let count = read_leb(payload, &mut q)? as usize;
            let mut np = Vec::new();
            write_leb(count as u64, &mut np);
            for i in 0..count {
                let len = read_leb(payload, &mut q)? as usize;
                let body = payload.get(q..q + len)?;
                q += len;
                if i == k && body.last() == Some(&0x0b) {
                    // n times `i32.const 0; drop` (instructions walrus keeps,
                    // unlike nops): 3 bytes and 2 instructions each
                    write_leb((len + 3 * n) as u64, &mut np);
                    np.extend_from_slice(&body[..len - 1]);
                    for _ in 0..n {
                        np.extend_from_slice(&[0x41, 0x00, 0x1a]);
                    }
                    np.push(0x0b);
                } else {
                    write_leb(len as u64, &mut np);
                    np.extend_from_slice(body);
                }
            }
            out.push(10);
            write_leb(np.len() as u64, &mut out);
            out.extend_from_slice(&np);
        }
        at = p + size;
    }
    Some(out)
}

/// A module made for contention on the emit-time index maps: several
/// memories, tables, globals, passive data and element segments and types,
/// and many functions that each refer, hundreds of times, to "their" entity
/// of every kind (function f uses entity f mod count, now and then a
/// neighbour's), so that threads encoding different functions look up
/// different ids of the same index space at the same time.
fn contention_module(ch: &mut Ch) -> (Vec<u8>, usize) {
    use wasm_encoder as we;
    let n_mem = 2 + ch.below(4) as u32;
    let n_tab = 2 + ch.below(3) as u32;
    let n_glob = 2 + ch.below(4) as u32;
    let n_data = 2 + ch.below(3) as u32;
    let n_elem = 2 + ch.below(3) as u32;
    let n_funcs = 24 + ch.below(56) as u32;
    let reps = 150 + ch.below(500);
    let mut m = we::Module::new();
    let mut t = we::TypeSection::new();
    t.function([], []);
    t.function([we::ValType::I32], []);
    t.function([we::ValType::I64], []);
    t.function([we::ValType::F32], []);
    m.section(&t);
    let mut f = we::FunctionSection::new();
    for _ in 0..n_funcs {
        f.function(0);
    }
    m.section(&f);
    let mut tabs = we::TableSection::new();
    for i in 0..n_tab {
        tabs.table(we::TableType { element_type: we::RefType::FUNCREF, table64: false, minimum: 4 + i as u64, maximum: None, shared: false });
    }
    m.section(&tabs);
    let mut mems = we::MemorySection::new();
    for i in 0..n_mem {
        mems.memory(we::MemoryType { minimum: 1 + i as u64, maximum: None, memory64: false, shared: false, page_size_log2: None });
    }
    m.section(&mems);
    let mut globs = we::GlobalSection::new();
    for i in 0..n_glob {
        globs.global(we::GlobalType { val_type: we::ValType::I32, mutable: true, shared: false }, &we::ConstExpr::i32_const(i as i32));
    }
    m.section(&globs);
    let mut ex = we::ExportSection::new();
    for i in 0..n_funcs {
        ex.export(&format!("f{}", i), we::ExportKind::Func, i);
    }
    m.section(&ex);
    let mut el = we::ElementSection::new();
    for i in 0..n_elem {
        el.passive(we::Elements::Functions(&[i % n_funcs, (i + 1) % n_funcs]));
    }
    m.section(&el);
    m.section(&we::DataCountSection { count: n_data });
    let mut code = we::CodeSection::new();
    for fi in 0..n_funcs {
        let mut body = we::Function::new([]);
        // function sizes differ (the emitter sorts by size)
        let n = reps / 2 + (fi as usize * 37) % (reps / 2 + 1);
        for j in 0..n {
            let stray = if j % 23 == 0 { 1 } else { 0 };
            let k = fi + stray;
            use we::Instruction as I;
            match j % 8 {
                0 => {
                    body.instruction(&I::I32Const(0));
                    body.instruction(&I::I32Load8U(we::MemArg { offset: 0, align: 0, memory_index: k % n_mem }));
                    body.instruction(&I::Drop);
                }
                1 => {
                    body.instruction(&I::GlobalGet(k % n_glob));
                    body.instruction(&I::GlobalSet(k % n_glob));
                }
                2 => {
                    body.instruction(&I::TableSize(k % n_tab));
                    body.instruction(&I::Drop);
                }
                3 => {
                    body.instruction(&I::I32Const(0));
                    body.instruction(&I::I32Const(0));
                    body.instruction(&I::I32Const(0));
                    body.instruction(&I::MemoryInit { mem: k % n_mem, data_index: (k / 2) % n_data });
                }
                4 => {
                    body.instruction(&I::I32Const(0));
                    body.instruction(&I::I32Const(0));
                    body.instruction(&I::I32Const(0));
                    body.instruction(&I::TableInit { elem_index: (k / 3) % n_elem, table: k % n_tab });
                }
                5 => {
                    match k % 3 {
                        0 => body.instruction(&I::I32Const(1)),
                        1 => body.instruction(&I::I64Const(1)),
                        _ => body.instruction(&I::F32Const(1.0)),
                    };
                    body.instruction(&I::I32Const(0));
                    body.instruction(&I::CallIndirect { type_index: 1 + k % 3, table_index: (k / 5) % n_tab });
                }
                6 => {
                    body.instruction(&I::Call((k * 7 + 1) % n_funcs));
                }
                _ => {
                    body.instruction(&I::MemorySize(k % n_mem));
                    body.instruction(&I::Drop);
                }
            }
        }
        body.instruction(&we::Instruction::End);
        code.function(&body);
    }
    m.section(&code);
    let mut data = we::DataSection::new();
    for i in 0..n_data {
        data.passive(vec![i as u8; 3 + i as usize]);
    }
    m.section(&data);
    (m.finish(), n_funcs as usize)
}

fn materialise(input: &Input) -> Option<(Vec<u8>, String, usize)> {
    match input {
        Input::Choices { gen, bytes } => {
            // header: mutation count (mostly 0) + mutation bytes
            let n_mut = match bytes.first().copied().unwrap_or(0) % 8 {
                6 => 1,
                7 => 2,
                _ => 0,
            };
            let mb: Vec<u8> = bytes.iter().skip(1).take(16).copied().collect();
            let rest: Vec<u8> = bytes.iter().skip(17).copied().collect();
            let g = crate::gen::generate(&rest, &cfg_for(gen));
            let mut b = g.bytes;
            let nf = g.spec.n_local_funcs;
            let mut ch = Ch::new(&mb);
            for _ in 0..n_mut {
                // mutate inside the code section so that errors sit in bodies
                if let Ok(secs) = crate::decode::raw_sections(&b) {
                    if let Some(code) = secs.iter().find(|s| s.id == 10) {
                        if code.payload.len() > 4 {
                            let i = code.payload.start + ch.below(code.payload.len());
                            b[i] = ch.byte();
                        }
                    }
                }
            }
            // a third of the valid cases carry LLVM-like DWARF (one sequence
            // per function), which mode 2 converts
            let mut tag = String::new();
            if n_mut == 0 && bytes.get(1).map(|x| x % 3 == 0).unwrap_or(false) {
                let mut dch = Ch::new(&mb);
                if let Some(with) = crate::dwarf::attach_dwarf_simple(&b, &mut dch) {
                    b = with;
                    tag.push_str("+dwarf");
                }
            }
            // one case in eight gets a body of ~100 KiB with more than 2^16
            // instructions (const/drop pairs before the final end of a late
            // function)
            if n_mut == 0 && tag.is_empty() && nf >= 2 && bytes.get(2).map(|x| x % 8 == 0).unwrap_or(false) {
                let k = nf - 1 - (bytes.get(3).copied().unwrap_or(0) as usize % nf.min(3));
                if let Some(p) = pad_code_entry(&b, k, 33_000) {
                    b = p;
                    tag.push_str("+32KiB-body");
                }
            }
            // one case in sixteen is replaced by a module made for contention
            // on the emit-time index maps
            if n_mut == 0 && bytes.get(4).map(|x| x % 16 == 9).unwrap_or(false) {
                let mut cch = Ch::new(&rest);
                let (m, nf) = contention_module(&mut cch);
                return Some((m, format!("gen:{}+index-map-contention", gen), nf));
            }
            // one case in sixteen is replaced by a module whose only function
            // nests 100 000 blocks (worker threads have small stacks)
            if n_mut == 0 && bytes.get(4).map(|x| x % 16 == 5).unwrap_or(false) {
                let depth = 100_000usize;
                let mut body = vec![0u8];
                body.extend(std::iter::repeat([0x02u8, 0x40]).take(depth).flatten());
                body.extend(std::iter::repeat(0x0bu8).take(depth + 1));
                let mut m = vec![0x00, 0x61, 0x73, 0x6d, 0x01, 0x00, 0x00, 0x00];
                m.extend_from_slice(&[0x01, 0x04, 0x01, 0x60, 0x00, 0x00, 0x03, 0x02, 0x01, 0x00, 0x07, 0x05, 0x01, 0x01, b'f', 0x00, 0x00]);
                let mut code = vec![0x01];
                write_leb(body.len() as u64, &mut code);
                code.extend(body);
                m.push(0x0a);
                write_leb(code.len() as u64, &mut m);
                m.extend(code);
                return Some((m, format!("gen:{}+deep-nesting+32KiB-body", gen), 1));
            }
            Some((b, format!("gen:{}+{}mut{}", gen, n_mut, tag), nf))
        }
        Input::Wasm { origin, bytes } => {
            let nf = crate::decode::decode(bytes).map(|d| d.funcs.len()).unwrap_or(0);
            Some((bytes.clone(), origin.clone(), nf))
        }
        _ => None,
    }
}

/// `c09-child`: the parallel build's answer for one input, in its own process
#[cfg(feature = "parallel")]
pub fn child_main(path: &str, threads: usize, mode: u8) -> i32 {
    let bytes = match std::fs::read(path) {
        Ok(b) => b,
        Err(_) => return 2,
    };
    match par::run_once(&bytes, threads, 1, mode) {
        Ok(Some(b)) => println!("ok {} {}", fnv(&b), b.len()),
        Ok(None) => println!("rejected"),
        Err(f) => println!("panic {}", f.signature.replace(' ', "_")),
    }
    0
}

#[cfg(not(feature = "parallel"))]
pub fn child_main(_path: &str, _threads: usize, _mode: u8) -> i32 {
    2
}

#[cfg(not(feature = "parallel"))]
pub fn check(_ctx: &Ctx, _input: &Input) -> CaseResult {
    Err(Failure::new(
        "harness:not-a-parallel-build",
        "C09 must run in the harness built with --features parallel (use ./check.sh C09 ...)",
    ))
}

#[cfg(feature = "parallel")]
pub fn check(ctx: &Ctx, input: &Input) -> CaseResult {
    let mut out = CaseOut::default();
    let (bytes, origin, nf) = match materialise(input) {
        Some(x) => x,
        None => return Ok(out),
    };
    out.hash = fnv(&bytes);
    if origin.contains("+dwarf") {
        out.label("input:llvm-like-dwarf");
    }
    if origin.contains("+32KiB-body") {
        out.label("input:function-body>32KiB");
    }
    if origin.contains("+index-map-contention") {
        out.label("input:index-map-contention");
    }
    // inputs with a very large function first go through a child process of
    // the parallel build: if that build dies (stack overflow, abort) where the
    // serial build answers, the builds disagree
    if origin.contains("+32KiB-body") {
        if let (Some(serial), Ok(exe)) = (ask_serial(&bytes, 0), std::env::current_exe()) {
            if !serial.starts_with("panic") {
                let tmp = std::env::temp_dir().join(format!("walrus-verif-c09-{}-{:x}.wasm", std::process::id(), out.hash));
                if std::fs::write(&tmp, &bytes).is_ok() {
                    for threads in [1usize, 4] {
                        let o = std::process::Command::new(&exe).arg("c09-child").arg(&tmp).arg(threads.to_string()).arg("0").output();
                        if let Ok(o) = o {
                            use std::os::unix::process::ExitStatusExt;
                            let line = String::from_utf8_lossy(&o.stdout).trim().to_string();
                            if let Some(sig) = o.status.signal() {
                                let _ = std::fs::remove_file(&tmp);
                                return Err(Failure::new(
                                    "parallel-build-crashed",
                                    format!("serial build: {}; the parallel build ({} threads) died with signal {} [{} functions, {}]", serial, threads, sig, nf, origin),
                                ));
                            }
                            if o.status.code() == Some(0) && line != serial {
                                let _ = std::fs::remove_file(&tmp);
                                return Err(Failure::new(
                                    "output-bytes-differ",
                                    format!("serial build: {}; parallel build in a child process with {} threads: {} [{} functions, {}]", serial, threads, line, nf, origin),
                                ));
                            }
                        }
                    }
                    let _ = std::fs::remove_file(&tmp);
                    out.label("big-body:child-process-compared");
                }
            }
        }
        // the deeply nested input is only run in child processes (a build
        // that cannot take it must not take the whole check down)
        if origin.contains("+deep-nesting") {
            out.label("input:100000-nested-blocks");
            out.nontrivial = true;
            return Ok(out);
        }
    }
    let mut plain_serial = String::new();
    // both builds also run the GC pass between parse and emit (entities are
    // deleted, so the emitter walks arenas with holes) under fewer pools
    // mode 3 (DWARF conversion) comes last and only for inputs that carry
    // DWARF: with a wrong transform it may not terminate, and mode 2 reports
    // a wrong transform first
    let modes: &[u8] = if origin.contains("+dwarf") { &[0, 2, 1, 3] } else { &[0, 2, 1] };
    for &mode in modes {
    let gc = mode != 0;
    let serial = match ask_serial(&bytes, mode) {
        Some(s) => s,
        None => {
            return Err(Failure::new(
                "harness:no-serial-reference",
                "could not obtain the serial build's answer (WALRUS_VERIF_SERIAL not set or co-process died)",
            ))
        }
    };
    if serial.starts_with("panic") {
        out.label("skip:serial-build-panicked(C02/C05)");
        return Ok(out);
    }
    if mode == 0 {
        plain_serial = serial.clone();
    } else if serial.starts_with("ok") {
        out.label(match mode {
            1 => "gc-between-parse-and-emit",
            2 => "code-transform-echoed",
            _ => "dwarf-converted",
        });
    }
    let repeats = if gc { 1 } else { ctx.tier.pick(2, 6) };
    let pools: &[usize] = if gc { &[1, 3, 16] } else { &[1, 2, 3, 4, 8, 16] };
    for &threads in pools {
        for rep in 0..repeats {
            let salt = mix(out.hash, (threads * 131 + rep) as u64);
            let r = par::run_once(&bytes, threads, salt, mode).map_err(|f| {
                Failure::new(
                    format!("parallel-{}", f.signature),
                    format!("{} [threads={} repeat={} mode={} {} functions {}]", f.detail, threads, rep, mode, nf, origin),
                )
            })?;
            let got = match &r {
                Some(b) => format!("ok {} {}", fnv(b), b.len()),
                None => "rejected".to_string(),
            };
            if got != serial {
                let kind = if got.starts_with("ok") != serial.starts_with("ok") {
                    "accept-reject-decision-differs"
                } else {
                    "output-bytes-differ"
                };
                return Err(Failure::new(
                    kind,
                    format!(
                        "serial build: {}; parallel build with {} threads (repeat {}): {} [{} functions, mode={} (0 plain, 1 gc, 2 transform echo, 3 dwarf), {}]",
                        serial, threads, rep, got, nf, mode, origin
                    ),
                ));
            }
        }
    }
    }
    let serial = plain_serial;
    out.label(if serial.starts_with("ok") { "verdict:accepted" } else { "verdict:rejected" });
    if nf >= 32 {
        out.label("functions>=32");
    }
    out.nontrivial = nf >= 8;
    if out.nontrivial && out.hash % 8 == 0 {
        out.sample = Some(json!({"origin": origin, "bytes": bytes.len(), "functions": nf, "serial": serial, "pools": [1,2,3,4,8,16], "repeats": ctx.tier.pick(2, 6), "gc_pools": [1,3,16]}));
    }
    Ok(out)
}

fn run(ctx: &Ctx) {
    #[cfg(feature = "parallel")]
    par::install_logger();
    // an embedding application may have set up rayon's global pool before
    // walrus is first used: do so (parsing must not depend on being first)
    #[cfg(feature = "parallel")]
    {
        let _ = rayon::ThreadPoolBuilder::new().num_threads(3).build_global();
    }
    let plans = [
        GenPlan {
            gen: "par-many",
            cases: ctx.tier.pick(400, 6000),
            min_len: 17,
            max_len: ctx.tier.pick(2500, 6000),
        },
        GenPlan {
            gen: "full-nobig",
            cases: ctx.tier.pick(400, 6000),
            min_len: 17,
            max_len: 1500,
        },
    ];
    standard_run(ctx, check, &plans, true);
    // co-processes end when their stdin closes at exit
}
