//! C10 — DWARF addresses follow their instructions and functions.

use super::*;
use crate::ch::Ch;
use crate::decode::{decode, ModuleD};
use crate::dwarf::{self, DwarfPlan, LINE_STRIDE};
use crate::iso::Iso;
use crate::optable::validate_walrus;
use crate::wal;
use serde_json::json;
use std::collections::{BTreeMap, HashSet};

pub fn def() -> PropDef {
    PropDef {
        id: "C10",
        run,
        check,
        meta,
    }
}

fn meta(_ctx: &Ctx) -> EvidenceMeta {
    EvidenceMeta {
        rule: "generated modules + synthesized well-formed DWARF (v4 via gimli::write, v5 hand-encoded with rows naming file 0; one row per operator with a unique line number; one subprogram per function with low_pc at the body start or at the size LEB; one sequence per function or sequences spanning several functions; optional row at the function start; function counts around 127/128 and bodies around the 127/128-byte LEB boundary) and the committed LLVM-made corpus (clang -g, DWARF 4 and 5), x {unchanged, GC, const;drop inserted}. non-trivial = functions reordered or resized or instructions inserted/removed, and >=1 row checked per surviving function; distinct by (module bytes, plan). Oracle: output .debug_line/.debug_info read back with gimli; each output row is traced by its line number to its input instruction and must sit at the code-relative address of that instruction's image under the independently derived offset map; rows of removed code must be absent; rows of surviving instructions must be present; every subprogram range must lie inside and reach the end of the image function's code entry; subprograms of removed functions must be tombstoned; emission must not panic.".into(),
        assumptions: vec![
            "rows at non-instruction addresses (function start) are only required to stay inside the same function".into(),
            "for the LLVM corpus (no unique line numbers) rows are aligned in order and only soundness of addresses is checked".into(),
        ],
        level: "exploration",
        exhaustive: false,
    }
}

const TOMBSTONE: u64 = 0xFFFF_FFFF;

struct Built {
    bytes: Vec<u8>,
    plan: DwarfPlan,
    origin: String,
}

fn build(input: &Input) -> Option<(Built, Vec<u8>)> {
    match input {
        Input::Choices { gen, bytes } => {
            let hb: Vec<u8> = bytes.iter().take(40).copied().collect();
            let rest: Vec<u8> = bytes.iter().skip(40).copied().collect();
            let p = prepare(&Input::Choices {
                gen: gen.clone(),
                bytes: rest,
            })?;
            let d = decode(&p.bytes).ok()?;
            if d.funcs.is_empty() {
                return None;
            }
            let mut ch = Ch::new(&hb);
            let plan = dwarf::gen_plan(&d, &mut ch);
            let with = dwarf::attach(&p.bytes, &d, &plan)?;
            let eb: Vec<u8> = hb.iter().rev().copied().collect();
            Some((
                Built {
                    bytes: with,
                    plan,
                    origin: p.origin,
                },
                eb,
            ))
        }
        _ => None,
    }
}

fn check_mode(ctx: &Ctx, b: &Built, da: &ModuleD, mode: &str, edit_bytes: &[u8], out: &mut CaseOut) -> Result<bool, Failure> {
    let origin = format!(
        "{} dwarf v{} low_pc@{} {} sequences{}",
        b.origin,
        b.plan.version,
        if b.plan.low_pc_at_body { "body" } else { "size-leb" },
        b.plan.sequences.len(),
        if b.plan.row_at_function_start { " +start-rows" } else { "" }
    ) + if b.plan.base_at_size_field { " +base@size-leb" } else { "" };
    let cfg = wal::Cfg {
        dwarf: true,
        ..wal::Cfg::plain()
    }
    .to_config();
    let mut m = match wal::parse(&b.bytes, &cfg) {
        Ok(Ok(m)) => m,
        Ok(Err(_)) => {
            out.label("skip:walrus-rejected(C05)");
            return Ok(false);
        }
        Err(f) => return Err(f),
    };
    let mut insertions = 0;
    if mode == "insert" {
        let mut ch = Ch::new(edit_bytes);
        let n = 1 + ch.below(4);
        for _ in 0..n {
            if guard("edit", || crate::edits::insert_const_drop(&mut m, &mut ch))?.is_some() {
                insertions += 1;
            }
        }
    }
    if mode == "gc" && wal::gc(&mut m).is_err() {
        out.label("skip:gc-panic(C02)");
        return Ok(false);
    }
    let emitted = match wal::emit(&mut m) {
        Ok(e) => e,
        Err(f) => {
            let msg = f.detail.split(": ").skip(1).collect::<Vec<_>>().join(": ");
            let msg = super::c02::normalise_msg(msg.split(" [").next().unwrap_or(""));
            let msg: String = msg.chars().take(90).collect();
            let multi = b.plan.sequences.iter().any(|s| s.len() > 1);
            let sig = if multi {
                {
                    let _ = &msg;
                    "multi-function-sequence:emit-panic".to_string()
                }
            } else {
                format!("dwarf-emit-panic:{}:v{}", msg, b.plan.version)
            };
            ctx.known_or(
                out,
                Failure::new(sig, format!("[{}] emitting with DWARF generation on panicked: {} [{}]", mode, f.detail, origin)),
            )?;
            return Ok(false);
        }
    };
    let db = match decode(&emitted) {
        Ok(d) => d,
        Err(_) => {
            out.label("skip:output-undecodable(C02)");
            return Ok(false);
        }
    };
    let mut iso = Iso::new(da, &db);
    iso.tolerate = vec!["memarg-offset-truncated-to-u32".into()];
    iso.strip_markers = mode == "insert";
    let r = if mode == "gc" { iso.run_gc() } else { iso.run_full() };
    if let Err(mm) = r {
        out.label(format!("skip:structure-mismatch(C03/C04):{}", mm.signature));
        return Ok(false);
    }
    let truth: BTreeMap<usize, usize> = iso.offset_map();
    let rb = match dwarf::read_back(&emitted) {
        Ok(r) => r,
        Err(e) => {
            ctx.known_or(
                out,
                Failure::new("output-dwarf-unreadable", format!("[{}] gimli cannot read the emitted DWARF: {} [{}]", mode, e, origin)),
            )?;
            return Ok(false);
        }
    };
    let cs_a = da.code_section_start.unwrap_or(0);
    let cs_b = db.code_section_start.unwrap_or(0);
    let ni_a = da.imp_funcs.len() as u32;
    let ni_b = db.imp_funcs.len() as u32;
    // operators the comparison ignores
    let mut ignored: HashSet<usize> = HashSet::new();
    for f in da.funcs.iter() {
        let (canon, _) = crate::iso::canonicalise(&f.ops);
        let kept: HashSet<usize> = canon.iter().map(|o| o.offset).collect();
        for o in f.ops.iter() {
            if !kept.contains(&o.offset) {
                ignored.insert(o.offset);
            }
        }
    }
    let out_starts: HashSet<usize> = db.funcs.iter().flat_map(|f| f.ops.iter().map(|o| o.offset)).collect();
    // image entry range of input local function ordinal fo
    let image = |fo: usize| -> Option<std::ops::Range<usize>> {
        let j = *iso.funcs.fwd.get(&(fo as u32 + ni_a))?;
        if j < ni_b {
            return None;
        }
        Some(db.funcs[(j - ni_b) as usize].entry_range.clone())
    };
    let in_multi: HashSet<usize> = b.plan.sequences.iter().filter(|s| s.len() > 1).flat_map(|s| s.iter().copied()).collect();
    let tag = |fo: usize, sig: String| -> String {
        if in_multi.contains(&fo) {
            // one root cause (sequences spanning functions are converted row
            // by row without re-sorting or splitting), many manifestations
            let _ = sig;
            "multi-function-sequence:rows-misplaced-or-dropped".to_string()
        } else {
            sig
        }
    };
    // ---- rows ----
    let mut seen_lines: HashSet<u64> = HashSet::new();
    let mut rows_checked_per_func: BTreeMap<usize, usize> = BTreeMap::new();
    for seq in &rb.sequences {
        let mut last_addr: Option<u64> = None;
        for (addr, line, end) in seq {
            if let Some(l) = last_addr {
                if *addr < l {
                    ctx.known_or(
                        out,
                        Failure::new(
                            if in_multi.is_empty() { "row-addresses-decrease-within-sequence".to_string() } else { "multi-function-sequence:rows-misplaced-or-dropped".to_string() },
                            format!("[{}] a line sequence of the output goes from address {} back to {} [{}]", mode, l, addr, origin),
                        ),
                    )?;
                }
            }
            last_addr = Some(*addr);
            if *end || *line == 0 {
                continue;
            }
            let fo = ((*line - 1) / LINE_STRIDE) as usize;
            let k = ((*line - 1) % LINE_STRIDE) as usize;
            if fo >= da.funcs.len() {
                return Err(Failure::new(
                    "row-with-unknown-line",
                    format!("[{}] output row (address {}, line {}) has a line number no input row had [{}]", mode, addr, line, origin),
                ));
            }
            if iso.ambiguous_funcs.contains(&(fo as u32 + ni_a)) {
                out.label("unjudged:function-with-content-identical-twin");
                continue;
            }
            if *line == dwarf::start_line_of(fo) {
                // row at the function's body start: must stay inside the image
                match image(fo) {
                    Some(r) => {
                        let abs = *addr as usize + cs_b;
                        if abs < r.start || abs > r.end {
                            ctx.known_or(
                                out,
                                Failure::new(
                                    tag(fo, "function-start-row-outside-function".into()),
                                    format!("[{}] the row at the start of input function {} is at output address {} (abs {}), outside its image's code entry {:?} [{}]", mode, fo, addr, abs, r, origin),
                                ),
                            )?;
                        }
                    }
                    None => {
                        if *addr != TOMBSTONE {
                            ctx.known_or(
                                out,
                                Failure::new(
                                    tag(fo, "row-for-removed-code-survives".into()),
                                    format!("[{}] function {} was removed but its start row survives at address {} [{}]", mode, fo, addr, origin),
                                ),
                            )?;
                        }
                    }
                }
                continue;
            }
            if k >= da.funcs[fo].ops.len() {
                return Err(Failure::new(
                    "row-with-unknown-line",
                    format!("[{}] output row line {} decodes to function {} op {} which does not exist [{}]", mode, line, fo, k, origin),
                ));
            }
            if !seen_lines.insert(*line) {
                ctx.known_or(
                    out,
                    Failure::new("row-duplicated", format!("[{}] line {} appears in two output rows [{}]", mode, line, origin)),
                )?;
            }
            let op = &da.funcs[fo].ops[k];
            match truth.get(&op.offset) {
                Some(want_abs) => {
                    let want = (*want_abs - cs_b) as u64;
                    if *addr != want {
                        let delta = *addr as i64 - want as i64;
                        ctx.known_or(
                            out,
                            Failure::new(
                                tag(
                                    fo,
                                    if delta.abs() <= 2 {
                                        format!("row-address-off-by-{}", delta)
                                    } else {
                                        "row-points-at-wrong-address".to_string()
                                    },
                                ),
                                format!(
                                    "[{}] the row of input function {} op #{} ({}) is at output address {}, but that instruction is emitted at code-relative address {} [{}]",
                                    mode,
                                    fo,
                                    k,
                                    op.short(),
                                    addr,
                                    want,
                                    origin
                                ),
                            ),
                        )?;
                    }
                    *rows_checked_per_func.entry(fo).or_insert(0) += 1;
                }
                None => {
                    if *addr == TOMBSTONE {
                        continue;
                    }
                    let abs = *addr as usize + cs_b;
                    // walrus retains some dead code (after return_call ...): a row of
                    // such an instruction may survive at the instruction's own new
                    // place, which is an output instruction that is nobody else's
                    // image; the start of a live instruction's image is unrelated code
                    let is_live_image = truth.values().any(|v| *v == abs);
                    if ignored.contains(&op.offset) && out_starts.contains(&abs) && !is_live_image {
                        out.label("unjudged:row-in-retained-dead-code");
                        continue;
                    }
                    ctx.known_or(
                        out,
                        Failure::new(
                            tag(fo, "row-for-removed-code-survives".into()),
                            format!(
                                "[{}] input function {} op #{} ({}) is not in the output, but its row survives at address {} [{}]",
                                mode,
                                fo,
                                k,
                                op.short(),
                                addr,
                                origin
                            ),
                        ),
                    )?;
                }
            }
        }
    }
    // completeness: rows of surviving instructions
    for (fo, f) in da.funcs.iter().enumerate() {
        if image(fo).is_none() || iso.ambiguous_funcs.contains(&(fo as u32 + ni_a)) {
            continue;
        }
        let mut missing = 0;
        let mut first_missing = None;
        for (k, op) in f.ops.iter().enumerate() {
            if truth.contains_key(&op.offset) && !seen_lines.contains(&dwarf::line_of(fo, k)) {
                missing += 1;
                if first_missing.is_none() {
                    first_missing = Some((k, op.short()));
                }
            }
        }
        if missing > 0 {
            let first_elided = f.ops.first().map(|o| !truth.contains_key(&o.offset)).unwrap_or(false);
            let all = missing == f.ops.iter().filter(|o| truth.contains_key(&o.offset)).count();
            let sig = if all && first_elided {
                "rows-dropped:whole-function:first-instruction-elided"
            } else if all {
                "rows-dropped:whole-function"
            } else {
                "rows-dropped:some"
            };
            ctx.known_or(
                out,
                Failure::new(
                    tag(fo, sig.to_string()),
                    format!(
                        "[{}] {} rows of surviving instructions of input function {} are missing from the output line table (first: op #{:?}) [{}]",
                        mode, missing, fo, first_missing, origin
                    ),
                ),
            )?;
        }
    }
    // ---- subprograms ----
    for (fo, f) in da.funcs.iter().enumerate() {
        let name = format!("fn{}", fo);
        if iso.ambiguous_funcs.contains(&(fo as u32 + ni_a)) {
            continue;
        }
        let (low, high) = match rb.subprograms.get(&name) {
            Some(x) => *x,
            None => {
                ctx.known_or(
                    out,
                    Failure::new("subprogram-missing", format!("[{}] no DW_TAG_subprogram named {} in the output [{}]", mode, name, origin)),
                )?;
                continue;
            }
        };
        match image(fo) {
            Some(r) => {
                let (lo_abs, hi_abs) = (low as usize + cs_b, (low + high) as usize + cs_b);
                // image of the first input instruction that survives: code
                // inserted in front of it by an edit need not be covered
                let first_instr = f
                    .ops
                    .iter()
                    .find_map(|o| truth.get(&o.offset).copied())
                    .unwrap_or(r.end);
                if !b.plan.low_pc_at_body && (low == TOMBSTONE || lo_abs < r.start || lo_abs > first_instr || hi_abs != r.end) {
                    // low_pc at the very first byte of the code entry is also
                    // the end address of the previous function
                    ctx.known_or(
                        out,
                        Failure::new(
                            "low_pc-at-entry-start-resolved-as-end-of-previous-function",
                            format!(
                                "[{}] subprogram {} (low_pc = first byte of the code entry, i.e. the size LEB) has output range [{}, {}); image code entry {:?} [{}]",
                                mode, name, low, low.wrapping_add(high), r, origin
                            ),
                        ),
                    )?;
                    continue;
                }
                if low == TOMBSTONE {
                    let first_elided = f.ops.first().map(|o| !truth.contains_key(&o.offset)).unwrap_or(false);
                    ctx.known_or(
                        out,
                        Failure::new(
                            if first_elided {
                                "subprogram-tombstoned-although-function-survives:first-instruction-elided"
                            } else {
                                "subprogram-tombstoned-although-function-survives"
                            },
                            format!("[{}] input function {} survives (image entry {:?}) but its subprogram low_pc is the tombstone [{}]", mode, fo, r, origin),
                        ),
                    )?;
                    continue;
                }
                if lo_abs < r.start || lo_abs > first_instr || hi_abs != r.end {
                    let dl = lo_abs as i64 - (if b.plan.low_pc_at_body { first_instr as i64 } else { r.start as i64 });
                    ctx.known_or(
                        out,
                        Failure::new(
                            if hi_abs != r.end && lo_abs >= r.start && lo_abs <= first_instr {
                                "subprogram-range-end".to_string()
                            } else if dl.abs() <= 2 {
                                format!("subprogram-low_pc-off-by-{}", dl)
                            } else {
                                "subprogram-range-outside-function".to_string()
                            },
                            format!(
                                "[{}] subprogram {} has range [{}, {}) absolute [{}, {}); its image's code entry is {:?}, first instruction at {} [{}]",
                                mode,
                                name,
                                low,
                                low + high,
                                lo_abs,
                                hi_abs,
                                r,
                                first_instr,
                                origin
                            ),
                        ),
                    )?;
                }
            }
            None => {
                if low != TOMBSTONE && !b.plan.low_pc_at_body {
                    ctx.known_or(
                        out,
                        Failure::new(
                            "low_pc-at-entry-start-resolved-as-end-of-previous-function",
                            format!("[{}] function {} was removed; its subprogram (low_pc at the size LEB) now has low_pc {} [{}]", mode, fo, low, origin),
                        ),
                    )?;
                } else if low != TOMBSTONE {
                    ctx.known_or(
                        out,
                        Failure::new(
                            "subprogram-of-removed-function-not-tombstoned",
                            format!("[{}] function {} was removed but its subprogram still has low_pc {} [{}]", mode, fo, low, origin),
                        ),
                    )?;
                }
            }
        }
    }
    let reordered = iso.funcs.fwd.iter().any(|(a, b)| a != b);
    let survivors: Vec<usize> = (0..da.funcs.len()).filter(|fo| image(*fo).is_some()).collect();
    let all_checked = !survivors.is_empty() && survivors.iter().all(|fo| rows_checked_per_func.get(fo).copied().unwrap_or(0) >= 1);
    let resized = da.funcs.iter().enumerate().any(|(fo, f)| image(fo).map(|r| r.len() != f.entry_range.len()).unwrap_or(false));
    Ok((reordered || resized || insertions > 0 || mode == "gc") && all_checked)
}

pub fn check(ctx: &Ctx, input: &Input) -> CaseResult {
    let mut out = CaseOut::default();
    if let Input::Wasm { origin, bytes } = input {
        return check_real(ctx, origin, bytes);
    }
    let (built, eb) = match build(input) {
        Some(x) => x,
        None => return Ok(out),
    };
    out.hash = fnv(&built.bytes);
    if validate_walrus(&built.bytes).is_err() {
        out.label("skip:input-invalid");
        return Ok(out);
    }
    let da = match decode(&built.bytes) {
        Ok(d) => d,
        Err(_) => return Ok(out),
    };
    out.label(format!("dwarf:v{}", built.plan.version));
    if built.plan.sequences.iter().any(|s| s.len() > 1) {
        out.label("sequence-spanning-functions");
    }
    if da.funcs.len() >= 128 {
        out.label("functions>=128");
    }
    if da.funcs.iter().any(|f| (126..=129).contains(&f.body_range.len())) {
        out.label("body-size-at-leb-boundary");
    }
    let mut nt = false;
    for mode in ["plain", "gc", "insert"] {
        if check_mode(ctx, &built, &da, mode, &eb, &mut out)? {
            nt = true;
        }
    }
    out.nontrivial = nt;
    if nt && out.hash % 8 == 0 {
        out.sample = Some(json!({"origin": built.origin, "bytes": built.bytes.len(), "functions": da.funcs.len(), "dwarf_version": built.plan.version,
            "sequences": built.plan.sequences.len(), "low_pc_at_body": built.plan.low_pc_at_body}));
    }
    Ok(out)
}

/// LLVM-made modules: no unique line numbers, so rows are aligned in order.
fn check_real(ctx: &Ctx, origin: &str, bytes: &[u8]) -> CaseResult {
    let mut out = CaseOut::default();
    out.hash = fnv(bytes);
    let has_debug = crate::decode::raw_sections(bytes)
        .map(|s| s.iter().any(|x| x.name.as_deref().map(|n| n.starts_with(".debug_line")).unwrap_or(false)))
        .unwrap_or(false);
    if !has_debug || validate_walrus(bytes).is_err() {
        return Ok(out);
    }
    let da = match decode(bytes) {
        Ok(d) => d,
        Err(_) => return Ok(out),
    };
    let rin = match dwarf::read_back(bytes) {
        Ok(r) => r,
        Err(_) => {
            out.label("skip:input-dwarf-unreadable");
            return Ok(out);
        }
    };
    for gc in [false, true] {
        let mode = if gc { "gc" } else { "plain" };
        let cfg = wal::Cfg {
            dwarf: true,
            ..wal::Cfg::plain()
        };
        let emitted = match wal::roundtrip(bytes, cfg, gc) {
            Ok(Some(e)) => e,
            Ok(None) => return Ok(out),
            Err(f) => {
                ctx.known_or(
                    &mut out,
                    Failure::new(
                        format!(
                            "dwarf-emit-panic:{}:v{}",
                            super::c02::normalise_msg(f.detail.split(": ").skip(1).collect::<Vec<_>>().join(": ").split(" [").next().unwrap_or("")).chars().take(90).collect::<String>(),
                            rin.version
                        ),
                        format!("[{}] emitting LLVM-made DWARF panicked: {} [{}]", mode, f.detail, origin),
                    ),
                )?;
                continue;
            }
        };
        let db = match decode(&emitted) {
            Ok(d) => d,
            Err(_) => continue,
        };
        let mut iso = Iso::new(&da, &db);
        let r = if gc { iso.run_gc() } else { iso.run_full() };
        if r.is_err() {
            out.label("skip:structure-mismatch");
            continue;
        }
        let truth = iso.offset_map();
        let rout = match dwarf::read_back(&emitted) {
            Ok(r) => r,
            Err(e) => {
                ctx.known_or(&mut out, Failure::new("output-dwarf-unreadable", format!("[{}] {} [{}]", mode, e, origin)))?;
                continue;
            }
        };
        let cs_a = da.code_section_start.unwrap_or(0);
        let cs_b = db.code_section_start.unwrap_or(0);
        // expected output rows: input rows at instruction starts that survive,
        // keyed by (line) order within the whole table
        let mut expected: Vec<(u64, u64)> = Vec::new();
        for seq in &rin.sequences {
            for (addr, line, end) in seq {
                if *end {
                    continue;
                }
                if let Some(o) = truth.get(&(*addr as usize + cs_a)) {
                    expected.push(((*o - cs_b) as u64, *line));
                }
            }
        }
        let got: Vec<(u64, u64)> = rout
            .sequences
            .iter()
            .flat_map(|s| s.iter().filter(|r| !r.2).map(|r| (r.0, r.1)))
            .collect();
        // every expected row must be found, in order, among the output rows
        let mut gi = 0;
        let mut matched = 0;
        for e in &expected {
            while gi < got.len() && got[gi] != *e {
                gi += 1;
            }
            if gi == got.len() {
                ctx.known_or(
                    &mut out,
                    Failure::new(
                        "llvm-row-missing-or-misplaced",
                        format!(
                            "[{}] expected a row (address {}, line {}) in the output line table after {} matched rows; output has {} rows [{}]",
                            mode,
                            e.0,
                            e.1,
                            matched,
                            got.len(),
                            origin
                        ),
                    ),
                )?;
                break;
            }
            matched += 1;
            gi += 1;
        }
        // subprograms by name
        for (name, (low, high)) in &rin.subprograms {
            // find the function whose body starts at low
            let fo = da.funcs.iter().position(|f| f.body_range.start - cs_a == *low as usize);
            let fo = match fo {
                Some(f) => f,
                None => continue,
            };
            let _ = high;
            let j = iso.funcs.fwd.get(&(fo as u32 + da.imp_funcs.len() as u32)).copied();
            match (j, rout.subprograms.get(name)) {
                (Some(j), Some((ol, oh))) => {
                    let e = &db.funcs[(j - db.imp_funcs.len() as u32) as usize];
                    let want_low = (e.body_range.start - cs_b) as u64;
                    let want_end = (e.entry_range.end - cs_b) as u64;
                    let first = e.ops.first().map(|o| (o.offset - cs_b) as u64).unwrap_or(want_end);
                    let lo_ok = *ol >= (e.entry_range.start - cs_b) as u64 && *ol <= first;
                    if !lo_ok || ol + oh != want_end {
                        ctx.known_or(
                            &mut out,
                            Failure::new(
                                "llvm-subprogram-range",
                                format!("[{}] subprogram {} has [{}, {}), expected [{}, {}) [{}]", mode, name, ol, ol + oh, want_low, want_end, origin),
                            ),
                        )?;
                    }
                }
                (None, Some((ol, _))) => {
                    if *ol != TOMBSTONE {
                        ctx.known_or(
                            &mut out,
                            Failure::new(
                                "subprogram-of-removed-function-not-tombstoned",
                                format!("[{}] {} was removed, low_pc {} [{}]", mode, name, ol, origin),
                            ),
                        )?;
                    }
                }
                _ => {}
            }
        }
        out.nontrivial = matched > 0;
        out.label(format!("llvm-corpus:{}", mode));
    }
    if out.nontrivial {
        out.sample = Some(json!({"origin": origin, "bytes": bytes.len(), "llvm_dwarf_version": rin.version, "input_rows": rin.sequences.iter().map(|s| s.len()).sum::<usize>()}));
    }
    Ok(out)
}

fn run(ctx: &Ctx) {
    let plans = [
        GenPlan {
            gen: "dwarf",
            cases: ctx.tier.pick(40_000, 400_000),
            min_len: 40,
            max_len: ctx.tier.pick(900, 2500),
        },
        GenPlan {
            gen: "manyfuncs",
            cases: ctx.tier.pick(200, 4000),
            min_len: 40,
            max_len: 900,
        },
    ];
    standard_run(ctx, check, &plans, true);
}

pub fn debug_dump(input: &Input) {
    let (b, eb) = build(input).unwrap();
    let da = decode(&b.bytes).unwrap();
    println!("plan {:?}", b.plan);
    let cs_a = da.code_section_start.unwrap();
    for (fo, f) in da.funcs.iter().enumerate() {
        println!("in func {} entry {:?} body {:?}", fo, f.entry_range, f.body_range);
        for (k, o) in f.ops.iter().enumerate() {
            println!("   #{} @{} (rel {}) {}", k, o.offset, o.offset - cs_a, o.short());
        }
    }
    let cfg = wal::Cfg { dwarf: true, ..wal::Cfg::plain() }.to_config();
    let mut m = cfg.parse(&b.bytes).unwrap();
    let mut ch = Ch::new(&eb);
    let n = 1 + ch.below(4);
    for _ in 0..n {
        println!("insert {:?}", crate::edits::insert_const_drop(&mut m, &mut ch).map(|x| (x.0.index(), x.1)));
    }
    let e = m.emit_wasm();
    let db = decode(&e).unwrap();
    let cs_b = db.code_section_start.unwrap();
    for (fo, f) in db.funcs.iter().enumerate() {
        println!("out func {} entry {:?}", fo, f.entry_range);
        for (k, o) in f.ops.iter().enumerate() {
            println!("   #{} @{} (rel {}) {}", k, o.offset, o.offset - cs_b, o.short());
        }
    }
    let rb = dwarf::read_back(&e).unwrap();
    println!("{:?}", rb);
    {
        let mut iso = crate::iso::Iso::new(&da, &db);
        iso.strip_markers = true;
        let r = iso.run_full();
        println!("insert-mode iso {:?} funcs {:?} ambiguous {:?}", r.map_err(|e| e.signature), iso.funcs.fwd, iso.ambiguous_funcs);
    }
    // GC mode
    let mut m = cfg.parse(&b.bytes).unwrap();
    walrus::passes::gc::run(&mut m);
    let e = m.emit_wasm();
    let db = decode(&e).unwrap();
    let cs_b = db.code_section_start.unwrap_or(0);
    println!("== gc");
    println!("in exports {:?}", da.exports);
    println!("in start {:?} elems {:?}", da.start, da.elems);
    println!("in globals {:?}", da.globals.iter().map(|g| g.init.iter().map(|o| o.short()).collect::<Vec<_>>()).collect::<Vec<_>>());
    {
        let mut iso = crate::iso::Iso::new(&da, &db);
        let r = iso.run_gc();
        println!("iso {:?} funcs {:?} ambiguous {:?}", r.map_err(|e| e.signature), iso.funcs.fwd, iso.ambiguous_funcs);
    }
    for (fo, f) in db.funcs.iter().enumerate() {
        println!("gc-out func {} entry {:?} rel {}..{} first op {:?}", fo, f.entry_range, f.entry_range.start - cs_b, f.entry_range.end - cs_b, f.ops.first().map(|o| o.short()));
    }
    println!("{:?}", dwarf::read_back(&e));
}
