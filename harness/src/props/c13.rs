//! C13 — debug names stay attached to the same entities.

use super::*;
use crate::decode::decode;
use crate::iso::{canonicalise, Iso};
use crate::names::{decode_names, Names};
use crate::ops::Imm;
use crate::optable::validate_walrus;
use crate::wal;
use serde_json::json;
use std::collections::{BTreeMap, BTreeSet, HashMap};

pub fn def() -> PropDef {
    PropDef {
        id: "C13",
        run,
        check,
        meta,
    }
}

fn meta(_ctx: &Ctx) -> EvidenceMeta {
    EvidenceMeta {
        rule: "generated modules that always carry a name section (full or partial: module, functions, locals incl. parameters and unused locals, types, tables, memories, globals, element and data segments), fixtures, real corpus; modes: plain round trip, round trip with synthetic names enabled, GC + emit. non-trivial = >=1 named function changed index or >=1 named non-parameter local changed slot, and names of >=3 kinds present; distinct by module bytes. Oracle: the renumbering bijection is discovered and verified independently (iso); every input name on an entity that is still emitted must appear on its image, and every output name must be the input name of its preimage. Allowances exactly as stated: unused locals/parameters may lose their name, a merged type carries one of the merged names, label/field/tag subsections ignored.".into(),
        assumptions: vec![
            "the name section follows the data section (where the spec places it)".into(),
            "in GC mode ambiguous preimages (content-identical entities) are resolved in favour of the implementation".into(),
        ],
        level: "exploration",
        exhaustive: false,
    }
}

struct KindSpec<'a> {
    kind: &'static str,
    input: &'a BTreeMap<u32, String>,
    output: &'a BTreeMap<u32, String>,
    fwd: &'a HashMap<u32, u32>,
    rev: &'a HashMap<u32, u32>,
    n_out: u32,
    /// input indices whose image was picked among content-identical candidates
    ambiguous: &'a std::collections::HashSet<(&'static str, u32)>,
}

fn check_kind(k: &KindSpec, origin: &str, mode: &str) -> Result<(), Failure> {
    for (i, name) in k.input {
        if k.ambiguous.contains(&(k.kind, *i)) {
            continue;
        }
        if let Some(j) = k.fwd.get(i) {
            match k.output.get(j) {
                Some(n) if n == name => {}
                Some(n) => {
                    return Err(Failure::new(
                        format!("{}-name-changed", k.kind),
                        format!(
                            "[{}] input {} {} is named {:?}; its image {} is named {:?} [{}]",
                            mode, k.kind, i, name, j, n, origin
                        ),
                    ))
                }
                None => {
                    return Err(Failure::new(
                        format!("{}-name-lost", k.kind),
                        format!(
                            "[{}] input {} {} is named {:?}; its image {} has no name [{}]",
                            mode, k.kind, i, name, j, origin
                        ),
                    ))
                }
            }
        }
    }
    for (j, name) in k.output {
        if *j >= k.n_out {
            return Err(Failure::new(
                format!("{}-name-on-nonexistent-entity", k.kind),
                format!("[{}] output names {} {} as {:?} but there are only {} [{}]", mode, k.kind, j, name, k.n_out, origin),
            ));
        }
        match k.rev.get(j) {
            Some(i) if k.ambiguous.contains(&(k.kind, *i)) => {
                // any of the identical candidates may be the true preimage:
                // the name must be the input name of one of them
                let ok = k.ambiguous.iter().any(|(kind, x)| *kind == k.kind && k.input.get(x) == Some(name));
                if !ok {
                    return Err(Failure::new(
                        format!("{}-name-migrated", k.kind),
                        format!("[{}] output {} {} is named {:?}, which none of its identical candidate preimages carries [{}]", mode, k.kind, j, name, origin),
                    ));
                }
            }
            Some(i) => {
                if k.input.get(i) != Some(name) {
                    return Err(Failure::new(
                        format!("{}-name-migrated", k.kind),
                        format!(
                            "[{}] output {} {} is named {:?}, but its preimage {} is named {:?} in the input [{}]",
                            mode,
                            k.kind,
                            j,
                            name,
                            i,
                            k.input.get(i),
                            origin
                        ),
                    ));
                }
            }
            None => {
                // unbound output entity (cannot happen after a verified bijection)
            }
        }
    }
    Ok(())
}

fn check_mode(
    a_bytes: &[u8],
    b_bytes: &[u8],
    gc: bool,
    synthetic: bool,
    origin: &str,
    out: &mut CaseOut,
) -> Result<(), Failure> {
    let mode = if gc {
        "gc"
    } else if synthetic {
        "synthetic-names"
    } else {
        "plain"
    };
    let (da, db) = match (decode(a_bytes), decode(b_bytes)) {
        (Ok(x), Ok(y)) => (x, y),
        _ => {
            out.label("skip:undecodable");
            return Ok(());
        }
    };
    let (na, nb) = match (decode_names(a_bytes), decode_names(b_bytes)) {
        (Ok(x), Ok(y)) => (x, y),
        (Err(_), _) => {
            out.label("skip:input-name-section-malformed");
            return Ok(());
        }
        (_, Err(e)) => {
            return Err(Failure::new(
                "output-name-section-malformed",
                format!("[{}] {} [{}]", mode, e, origin),
            ))
        }
    };
    let mut iso = Iso::new(&da, &db);
    iso.tolerate = vec!["memarg-offset-truncated-to-u32".into()];
    let r = if gc { iso.run_gc() } else { iso.run_full() };
    if let Err(m) = r {
        out.label(format!("skip:structure-mismatch(C03/C04):{}", m.signature));
        return Ok(());
    }
    if !synthetic {
        if na.module != nb.module {
            return Err(Failure::new(
                "module-name",
                format!("[{}] module name {:?} became {:?} [{}]", mode, na.module, nb.module, origin),
            ));
        }
    }
    // with synthetic names on, anonymous items legitimately gain names: only
    // the "input name must survive" direction is checked there
    let empty: BTreeMap<u32, String> = BTreeMap::new();
    // functions have their own ambiguity record
    let mut amb = iso.ambiguous.clone();
    amb.extend(iso.ambiguous_funcs.iter().map(|x| ("function", *x)));
    if !amb.is_empty() {
        out.label("gc:ambiguous-preimages(content-identical entities)");
    }
    let specs = [
        KindSpec { kind: "function", input: &na.funcs, output: &nb.funcs, fwd: &iso.funcs.fwd, rev: &iso.funcs.rev, n_out: db.n_funcs(), ambiguous: &amb },
        KindSpec { kind: "table", input: &na.tables, output: &nb.tables, fwd: &iso.tables.fwd, rev: &iso.tables.rev, n_out: db.n_tables(), ambiguous: &amb },
        KindSpec { kind: "memory", input: &na.mems, output: &nb.mems, fwd: &iso.mems.fwd, rev: &iso.mems.rev, n_out: db.n_mems(), ambiguous: &amb },
        KindSpec { kind: "global", input: &na.globals, output: &nb.globals, fwd: &iso.globals.fwd, rev: &iso.globals.rev, n_out: db.n_globals(), ambiguous: &amb },
        KindSpec { kind: "element", input: &na.elems, output: &nb.elems, fwd: &iso.elems.fwd, rev: &iso.elems.rev, n_out: db.elems.len() as u32, ambiguous: &amb },
        KindSpec { kind: "data", input: &na.datas, output: &nb.datas, fwd: &iso.datas.fwd, rev: &iso.datas.rev, n_out: db.datas.len() as u32, ambiguous: &amb },
    ];
    for s in specs.iter() {
        if synthetic {
            let k = KindSpec { output: s.output, input: s.input, ..*s };
            // only forward direction
            for (i, name) in k.input {
                if let Some(j) = k.fwd.get(i) {
                    if k.output.get(j) != Some(name) {
                        return Err(Failure::new(
                            format!("{}-name-replaced-by-synthetic", k.kind),
                            format!("[{}] input {} {} named {:?}, image {} named {:?} [{}]", mode, k.kind, i, name, j, k.output.get(j), origin),
                        ));
                    }
                }
            }
            let _ = &empty;
        } else {
            check_kind(s, origin, mode)?;
        }
    }
    // types: by signature (de-duplicated types carry one of the merged names)
    {
        let mut in_by_sig: HashMap<String, BTreeSet<String>> = HashMap::new();
        for (i, n) in &na.types {
            if let Some(t) = da.types.get(*i as usize) {
                in_by_sig.entry(format!("{:?}", t)).or_default().insert(n.clone());
            }
        }
        let mut out_by_sig: HashMap<String, BTreeSet<String>> = HashMap::new();
        for (j, n) in &nb.types {
            match db.types.get(*j as usize) {
                Some(t) => {
                    let sig = format!("{:?}", t);
                    out_by_sig.entry(sig.clone()).or_default().insert(n.clone());
                    let ok = in_by_sig.get(&sig).map(|s| s.contains(n)).unwrap_or(false);
                    if !ok && !synthetic {
                        return Err(Failure::new(
                            "type-name-migrated",
                            format!("[{}] output type {} {} is named {:?}; no input type of that signature has this name [{}]", mode, j, sig, n, origin),
                        ));
                    }
                }
                None => {
                    return Err(Failure::new(
                        "type-name-on-nonexistent-entity",
                        format!("[{}] output names type {} [{}]", mode, j, origin),
                    ))
                }
            }
        }
        if !gc {
            for (sig, names) in &in_by_sig {
                let present = db.types.iter().any(|t| format!("{:?}", t) == *sig);
                if present && out_by_sig.get(sig).map(|s| s.is_disjoint(names)).unwrap_or(true) {
                    return Err(Failure::new(
                        "type-name-lost",
                        format!("[{}] input types of signature {} are named {:?}, the output type of that signature carries none of these [{}]", mode, sig, names, origin),
                    ));
                }
            }
        }
    }
    // locals
    let mut slot_changed = false;
    for ((f, l), name) in &na.locals {
        // with synthetic names on, walrus documents that empty local names
        // (wat2wasm's placeholder) are ignored and named synthetically
        if synthetic && name.is_empty() {
            continue;
        }
        let g = match iso.funcs.fwd.get(f) {
            Some(g) => *g,
            None => continue,
        };
        let body = match da.body(*f) {
            Some(b) => b,
            None => continue, // names on an imported function's parameters: nothing is emitted for them
        };
        let np = da.func_sig(*f).map(|s| s.params.len()).unwrap_or(0) as u32;
        let (canon, _) = canonicalise(&body.ops);
        let used = canon.iter().any(|o| o.imms.iter().any(|i| *i == Imm::Local(*l)));
        let image = if *l < np {
            Some(*l)
        } else {
            iso.local_maps.get(&(*f, g)).and_then(|m| m.get(l)).copied()
        };
        if let Some(k) = image {
            if k != *l {
                slot_changed = true;
            }
            match nb.locals.get(&(g, k)) {
                Some(n) if n == name => {}
                Some(n) => {
                    return Err(Failure::new(
                        "local-name-changed",
                        format!("[{}] input local {} of function {} named {:?}; its image local {} of function {} is named {:?} [{}]", mode, l, f, name, k, g, n, origin),
                    ))
                }
                None => {
                    if used {
                        return Err(Failure::new(
                            "local-name-lost",
                            format!("[{}] input local {} of function {} is used and named {:?}; its image local {} of function {} has no name [{}]", mode, l, f, name, k, g, origin),
                        ));
                    } else {
                        out.label("allowance:unused-local-name-dropped");
                    }
                }
            }
        } else {
            out.label("allowance:unused-local-name-dropped");
        }
    }
    if !synthetic {
        for ((g, k), name) in &nb.locals {
            let f = match iso.funcs.rev.get(g) {
                Some(f) => *f,
                None => continue,
            };
            let np = db.func_sig(*g).map(|s| s.params.len()).unwrap_or(0) as u32;
            let pre = if *k < np {
                Some(*k)
            } else {
                iso.local_maps
                    .get(&(f, *g))
                    .and_then(|m| m.iter().find(|(_, v)| **v == *k).map(|(x, _)| *x))
            };
            match pre {
                Some(l) => {
                    if na.locals.get(&(f, l)) != Some(name) {
                        return Err(Failure::new(
                            "local-name-migrated",
                            format!("[{}] output local {} of function {} is named {:?}, but its preimage local {} of function {} is named {:?} [{}]", mode, k, g, name, l, f, na.locals.get(&(f, l)), origin),
                        ));
                    }
                }
                None => {
                    // The slot holds a local that only occurs in code the
                    // comparison ignores (dead code walrus happens to keep).
                    // It must at least be the name of an otherwise unmapped
                    // input local of that function.
                    let mapped: BTreeSet<u32> = iso
                        .local_maps
                        .get(&(f, *g))
                        .map(|m| m.keys().copied().collect())
                        .unwrap_or_default();
                    let ok = na
                        .locals
                        .iter()
                        .any(|((ff, l), n)| *ff == f && n == name && *l >= np && !mapped.contains(l));
                    if !ok {
                        return Err(Failure::new(
                            "local-name-on-unmapped-slot",
                            format!("[{}] output names local {} of function {} ({:?}) which corresponds to no input local [{}]", mode, k, g, name, origin),
                        ));
                    }
                    out.label("allowance:name-on-local-used-only-in-retained-dead-code");
                }
            }
        }
    }
    let func_moved = na.funcs.keys().any(|i| iso.funcs.fwd.get(i).map(|j| j != i).unwrap_or(false));
    if func_moved {
        out.label("named-function-changed-index");
    }
    if slot_changed {
        out.label("named-local-changed-slot");
    }
    let kinds = [
        !na.funcs.is_empty(),
        !na.locals.is_empty(),
        !na.types.is_empty(),
        !na.tables.is_empty(),
        !na.mems.is_empty(),
        !na.globals.is_empty(),
        !na.elems.is_empty(),
        !na.datas.is_empty(),
        na.module.is_some(),
    ]
    .iter()
    .filter(|x| **x)
    .count();
    if (func_moved || slot_changed) && kinds >= 3 {
        out.nontrivial = true;
    }
    let _: &Names = &na;
    Ok(())
}

pub fn check(_ctx: &Ctx, input: &Input) -> CaseResult {
    let mut out = CaseOut::default();
    let p = match prepare(input) {
        Some(p) => p,
        None => return Ok(out),
    };
    out.hash = fnv(&p.bytes);
    if validate_walrus(&p.bytes).is_err() {
        out.label("skip:input-invalid");
        return Ok(out);
    }
    // the fourth pass switches the producers section off: names are a
    // separate switch and must be unaffected
    for (gc, synthetic, producers) in [(false, false, true), (false, true, true), (true, false, true), (false, false, false)] {
        let cfg = wal::Cfg {
            synthetic_names: synthetic,
            producers,
            ..wal::Cfg::plain()
        };
        let b = match wal::roundtrip(&p.bytes, cfg, gc) {
            Ok(Some(b)) => b,
            Ok(None) => {
                out.label("skip:walrus-rejected(C05)");
                return Ok(out);
            }
            Err(_) => {
                out.label("skip:panic(C02)");
                return Ok(out);
            }
        };
        check_mode(&p.bytes, &b, gc, synthetic, &p.origin, &mut out)?;
    }
    export_replacement_mode(&p, &mut out)?;
    import_replacement_mode(&p, &mut out)?;
    added_import_mode(&p, &mut out)?;
    if out.nontrivial {
        out.sample = Some(json!({"origin": p.origin, "bytes": p.bytes.len(), "labels": out.labels}));
    }
    Ok(out)
}

/// After `replace_exported_func` every input function is still emitted (the
/// replacement is an additional function): each keeps its name. Identity is
/// witnessed by the generator's per-function tag, no bijection needed.
fn export_replacement_mode(p: &Prepared, out: &mut CaseOut) -> Result<(), Failure> {
    let da = match decode(&p.bytes) {
        Ok(d) => d,
        Err(_) => return Ok(()),
    };
    let n_imp = da.imp_funcs.len() as u32;
    let target = match da.exports.iter().find(|e| e.kind == crate::decode::ExtKind::Func && e.index >= n_imp) {
        Some(e) => e.index,
        None => return Ok(()),
    };
    let in_tags: Vec<Option<i64>> = (0..da.n_funcs()).map(|i| da.func_tag(i)).collect();
    let mut seen = std::collections::HashSet::new();
    if !in_tags.iter().flatten().all(|t| seen.insert(*t)) || in_tags[n_imp as usize..].iter().any(|t| t.is_none()) {
        return Ok(());
    }
    let na = match decode_names(&p.bytes) {
        Ok(n) if !n.funcs.is_empty() => n,
        _ => return Ok(()),
    };
    let slot = std::sync::Arc::new(std::sync::Mutex::new(None));
    let s2 = slot.clone();
    let mut cfg = wal::Cfg::plain().to_config();
    cfg.on_parse(move |_m, ids| {
        *s2.lock().unwrap() = Some(ids.get_func(target)?);
        Ok(())
    });
    let mut m = match wal::parse(&p.bytes, &cfg) {
        Ok(Ok(m)) => m,
        _ => return Ok(()),
    };
    let fid = match *slot.lock().unwrap() {
        Some(f) => f,
        None => return Ok(()),
    };
    let r = guard("replace_exported_func", || {
        m.replace_exported_func(fid, |(b, _)| {
            b.unreachable();
        })
        .is_ok()
    });
    if !matches!(r, Ok(true)) {
        return Ok(()); // C18's business
    }
    let edited = match wal::emit(&mut m) {
        Ok(b) => b,
        Err(_) => return Ok(()),
    };
    let (db, nb) = match (decode(&edited), decode_names(&edited)) {
        (Ok(d), Ok(n)) => (d, n),
        _ => return Ok(()),
    };
    for (i, name) in &na.funcs {
        let t = match in_tags.get(*i as usize).copied().flatten() {
            Some(t) => t,
            None => continue,
        };
        let js: Vec<u32> = (0..db.n_funcs()).filter(|j| db.func_tag(*j) == Some(t)).collect();
        if js.len() != 1 {
            continue;
        }
        if nb.funcs.get(&js[0]) != Some(name) {
            return Err(Failure::new(
                "function-name-lost-or-changed:after-export-replacement",
                format!(
                    "input function {} (tag {:#x}) is named {:?}; after replace_exported_func on function {} it is emitted at index {} named {:?} [{}]",
                    i, t, name, target, js[0], nb.funcs.get(&js[0]), p.origin
                ),
            ));
        }
    }
    for (j, name) in &nb.funcs {
        if db.body(*j).is_some() && db.func_tag(*j).is_none() && na.funcs.values().any(|n| n == name) {
            return Err(Failure::new(
                "function-name-migrated:after-export-replacement",
                format!("the function built by replace_exported_func (output index {}) carries the input name {:?} [{}]", j, name, p.origin),
            ));
        }
    }
    out.label("mode:after-export-replacement");
    Ok(())
}

/// After `add_import_global` / `add_import_table` / `add_import_memory` the
/// new imports sit at the end of their arenas but are emitted with the other
/// imports, ahead of every local entity: the local entities of that kind move
/// up by one index (walrus emits them in arena order, which the plain round
/// trip modes above establish), and each must carry its name along. The added
/// imports are unnamed.
fn added_import_mode(p: &Prepared, out: &mut CaseOut) -> Result<(), Failure> {
    // baseline: the names of the plain round trip (which the modes above have
    // checked against the input), so that a name section walrus reads only in
    // part is not held against the edit
    let plain = match wal::roundtrip(&p.bytes, wal::Cfg::plain(), false) {
        Ok(Some(b)) => b,
        _ => return Ok(()),
    };
    let da = match decode(&plain) {
        Ok(d) => d,
        Err(_) => return Ok(()),
    };
    let na = match decode_names(&plain) {
        Ok(n) if !(n.globals.is_empty() && n.tables.is_empty() && n.mems.is_empty()) => n,
        _ => return Ok(()),
    };
    let cfg = wal::Cfg::plain().to_config();
    let mut m = match wal::parse(&p.bytes, &cfg) {
        Ok(Ok(m)) => m,
        _ => return Ok(()),
    };
    let r = guard("add_import_*", || {
        m.add_import_global("verif", "g", walrus::ValType::I32, false, false);
        m.add_import_table("verif", "t", false, 0, None, walrus::RefType::Funcref);
        m.add_import_memory("verif", "m", false, false, 0, None, None);
    });
    if r.is_err() {
        return Ok(());
    }
    let edited = match wal::emit(&mut m) {
        Ok(b) => b,
        Err(_) => return Ok(()),
    };
    let (db, nb) = match (decode(&edited), decode_names(&edited)) {
        (Ok(d), Ok(n)) => (d, n),
        _ => return Ok(()),
    };
    let kinds: [(&str, &std::collections::BTreeMap<u32, String>, &std::collections::BTreeMap<u32, String>, u32, u32, u32); 3] = [
        ("global", &na.globals, &nb.globals, da.imp_globals.len() as u32, da.n_globals(), db.n_globals()),
        ("table", &na.tables, &nb.tables, da.imp_tables.len() as u32, da.n_tables(), db.n_tables()),
        ("memory", &na.mems, &nb.mems, da.imp_mems.len() as u32, da.n_mems(), db.n_mems()),
    ];
    for (kind, a, b, n_imp, n_in, n_out) in kinds {
        if n_out != n_in + 1 {
            continue; // not the shape this mode reasons about
        }
        let expect: std::collections::BTreeMap<u32, String> = a
            .iter()
            .filter(|(i, _)| **i < n_in)
            .map(|(i, n)| (if *i < n_imp { *i } else { *i + 1 }, n.clone()))
            .collect();
        if expect.is_empty() {
            continue;
        }
        if *b != expect {
            return Err(Failure::new(
                format!("{}-name-migrated-or-lost:after-added-import", kind),
                format!(
                    "input {} names {:?} ({} imported, {} in all); after add_import_{} the output has {:?}, expected {:?} [{}]",
                    kind, a, n_imp, n_in, kind, b, expect, p.origin
                ),
            ));
        }
        out.nontrivial = true;
        out.label("mode:after-added-import");
    }
    Ok(())
}

fn run(ctx: &Ctx) {
    let plans = [GenPlan {
        gen: "names",
        cases: ctx.tier.pick(100_000, 1_000_000),
        min_len: 0,
        max_len: ctx.tier.pick(1500, 3000),
    }];
    standard_run(ctx, check, &plans, true);
}

/// After `replace_imported_func` the function keeps its id, hence its name;
/// every other function keeps its own. Identity again by tags: the replaced
/// function is the only local function of the output without a tag.
fn import_replacement_mode(p: &Prepared, out: &mut CaseOut) -> Result<(), Failure> {
    let da = match decode(&p.bytes) {
        Ok(d) => d,
        Err(_) => return Ok(()),
    };
    let n_imp = da.imp_funcs.len() as u32;
    if n_imp == 0 {
        return Ok(());
    }
    let in_tags: Vec<Option<i64>> = (0..da.n_funcs()).map(|i| da.func_tag(i)).collect();
    let mut seen = std::collections::HashSet::new();
    if !in_tags.iter().flatten().all(|t| seen.insert(*t)) || in_tags[n_imp as usize..].iter().any(|t| t.is_none()) {
        return Ok(());
    }
    let na = match decode_names(&p.bytes) {
        Ok(n) if !n.funcs.is_empty() => n,
        _ => return Ok(()),
    };
    // prefer an import that has a name
    let target = (0..n_imp).find(|i| na.funcs.contains_key(i)).unwrap_or(0);
    let slot = std::sync::Arc::new(std::sync::Mutex::new(None));
    let s2 = slot.clone();
    let mut cfg = wal::Cfg::plain().to_config();
    cfg.on_parse(move |_m, ids| {
        *s2.lock().unwrap() = Some(ids.get_func(target)?);
        Ok(())
    });
    let mut m = match wal::parse(&p.bytes, &cfg) {
        Ok(Ok(m)) => m,
        _ => return Ok(()),
    };
    let fid = match *slot.lock().unwrap() {
        Some(f) => f,
        None => return Ok(()),
    };
    let r = guard("replace_imported_func", || {
        m.replace_imported_func(fid, |(b, _)| {
            b.unreachable();
        })
        .is_ok()
    });
    if !matches!(r, Ok(true)) {
        return Ok(()); // C18's business
    }
    let edited = match wal::emit(&mut m) {
        Ok(b) => b,
        Err(_) => return Ok(()),
    };
    let (db, nb) = match (decode(&edited), decode_names(&edited)) {
        (Ok(d), Ok(n)) => (d, n),
        _ => return Ok(()),
    };
    let nib = db.imp_funcs.len() as u32;
    let untagged: Vec<u32> = (nib..db.n_funcs()).filter(|j| db.func_tag(*j).is_none()).collect();
    if untagged.len() == 1 {
        let j = untagged[0];
        if nb.funcs.get(&j) != na.funcs.get(&target) {
            return Err(Failure::new(
                "function-name-lost-or-changed:after-import-replacement",
                format!(
                    "imported function {} is named {:?}; after replace_imported_func it is emitted at index {} named {:?} [{}]",
                    target, na.funcs.get(&target), j, nb.funcs.get(&j), p.origin
                ),
            ));
        }
    }
    for (i, name) in &na.funcs {
        let t = match in_tags.get(*i as usize).copied().flatten() {
            Some(t) => t,
            None => continue,
        };
        let js: Vec<u32> = (0..db.n_funcs()).filter(|j| db.func_tag(*j) == Some(t)).collect();
        if js.len() == 1 && nb.funcs.get(&js[0]) != Some(name) {
            return Err(Failure::new(
                "function-name-lost-or-changed:after-import-replacement",
                format!("input function {} is named {:?}; after replace_imported_func on import {} it is emitted at index {} named {:?} [{}]", i, name, target, js[0], nb.funcs.get(&js[0]), p.origin),
            ));
        }
    }
    out.label("mode:after-import-replacement");
    Ok(())
}
