//! C14 — configuration switches do exactly what they document.

use super::*;
use crate::ch::Ch;
use crate::decode::{raw_sections, RawSection};
use crate::optable::{validate_with, walrus_features};
use crate::wal;
use serde_json::json;
use std::sync::atomic::{AtomicUsize, Ordering};
use std::sync::Arc;

pub fn def() -> PropDef {
    PropDef {
        id: "C14",
        run,
        check,
        meta,
    }
}

fn meta(_ctx: &Ctx) -> EvidenceMeta {
    EvidenceMeta {
        rule: "all 2^5 combinations of {name, producers, DWARF, code-transform, only-stable} (exhaustive per case) x generated modules with and without name / producers (incl. a pre-existing walrus entry of another version) / .debug_* sections (well-formed synthesized DWARF) x 1-3 round trips; plus mutants (valid and invalid) for the parse callback. non-trivial = the flipped switch had something to act on (input carries a name section, producers section or DWARF) or the input is rejected (callback must stay silent); distinct by input bytes. Oracle (metamorphic, one switch at a time): name off = identical section list minus exactly the name section; producers off likewise; .debug_* sections in the output iff DWARF generation on and input carried them; code-transform flag alone changes nothing; producers on: every input (field,name,version) present, processed-by has exactly one walrus entry after k round trips; on_parse count = 1 after Ok, 0 after Err.".into(),
        assumptions: vec!["generate_dwarf(true) forces preserve_code_transform, as documented; the pair is flipped accordingly".into()],
        level: "exploration",
        exhaustive: false,
    }
}

fn sec_key(bytes: &[u8], s: &RawSection) -> (u8, Option<String>, Vec<u8>) {
    (s.id, s.name.clone(), bytes[s.whole.clone()].to_vec())
}

fn is_named(s: &RawSection, n: &str) -> bool {
    s.id == 0 && s.name.as_deref() == Some(n)
}

fn is_debug(s: &RawSection) -> bool {
    s.id == 0 && s.name.as_deref().map(|n| n.starts_with(".debug")).unwrap_or(false)
}

type Producers = Vec<(String, Vec<(String, String)>)>;

fn producers(bytes: &[u8]) -> Option<Producers> {
    let secs = raw_sections(bytes).ok()?;
    // an input may carry more than one producers section: their fields add up
    let mut out: Producers = Vec::new();
    let mut any = false;
    for s in secs.iter().filter(|s| is_named(s, "producers")) {
        any = true;
        let payload = &bytes[s.payload.clone()];
        let nlen = crate::decode::leb_len(9) + 9;
        let data = &payload[nlen..];
        let r = wasmparser::ProducersSectionReader::new(wasmparser::BinaryReader::new(
            data,
            0,
            wasmparser::WasmFeatures::all(),
        ))
        .ok()?;
        for f in r {
            let f = f.ok()?;
            let mut vals = Vec::new();
            for v in f.values {
                let v = v.ok()?;
                vals.push((v.name.to_string(), v.version.to_string()));
            }
            out.push((f.name.to_string(), vals));
        }
    }
    if !any {
        return None;
    }
    Some(out)
}

/// one case in three runs all its configurations with synthetic names for
/// anonymous items on (a sixth switch; it only adds names to the name section)
thread_local! {
    static SYNTHETIC: std::cell::Cell<bool> = std::cell::Cell::new(false);
}

fn cfg_of(bits: u8) -> wal::Cfg {
    wal::Cfg {
        names: bits & 1 != 0,
        producers: bits & 2 != 0,
        dwarf: bits & 4 != 0,
        code_transform: bits & 8 != 0,
        only_stable: bits & 16 != 0,
        synthetic_names: SYNTHETIC.with(|s| s.get()),
    }
}

/// how the bytes reach the parser
#[derive(Clone, Copy, Debug, PartialEq)]
enum Entry {
    ConfigParse,
    ConfigParseFile,
    ModuleFromFileWithConfig,
    ModuleFromBufferWithConfig,
}

fn parse_counting(bytes: &[u8], cfg: wal::Cfg) -> Result<(Result<walrus::Module, String>, usize), Failure> {
    parse_counting_via(bytes, cfg, 0, Entry::ConfigParse)
}

fn parse_counting_via(bytes: &[u8], cfg: wal::Cfg, hist: u8, entry: Entry) -> Result<(Result<walrus::Module, String>, usize), Failure> {
    let counter = Arc::new(AtomicUsize::new(0));
    let c2 = counter.clone();
    let mut c = cfg.to_config_hist(hist);
    // "subsequent registrations override the old ones": a callback registered
    // first must never run
    let stale = Arc::new(AtomicUsize::new(0));
    if hist & 1 != 0 {
        let s2 = stale.clone();
        c.on_parse(move |_m, _ids| {
            s2.fetch_add(1, Ordering::SeqCst);
            Ok(())
        });
    }
    c.on_parse(move |_m, _ids| {
        c2.fetch_add(1, Ordering::SeqCst);
        Ok(())
    });
    let r = match entry {
        Entry::ConfigParse => wal::parse(bytes, &c)?,
        Entry::ModuleFromBufferWithConfig => {
            crate::run::guard("parse", || walrus::Module::from_buffer_with_config(bytes, &c).map_err(|e| format!("{:#}", e)))?
        }
        Entry::ConfigParseFile | Entry::ModuleFromFileWithConfig => {
            let path = std::env::temp_dir().join(format!(
                "walrus-verif-c14-{}-{:?}.wasm",
                std::process::id(),
                std::thread::current().id()
            ));
            std::fs::write(&path, bytes).map_err(|e| Failure::new("infra:tempfile", e.to_string()))?;
            let r = crate::run::guard("parse", || {
                if entry == Entry::ConfigParseFile {
                    c.parse_file(&path).map_err(|e| format!("{:#}", e))
                } else {
                    walrus::Module::from_file_with_config(&path, &c).map_err(|e| format!("{:#}", e))
                }
            });
            let _ = std::fs::remove_file(&path);
            r?
        }
    };
    if stale.load(Ordering::SeqCst) != 0 {
        return Err(Failure::new(
            "on_parse-overridden-callback-ran",
            format!("an on_parse callback that a later registration replaced ran {} times", stale.load(Ordering::SeqCst)),
        ));
    }
    Ok((r, counter.load(Ordering::SeqCst)))
}

/// a second, well-formed `name` section (module name only)
fn second_name_section() -> Vec<u8> {
    let payload = [&[4u8][..], b"name", &[0u8, 7, 6], b"second"].concat();
    let mut s = vec![0u8, payload.len() as u8];
    s.extend(payload);
    s
}

pub fn check(_ctx: &Ctx, input: &Input) -> CaseResult {
    let mut out = CaseOut::default();
    // build the input
    let (bytes, origin) = match input {
        Input::Choices { gen, bytes } if gen == "c14-mutant" => {
            let mut o = CaseOut::default();
            match super::c05::materialise(
                &Input::Choices {
                    gen: "mutant".into(),
                    bytes: bytes.clone(),
                },
                &mut o,
            ) {
                Some(x) => x,
                None => return Ok(out),
            }
        }
        Input::Choices { gen, bytes } => {
            // header byte: whether to attach synthesized DWARF
            let want_dwarf = bytes.first().map(|b| b % 3 == 0).unwrap_or(false);
            let rest: Vec<u8> = bytes.iter().skip(1).copied().collect();
            let p = prepare(&Input::Choices {
                gen: gen.clone(),
                bytes: rest,
            })
            .unwrap();
            let mut b = p.bytes;
            if want_dwarf {
                let mut ch = Ch::new(bytes);
                // section order carries no meaning: a third of the inputs have
                // their DWARF sections in reverse order, another third carry an
                // (unreferenced, header-only) `.debug_str_offsets` table in
                // front of `.debug_str`
                let variant = bytes.get(2).copied().unwrap_or(0) % 3;
                if let Some(with) = crate::dwarf::attach_dwarf_with(&b, &mut ch, variant == 1, variant == 2) {
                    b = with;
                    match variant {
                        1 => out.label("input:dwarf-sections-reversed"),
                        2 => out.label("input:dwarf-with-str-offsets-table"),
                        _ => {}
                    }
                } else if let Some(with) = crate::dwarf::attach_dwarf_codeless(&b) {
                    b = with;
                    out.label("input:dwarf-without-code");
                }
            }
            if bytes.first().map(|b| b % 5 == 1).unwrap_or(false) {
                b.extend(second_name_section());
                out.label("input:extra-name-section");
            }
            // a `name` section whose function-name map announces more entries
            // than it has (walrus warns and ignores what it cannot read)
            if bytes.first().map(|b| b % 7 == 3).unwrap_or(false) {
                let payload = [&[4u8][..], b"name", &[1u8, 4, 2, 0, 1, b'x']].concat();
                b.push(0);
                b.push(payload.len() as u8);
                b.extend(payload);
                out.label("input:truncated-name-map");
            }
            // DWARF sections that the DWARF reader does not load
            if want_dwarf && bytes.get(1).map(|b| b % 3 == 0).unwrap_or(false) {
                for name in [".debug_pubnames", ".debug_frame"] {
                    let payload = [&[name.len() as u8][..], name.as_bytes(), &[1u8, 2, 3]].concat();
                    b.push(0);
                    b.push(payload.len() as u8);
                    b.extend(payload);
                }
                out.label("input:uncommon-debug-sections");
            }
            (b, p.origin)
        }
        Input::Wasm { origin, bytes } => (bytes.clone(), origin.clone()),
        _ => return Ok(out),
    };
    out.hash = fnv(&bytes);
    let synthetic = (out.hash >> 24) % 3 == 0;
    SYNTHETIC.with(|s| s.set(synthetic));
    if synthetic {
        out.label("config:synthetic-names");
    }
    let valid = [
        validate_with(&bytes, walrus_features(false)).is_ok(),
        validate_with(&bytes, walrus_features(true)).is_ok(),
    ];
    let in_secs = raw_sections(&bytes).unwrap_or_default();
    let has_name = in_secs.iter().any(|s| is_named(s, "name"));
    let has_prod = in_secs.iter().any(|s| is_named(s, "producers"));
    let has_debug = in_secs.iter().any(is_debug);
    if has_name {
        out.label("input:name-section");
    }
    if has_prod {
        out.label("input:producers-section");
    }
    if has_debug {
        out.label("input:debug-sections");
    }
    let in_prod = producers(&bytes);

    // every other case reaches its configurations through a setter history;
    // the order of the DWARF and code-transform setters (bit 5) is the same
    // for all configurations of a case, because DWARF-on followed by
    // transform-off is a different effective configuration than the reverse
    // order, and the relations below compare configurations that differ in
    // one switch only
    let case_hash = out.hash;
    let hist_of = move |bits: u8| -> u8 {
        if case_hash & 1 == 1 {
            (((case_hash >> 8) as u8).wrapping_add(bits.wrapping_mul(7)) & 31) | (((case_hash >> 20) as u8 & 1) << 5)
        } else {
            0
        }
    };
    let mut outputs: Vec<Option<Vec<u8>>> = Vec::new();
    let mut rejected = [false; 32];
    for bits in 0u8..32 {
        let cfg = cfg_of(bits);
        let (r, count) = parse_counting_via(&bytes, cfg, hist_of(bits), Entry::ConfigParse)?;
        match r {
            Ok(mut m) => {
                if count != 1 {
                    return Err(Failure::new(
                        "on_parse-count-after-ok",
                        format!("parse succeeded but the on_parse callback ran {} times (config bits {:05b}) [{}]", count, bits, origin),
                    ));
                }
                if !valid[cfg.only_stable as usize] {
                    out.label("skip:unsound-accept(C05)");
                    return Ok(out);
                }
                // DWARF emission of arbitrary (not well-formed) .debug_* bytes is
                // documented as experimental: only synthesized DWARF goes through it
                let dwarf_ok = !cfg.dwarf || !has_debug || origin.starts_with("gen:");
                if !dwarf_ok {
                    outputs.push(None);
                    continue;
                }
                // what a switch documents holds for every emission of the
                // module, not only the first: a quarter of the configurations
                // are judged by their second emission
                let judge_second = (bits as u64 + (case_hash >> 3)) % 4 == 0;
                let first = wal::emit(&mut m);
                let emitted = if judge_second && first.is_ok() { wal::emit(&mut m) } else { first };
                match emitted {
                    Ok(b) => outputs.push(Some(b)),
                    Err(f) => {
                        if cfg.dwarf && has_debug {
                            out.label(format!("skip:dwarf-emit-panic(C10):{}", f.signature));
                            outputs.push(None);
                        } else {
                            out.label("skip:emit-panic(C02)");
                            return Ok(out);
                        }
                    }
                }
            }
            Err(_) => {
                if count != 0 {
                    return Err(Failure::new(
                        "on_parse-ran-on-failed-parse",
                        format!("parse failed but the on_parse callback ran {} times (config bits {:05b}) [{}]", count, bits, origin),
                    ));
                }
                rejected[bits as usize] = true;
                outputs.push(None);
            }
        }
    }
    // the other documented entry points: same verdict, same callback count,
    // same output as ModuleConfig::parse with the same configuration
    {
        let bits = ((out.hash >> 16) % 32) as u8;
        let cfg = cfg_of(bits);
        for entry in [Entry::ConfigParseFile, Entry::ModuleFromFileWithConfig, Entry::ModuleFromBufferWithConfig] {
            let (r, count) = parse_counting_via(&bytes, cfg, hist_of(bits), entry)?;
            if r.is_ok() == rejected[bits as usize] && (r.is_ok() || outputs[bits as usize].is_some()) {
                return Err(Failure::new(
                    "entry-point-changes-verdict",
                    format!("{:?} accepted: {}, ModuleConfig::parse with the same configuration (bits {:05b}) accepted: {} [{}]", entry, r.is_ok(), bits, !rejected[bits as usize], origin),
                ));
            }
            match r {
                Ok(mut m) => {
                    if count != 1 {
                        return Err(Failure::new(
                            "on_parse-count-after-ok",
                            format!("{:?} succeeded but the on_parse callback ran {} times (config bits {:05b}) [{}]", entry, count, bits, origin),
                        ));
                    }
                    if let Some(want) = outputs[bits as usize].as_ref() {
                        if let Ok(got) = wal::emit(&mut m) {
                            if &got != want {
                                return Err(Failure::new(
                                    "entry-point-changes-output",
                                    format!("{:?} and ModuleConfig::parse give different output for config bits {:05b} [{}]", entry, bits, origin),
                                ));
                            }
                        }
                    }
                }
                Err(_) => {
                    if count != 0 {
                        return Err(Failure::new(
                            "on_parse-ran-on-failed-parse",
                            format!("{:?} failed but the on_parse callback ran {} times (config bits {:05b}) [{}]", entry, count, bits, origin),
                        ));
                    }
                }
            }
        }
        // default-configuration entry points and the file-writing emitter
        {
            let path = std::env::temp_dir().join(format!("walrus-verif-c14d-{}-{:?}.wasm", std::process::id(), std::thread::current().id()));
            let path2 = path.with_extension("out.wasm");
            if std::fs::write(&path, &bytes).is_ok() {
                let a = crate::run::guard("parse", || walrus::Module::from_file(&path).map_err(|e| format!("{:#}", e)))?;
                let b = crate::run::guard("parse", || walrus::Module::from_buffer(&bytes).map_err(|e| format!("{:#}", e)))?;
                match (a, b) {
                    (Ok(mut ma), Ok(mut mb)) => {
                        if let (Ok(x), Ok(y)) = (wal::emit(&mut ma), wal::emit(&mut mb)) {
                            if x != y {
                                return Err(Failure::new("entry-point-changes-output", format!("Module::from_file and Module::from_buffer give different output [{}]", origin)));
                            }
                            // same module, written to a file
                            let w = crate::run::guard("emit", || mb.emit_wasm_file(&path2).map_err(|e| format!("{:#}", e)))?;
                            match w {
                                Ok(()) => {
                                    let z = std::fs::read(&path2).unwrap_or_default();
                                    if z != y {
                                        return Err(Failure::new("emit_wasm_file-differs-from-emit_wasm", format!("{} vs {} bytes [{}]", z.len(), y.len(), origin)));
                                    }
                                }
                                Err(e) => return Err(Failure::new("emit_wasm_file-failed", format!("{} [{}]", e, origin))),
                            }
                        }
                    }
                    (Err(_), Err(_)) => {}
                    (a, b) => {
                        return Err(Failure::new(
                            "entry-point-changes-verdict",
                            format!("Module::from_file accepted: {}, Module::from_buffer accepted: {} [{}]", a.is_ok(), b.is_ok(), origin),
                        ))
                    }
                }
            }
            let _ = std::fs::remove_file(&path);
            let _ = std::fs::remove_file(&path2);
        }
        out.label("entry-points:file+buffer");
    }
    if !valid[0] {
        out.label("input:rejected");
        out.nontrivial = bytes.len() > 8;
        return Ok(out);
    }
    // mutated inputs (duplicated / damaged producers or name sections are not
    // well-formed inputs of the switch relations) only serve the callback count
    if origin.starts_with("mutant") {
        out.label("mutant:callback-count-only");
        out.nontrivial = true;
        return Ok(out);
    }
    // metamorphic relations between configs differing in one switch
    let get = |bits: u8| outputs[bits as usize].as_ref();
    for bits in 0u8..32 {
        let base = match get(bits) {
            Some(b) => b,
            None => continue,
        };
        let bs = raw_sections(base).map_err(|e| Failure::new("output-unparsable", e.to_string()))?;
        let cfg = cfg_of(bits);
        // DWARF presence
        let out_debug = bs.iter().any(is_debug);
        if out_debug && !cfg.dwarf {
            return Err(Failure::new(
                "debug-sections-emitted-with-dwarf-off",
                format!("config bits {:05b}: output carries .debug_* sections although DWARF generation is off [{}]", bits, origin),
            ));
        }
        if cfg.dwarf && has_debug && !out_debug {
            return Err(Failure::new(
                "debug-sections-dropped-with-dwarf-on",
                format!("config bits {:05b}: input carries DWARF, DWARF generation is on, output has no .debug_* section [{}]", bits, origin),
            ));
        }
        // "carried into the output": the subprograms the input's DWARF
        // names are the subprograms the output's DWARF names
        if cfg.dwarf && has_debug && out_debug && origin.starts_with("gen:") {
            if let (Ok(ri), Ok(ro)) = (crate::dwarf::read_back(&bytes), crate::dwarf::read_back(base)) {
                let ni: Vec<&String> = ri.subprograms.keys().collect();
                let no: Vec<&String> = ro.subprograms.keys().collect();
                if ni != no {
                    return Err(Failure::new(
                        "debug-content-not-carried:subprogram-names",
                        format!("config bits {:05b}: input DWARF names subprograms {:?}, output DWARF names {:?} [{}]", bits, ni, no, origin),
                    ));
                }
                out.label("dwarf-content-compared");
            }
        }
        if out_debug && !has_debug {
            return Err(Failure::new(
                "debug-sections-invented",
                format!("config bits {:05b}: output has .debug_* sections the input did not carry [{}]", bits, origin),
            ));
        }
        // name switch
        if cfg.names {
            if let Some(other) = get(bits & !1) {
                let os = raw_sections(other).unwrap_or_default();
                let a: Vec<_> = bs.iter().filter(|s| !is_named(s, "name")).map(|s| sec_key(base, s)).collect();
                let b: Vec<_> = os.iter().map(|s| sec_key(other, s)).collect();
                if os.iter().any(|s| is_named(s, "name")) {
                    return Err(Failure::new(
                        "name-section-emitted-when-disabled",
                        format!("config bits {:05b} [{}]", bits & !1, origin),
                    ));
                }
                if a != b {
                    return Err(Failure::new(
                        "name-switch-changes-other-sections",
                        format!("configs {:05b} vs {:05b}: sections other than `name` differ [{}]", bits, bits & !1, origin),
                    ));
                }
                if has_name && !bs.iter().any(|s| is_named(s, "name")) {
                    // an input name section with nothing nameable is possible; count it
                    out.label("name-section-empty-after-roundtrip");
                }
            }
        }
        // producers switch
        if cfg.producers {
            if let Some(other) = get(bits & !2) {
                let os = raw_sections(other).unwrap_or_default();
                let a: Vec<_> = bs.iter().filter(|s| !is_named(s, "producers")).map(|s| sec_key(base, s)).collect();
                let b: Vec<_> = os.iter().map(|s| sec_key(other, s)).collect();
                if os.iter().any(|s| is_named(s, "producers")) {
                    return Err(Failure::new(
                        "producers-section-emitted-when-disabled",
                        format!("config bits {:05b} [{}]", bits & !2, origin),
                    ));
                }
                if a != b {
                    return Err(Failure::new(
                        "producers-switch-changes-other-sections",
                        format!("configs {:05b} vs {:05b}: sections other than `producers` differ [{}]", bits, bits & !2, origin),
                    ));
                }
            }
            // content
            let op = producers(base).ok_or_else(|| {
                Failure::new(
                    "producers-section-missing-or-malformed",
                    format!("config bits {:05b}: producers generation is on but the output has no well-formed producers section [{}]", bits, origin),
                )
            })?;
            check_producers(&in_prod, &op, 1, &origin)?;
        }
        // code-transform alone changes nothing (when DWARF is off)
        if cfg.code_transform && !cfg.dwarf {
            if let Some(other) = get(bits & !8) {
                if other != base {
                    return Err(Failure::new(
                        "code-transform-switch-changes-output",
                        format!("configs {:05b} vs {:05b} differ [{}]", bits, bits & !8, origin),
                    ));
                }
            }
        }
        // only-stable: same output when both accept
        if cfg.only_stable {
            if let Some(other) = get(bits & !16) {
                if other != base {
                    return Err(Failure::new(
                        "only-stable-switch-changes-output",
                        format!("configs {:05b} vs {:05b} differ [{}]", bits, bits & !16, origin),
                    ));
                }
            }
        }
    }
    // repeated round trips: walrus recorded exactly once
    if let Some(first) = get(3) {
        let mut cur = first.clone();
        for k in 2..=3 {
            match wal::roundtrip(&cur, cfg_of(3), false) {
                Ok(Some(n)) => {
                    let op = producers(&n).ok_or_else(|| Failure::new("producers-section-missing-or-malformed", format!("after {} round trips [{}]", k, origin)))?;
                    check_producers(&in_prod, &op, k, &origin)?;
                    cur = n;
                }
                _ => break,
            }
        }
    }
    // producers edited through the API: additions are emitted next to the
    // input's fields and walrus is still recorded once; clear() leaves walrus only
    {
        let cfg = cfg_of(3).to_config();
        if let Ok(Ok(mut m)) = wal::parse(&bytes, &cfg) {
            m.producers.add_language("verif-lang", "1.0");
            m.producers.add_sdk("verif-sdk", "2");
            m.producers.add_processed_by("verif-tool", "3");
            if let Ok(b) = wal::emit(&mut m) {
                let op = producers(&b).ok_or_else(|| Failure::new("producers-section-missing-or-malformed", format!("after API additions [{}]", origin)))?;
                let mut want = in_prod.clone().unwrap_or_default();
                for (f, n, v) in [("language", "verif-lang", "1.0"), ("sdk", "verif-sdk", "2"), ("processed-by", "verif-tool", "3")] {
                    want.push((f.to_string(), vec![(n.to_string(), v.to_string())]));
                }
                check_producers(&Some(want), &op, 1, &origin).map_err(|f| Failure::new(format!("api-additions:{}", f.signature), f.detail))?;
                out.label("producers-api:additions");
            }
            // clear() is documented to drop all keys and values (walrus's own
            // entry included): nothing of the input may survive it
            m.producers.clear();
            if let Ok(b) = wal::emit(&mut m) {
                if let Some(op) = producers(&b) {
                    let entries: Vec<(String, String)> = op.iter().flat_map(|(f, v)| v.iter().map(move |(n, _)| (f.clone(), n.clone()))).collect();
                    if entries.iter().any(|e| *e != ("processed-by".to_string(), "walrus".to_string())) {
                        return Err(Failure::new(
                            "producers-clear-leaves-entries",
                            format!("after ModuleProducers::clear() the output producers section is {:?} [{}]", op, origin),
                        ));
                    }
                }
            }
        }
    }
    out.nontrivial = has_name || has_prod || has_debug;
    if out.nontrivial && out.hash % 16 == 0 {
        out.sample = Some(json!({"origin": origin, "bytes": bytes.len(), "name": has_name, "producers": has_prod, "dwarf": has_debug, "configs": 32}));
    }
    Ok(out)
}

fn check_producers(input: &Option<Producers>, output: &Producers, k: usize, origin: &str) -> Result<(), Failure> {
    let walrus_entries: usize = output
        .iter()
        .filter(|(f, _)| f == "processed-by")
        .map(|(_, v)| v.iter().filter(|(n, _)| n == "walrus").count())
        .sum();
    if walrus_entries != 1 {
        return Err(Failure::new(
            "walrus-recorded-not-exactly-once",
            format!("after {} round trip(s) processed-by has {} walrus entries: {:?} [{}]", k, walrus_entries, output, origin),
        ));
    }
    if let Some(inp) = input {
        for (field, vals) in inp {
            // a field stays even when it lists no values
            if !output.iter().any(|(f, _)| f == field) {
                return Err(Failure::new(
                    "producers-input-field-lost",
                    format!("input producers field {:?} ({} values) is missing after {} round trip(s): {:?} [{}]", field, vals.len(), k, output, origin),
                ));
            }
            for (name, version) in vals {
                if field == "processed-by" && name == "walrus" {
                    continue; // replaced by the current version
                }
                let present = output
                    .iter()
                    .any(|(f, v)| f == field && v.iter().any(|(n, ver)| n == name && ver == version));
                if !present {
                    return Err(Failure::new(
                        "producers-input-entry-lost",
                        format!("input producers entry ({}, {}, {}) is missing after {} round trip(s): {:?} [{}]", field, name, version, k, output, origin),
                    ));
                }
            }
        }
    }
    // "preserved", the other direction: apart from walrus's own processed-by
    // entry nothing is listed that the input did not list in that field
    for (field, vals) in output {
        for (name, version) in vals {
            if field == "processed-by" && name == "walrus" {
                continue;
            }
            let listed = input
                .as_ref()
                .map(|inp| inp.iter().any(|(f, v)| f == field && v.iter().any(|(n, ver)| n == name && ver == version)))
                .unwrap_or(false);
            if !listed {
                return Err(Failure::new(
                    "producers-entry-invented",
                    format!("output producers entry ({}, {}, {}) after {} round trip(s) is not an entry of that field in the input {:?}: {:?} [{}]", field, name, version, k, input, output, origin),
                ));
            }
        }
    }
    Ok(())
}

fn run(ctx: &Ctx) {
    let plans = [
        GenPlan {
            gen: "c14",
            cases: ctx.tier.pick(3000, 60_000),
            min_len: 1,
            max_len: ctx.tier.pick(1000, 2500),
        },
        GenPlan {
            gen: "c14-mutant",
            cases: ctx.tier.pick(6000, 150_000),
            min_len: 25,
            max_len: ctx.tier.pick(800, 2500),
        },
    ];
    standard_run(ctx, check, &plans, true);
}
