//! C12 — unknown custom sections survive untouched.

use super::*;
use crate::decode::raw_sections;
use crate::optable::validate_walrus;
use crate::wal;
use serde_json::json;

pub fn def() -> PropDef {
    PropDef {
        id: "C12",
        run,
        check,
        meta,
    }
}

fn meta(_ctx: &Ctx) -> EvidenceMeta {
    EvidenceMeta {
        rule: "accepted modules with 0-6 custom sections at arbitrary section boundaries (names incl. empty, non-ASCII, duplicates, near-misses of interpreted names) x {emit, GC+emit, emit twice, emit thrice}; non-trivial = >=2 uninterpreted custom sections, one of them not last in the input; distinct by module bytes. Oracle: the list [(name,payload)] of custom sections walrus does not interpret (name not 'name'/'producers', not starting with '.debug') is identical in input and every output.".into(),
        assumptions: vec![],
        level: "exploration",
        exhaustive: false,
    }
}

fn customs(bytes: &[u8]) -> Option<Vec<(String, Vec<u8>)>> {
    let secs = raw_sections(bytes).ok()?;
    let mut v = Vec::new();
    for s in secs {
        if s.id == 0 {
            let name = s.name.clone()?;
            if name == "name" || name == "producers" || name.starts_with(".debug") {
                continue;
            }
            // payload after the name
            // (the name length is read as written: it may be a padded LEB)
            let full = &bytes[s.payload.clone()];
            let (mut len, mut shift, mut used) = (0usize, 0u32, 0usize);
            for b in full.iter().take(5) {
                len |= ((*b & 0x7f) as usize) << shift;
                shift += 7;
                used += 1;
                if *b & 0x80 == 0 {
                    break;
                }
            }
            let nlen = used + len;
            v.push((name, full[nlen.min(full.len())..].to_vec()));
        }
    }
    Some(v)
}

fn compare(what: &str, want: &[(String, Vec<u8>)], got: &[(String, Vec<u8>)], origin: &str) -> Result<(), Failure> {
    if want == got {
        return Ok(());
    }
    let sig = if got.is_empty() && !want.is_empty() {
        "all-lost"
    } else if got.len() < want.len() {
        "some-lost"
    } else if got.len() > want.len() {
        "duplicated-or-added"
    } else {
        let mut a: Vec<_> = want.to_vec();
        let mut b: Vec<_> = got.to_vec();
        a.sort();
        b.sort();
        if a == b {
            "reordered"
        } else {
            "content-changed"
        }
    };
    Err(Failure::new(
        format!("customs-{}:{}", what, sig),
        format!(
            "{}: input customs {:?} output customs {:?} [{}]",
            what,
            want.iter().map(|c| (&c.0, c.1.len())).collect::<Vec<_>>(),
            got.iter().map(|c| (&c.0, c.1.len())).collect::<Vec<_>>(),
            origin
        ),
    ))
}

pub fn check(_ctx: &Ctx, input: &Input) -> CaseResult {
    let mut out = CaseOut::default();
    let p = match prepare(input) {
        Some(p) => p,
        None => return Ok(out),
    };
    out.hash = fnv(&p.bytes);
    if validate_walrus(&p.bytes).is_err() {
        out.label("skip:input-invalid");
        return Ok(out);
    }
    let want = match customs(&p.bytes) {
        Some(w) => w,
        None => {
            out.label("skip:custom-without-name");
            return Ok(out);
        }
    };
    // survival must not depend on configuration either: the second pair of
    // passes preserves the code transform (raw sections ignore it)
    // ... and the last pair switches the name and producers sections off
    // ... and the last one asks for DWARF generation (which only takes the
    // `.debug_*` sections, which are not judged here, out of the raw ones)
    for (do_gc, code_transform, bare, dwarf) in [
        (false, false, false, false),
        (true, false, false, false),
        (false, true, false, false),
        (true, true, false, false),
        (false, false, true, false),
        (true, false, true, false),
        (false, false, false, true),
    ] {
        let base = if bare { wal::Cfg::bare() } else { wal::Cfg::plain() };
        let cfg = wal::Cfg { code_transform, dwarf, ..base }.to_config();
        let mut m = match wal::parse(&p.bytes, &cfg) {
            Ok(Ok(m)) => m,
            _ => {
                out.label("skip:walrus-rejected(C05)");
                return Ok(out);
            }
        };
        if do_gc && wal::gc(&mut m).is_err() {
            out.label("skip:gc-panic(C02)");
            continue;
        }
        for k in 1..=3 {
            let b = match wal::emit(&mut m) {
                Ok(b) => b,
                Err(_) => {
                    out.label("skip:emit-panic(C02)");
                    break;
                }
            };
            let got = customs(&b).unwrap_or_default();
            let what = match (do_gc, k) {
                (false, 1) => "emit",
                (true, 1) => "gc+emit",
                (_, 2) => "second-emit",
                _ => "third-emit",
            };
            compare(what, &want, &got, &p.origin)?;
        }
    }
    let secs = raw_sections(&p.bytes).unwrap_or_default();
    let last_is_custom = secs.last().map(|s| s.id == 0).unwrap_or(false);
    let n_custom_total = secs.iter().filter(|s| s.id == 0).count();
    let not_last = secs
        .iter()
        .enumerate()
        .any(|(i, s)| s.id == 0 && i + 1 < secs.len() && secs[i + 1..].iter().any(|t| t.id != 0));
    let _ = (last_is_custom, n_custom_total);
    out.nontrivial = want.len() >= 2 && not_last;
    if want.len() >= 1 {
        out.label("has-uninterpreted-customs");
    }
    if not_last {
        out.label("custom-before-standard-section");
    }
    let mut names: Vec<&String> = want.iter().map(|c| &c.0).collect();
    names.sort();
    if names.windows(2).any(|w| w[0] == w[1]) {
        out.label("duplicate-custom-names");
    }
    if out.nontrivial {
        out.sample = Some(json!({"origin": p.origin, "customs": want.iter().map(|c| json!({"name": c.0, "len": c.1.len()})).collect::<Vec<_>>()}));
    }
    Ok(out)
}

fn run(ctx: &Ctx) {
    let plans = [GenPlan {
        gen: "customs",
        cases: ctx.tier.pick(200_000, 2_000_000),
        min_len: 0,
        max_len: 600,
    }];
    standard_run(ctx, check, &plans, true);
}
