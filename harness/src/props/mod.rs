//! One module per property; shared preparation of inputs.

use crate::gen::{self, GenCfg};
use crate::run::*;

pub mod c01;
pub mod c02;
pub mod c03;
pub mod c04;
pub mod c05;
pub mod c06;
pub mod c07;
pub mod c08;
pub mod c09;
pub mod c10;
pub mod c11;
pub mod c12;
pub mod c13;
pub mod c14;
pub mod c15;
pub mod c16;
pub mod c17;
pub mod c18;
pub mod c19;
pub mod c20;

pub struct Prepared {
    pub bytes: Vec<u8>,
    pub spec: Option<gen::Spec>,
    pub origin: String,
}

pub fn cfg_for(gen_name: &str) -> GenCfg {
    match gen_name {
        "exec" => GenCfg::exec(),
        "exec-dup" => {
            let mut c = GenCfg::exec();
            c.dup_import_names = true;
            c
        }
        "full-nobig" => {
            let mut c = GenCfg::full();
            c.big_offsets = false;
            c
        }
        "full-nobig-x" => {
            // as full-nobig; `ref.func` targets may be declared by exports alone
            let mut c = GenCfg::full();
            c.big_offsets = false;
            c.export_declares = true;
            c
        }
        "names" => {
            let mut c = GenCfg::full();
            c.names = 2;
            c.big_offsets = false;
            c
        }
        "c14" => {
            let mut c = GenCfg::full();
            c.big_offsets = false;
            c.max_funcs = 5;
            c.max_ops = 15;
            c
        }
        "dwarf" => {
            let mut c = GenCfg::full();
            c.big_offsets = false;
            c.max_funcs = 7;
            c.min_funcs = 1;
            c.max_ops = 60;
            c.customs = 0;
            c.tags = false;
            c
        }
        "par-many" => {
            // many functions, equal-sized runs and a heavy tail
            let mut c = GenCfg::full();
            c.big_offsets = false;
            c.max_funcs = 400;
            c.min_funcs = 1;
            c.max_ops = 12;
            c.customs = 0;
            c.names = 1;
            c
        }
        "manyfuncs" => {
            // function counts on both sides of the 127/128 LEB boundary
            let mut c = GenCfg::full();
            c.big_offsets = false;
            c.max_funcs = 140;
            c.min_funcs = 118;
            c.max_ops = 4;
            c.customs = 0;
            c.names = 0;
            c
        }
        "customs" => {
            let mut c = GenCfg::full();
            c.customs = 2;
            c.max_funcs = 4;
            c.max_ops = 10;
            c.big_offsets = false;
            c
        }
        _ => GenCfg::full(),
    }
}

pub fn prepare(input: &Input) -> Option<Prepared> {
    match input {
        Input::Choices { gen: g, bytes } => {
            let cfg = cfg_for(g);
            let generated = gen::generate(bytes, &cfg);
            Some(Prepared {
                bytes: generated.bytes,
                spec: Some(generated.spec),
                origin: format!("gen:{}", g),
            })
        }
        Input::Wasm { origin, bytes } => Some(Prepared {
            bytes: bytes.clone(),
            spec: None,
            origin: origin.clone(),
        }),
        Input::Json(_) => None,
    }
}

pub type CheckFn = fn(&Ctx, &Input) -> CaseResult;

pub struct PropDef {
    pub id: &'static str,
    pub run: fn(&Ctx),
    pub check: CheckFn,
    pub meta: fn(&Ctx) -> EvidenceMeta,
}

pub fn all() -> Vec<PropDef> {
    vec![c01::def(), c02::def(), c03::def(), c04::def(), c05::def(), c06::def(), c07::def(), c08::def(), c09::def(), c10::def(), c11::def(), c12::def(), c13::def(), c14::def(), c15::def(), c16::def(), c17::def(), c18::def(), c19::def(), c20::def()]
}

pub fn get(id: &str) -> Option<PropDef> {
    all().into_iter().find(|p| p.id == id)
}

/// regression corpus, fixture/real corpus, then generated cases
pub fn standard_run(ctx: &Ctx, check: CheckFn, plans: &[GenPlan], use_corpus: bool) {
    // 1. regression corpus (replay tier)
    let regress = load_regress(ctx);
    let inputs: Vec<Input> = regress.iter().map(|r| r.1.clone()).collect();
    run_inputs(ctx, &inputs, &check);
    ctx.add_label("regress-replayed", inputs.len() as u64);
    // 2. fixtures + real corpus
    if use_corpus {
        let inputs: Vec<Input> = crate::corpus::all()
            .iter()
            .map(|(o, b)| Input::Wasm {
                origin: o.clone(),
                bytes: b.clone(),
            })
            .collect();
        run_inputs(ctx, &inputs, &check);
        ctx.add_label("corpus-inputs", inputs.len() as u64);
    }
    // 3. generated
    for p in plans {
        run_generated(ctx, p, &check);
    }
}

/// what the module-level structure of an input consists of (C04's quantifier:
/// entity kinds x imported/local x 32/64-bit x shared x segment encodings)
pub fn structure_labels(out: &mut CaseOut, d: &crate::decode::ModuleD) {
    use crate::decode::ImportKind;
    for e in &d.elems {
        out.label(format!("elem-flag:{}", e.flag));
    }
    for x in &d.datas {
        out.label(format!("data-flag:{}", x.flag));
    }
    for i in &d.imports {
        out.label(match i.kind {
            ImportKind::Func(_) => "imported:function",
            ImportKind::Table(_) => "imported:table",
            ImportKind::Memory(_) => "imported:memory",
            ImportKind::Global(_) => "imported:global",
            ImportKind::Tag => "imported:tag",
        });
    }
    if !d.tables.is_empty() {
        out.label("local:table");
    }
    if !d.memories.is_empty() {
        out.label("local:memory");
    }
    if !d.globals.is_empty() {
        out.label("local:global");
    }
    for i in 0..d.n_mems() {
        if let Some(m) = d.mem_ty(i) {
            let imp = (i as usize) < d.imp_mems.len();
            if m.shared {
                out.label(if imp { "memory:shared,imported" } else { "memory:shared,local" });
            }
            if m.memory64 {
                out.label(if imp { "memory:64-bit,imported" } else { "memory:64-bit,local" });
            }
        }
    }
    for i in 0..d.n_tables() {
        if let Some(t) = d.table_ty(i) {
            if t.table64 {
                out.label(if (i as usize) < d.imp_tables.len() { "table:64-bit,imported" } else { "table:64-bit,local" });
            }
            if t.elem == crate::ops::VT::ExternRef {
                out.label("table:externref");
            }
        }
    }
    for (i, g) in d.globals.iter().enumerate() {
        let _ = i;
        if let Some(o) = g.init.first() {
            out.label(format!("global-init:{}", o.name));
        }
    }
    if d.start.is_some() {
        out.label("start-function");
    }
    for e in &d.exports {
        out.label(format!("export:{:?}", e.kind));
    }
}

pub fn feature_labels(out: &mut CaseOut, spec: &gen::Spec) {
    if spec.feats == 0 {
        out.label("feat:mvp");
    } else if spec.feats == gen::feat::ALL {
        out.label("feat:all");
    } else {
        out.label("feat:subset");
    }
    let b = &spec.body;
    if b.nops > 0 {
        out.label("gen:nops");
    }
    if b.if_no_else > 0 {
        out.label("gen:if-no-else");
    }
    if b.loops > 0 {
        out.label("gen:loops");
    }
    if b.nonzero_mem {
        out.label("gen:nonzero-memory-index");
    }
    if b.nonzero_table {
        out.label("gen:nonzero-table-index");
    }
    if b.multi_value_blocks > 0 {
        out.label("gen:multi-value-block");
    }
    if b.br_tables > 0 {
        out.label("gen:br_table");
    }
    if b.simd > 0 {
        out.label("gen:simd");
    }
    if b.atomics > 0 {
        out.label("gen:atomics");
    }
    if b.big_offset {
        out.label("gen:offset>=2^32");
    }
    if b.uses_data_ops {
        out.label("gen:memory.init/data.drop");
    }
    if spec.has_start {
        out.label("gen:start");
    }
    if spec.n_elems > 0 {
        out.label("gen:elements");
    }
    if spec.n_data > 0 {
        out.label("gen:data");
    }
    if spec.n_customs > 0 {
        out.label("gen:customs");
    }
    if spec.has_names {
        out.label("gen:name-section");
    }
}
