//! C02 — emitted binaries always validate and emission never panics.

use super::*;
use crate::ch::Ch;
use crate::optable::validate_walrus;
use crate::wal;
use serde_json::json;

pub fn def() -> PropDef {
    PropDef {
        id: "C02",
        run,
        check,
        meta,
    }
}

fn meta(_ctx: &Ctx) -> EvidenceMeta {
    EvidenceMeta {
        rule: "accepted modules (generated full profile, fixtures, real corpus) x {no pass, GC} x {names,producers on/off} x generated well-formed edit scripts (add function/global/memory/table/import/data/element, delete export, replace imported/exported function, insert const;drop); non-trivial = >=1 edit applied or GC removed something; distinct by (module bytes, mode). Oracle: no unwind from edit/gc/emit, and wasmparser::Validator under walrus's feature set accepts the output.".into(),
        assumptions: vec![
            "edits are well-formed by construction (documented back-links maintained)".into(),
            "DWARF generation is exercised by C10 only, with well-formed debug sections".into(),
        ],
        level: "exploration",
        exhaustive: false,
    }
}

pub fn normalise_msg(m: &str) -> String {
    // strip offsets and numbers so one defect gives one signature
    let m = match m.find(" (at offset") {
        Some(i) => &m[..i],
        None => m,
    };
    let mut out = String::new();
    let mut last_digit = false;
    for c in m.chars() {
        if c.is_ascii_digit() {
            if !last_digit {
                out.push('N');
            }
            last_digit = true;
        } else {
            out.push(c);
            last_digit = false;
        }
    }
    out
}

fn panic_sig(f: &Failure) -> String {
    for key in [
        "get_table_index",
        "get_type_index",
        "get_func_index",
        "get_global_index",
        "get_memory_index",
        "get_element_index",
        "get_data_index",
    ] {
        if f.detail.contains(key) {
            return format!("panic:{}", key);
        }
    }
    f.signature.clone()
}

fn one_mode(
    ctx: &Ctx,
    bytes: &[u8],
    order: u8,
    do_gc: bool,
    names: bool,
    producers: bool,
    dwarf: bool,
    edit_bytes: &[u8],
    n_edits: usize,
    out: &mut CaseOut,
    origin: &str,
) -> Result<(), Failure> {
    let cfg = wal::Cfg {
        names,
        producers,
        dwarf,
        ..wal::Cfg::plain()
    };
    let mut m = match wal::parse(bytes, &cfg.to_config())? {
        Ok(m) => m,
        Err(_) => {
            out.label("skip:walrus-rejected(C05)");
            return Ok(());
        }
    };
    let mut ech = Ch::new(edit_bytes);
    // order 1/2: run the GC pass *before* the edits as well (stale state left
    // behind by a pass only shows when the API is used afterwards)
    if do_gc && (order == 1 || order == 2) {
        wal::gc(&mut m).map_err(|f| Failure::new(panic_sig(&f), format!("{} [{}]", f.detail, origin)))?;
        out.label("order:gc-before-edits");
    }
    let log = if n_edits > 0 {
        guard("edit", || crate::edits::apply(&mut m, &mut ech, n_edits)).map_err(|f| {
            Failure::new(panic_sig(&f), format!("{} [{} edits on {}]", f.detail, n_edits, origin))
        })?
    } else {
        vec![]
    };
    for l in &log {
        out.label(format!("edit:{}", l.split('(').next().unwrap()));
    }
    let before = (
        m.funcs.iter().count(),
        m.globals.iter().count(),
        m.types.iter().count(),
        m.imports.iter().count(),
    );
    if do_gc && order != 1 {
        wal::gc(&mut m).map_err(|f| Failure::new(panic_sig(&f), format!("{} [{}]", f.detail, origin)))?;
        let after = (
            m.funcs.iter().count(),
            m.globals.iter().count(),
            m.types.iter().count(),
            m.imports.iter().count(),
        );
        if after != before {
            out.label("gc-removed-something");
            out.nontrivial = true;
        }
    }
    if !log.is_empty() {
        out.nontrivial = true;
    }
    let emitted = wal::emit(&mut m).map_err(|f| {
        Failure::new(
            panic_sig(&f),
            format!("{} [gc={} edits={:?} {}]", f.detail, do_gc, log, origin),
        )
    })?;
    if let Err(e) = validate_walrus(&emitted) {
        // the recorded GC finding (C06): the same edits without the pass give
        // a valid module in which a `ref.func` target is declared only by an
        // element segment that the pass removes
        if do_gc && e.contains("undeclared function reference") {
            if let Ok(Ok(mut m2)) = wal::parse(bytes, &cfg.to_config()) {
                let mut ech2 = Ch::new(edit_bytes);
                if n_edits > 0 {
                    let _ = guard("edit", || crate::edits::apply(&mut m2, &mut ech2, n_edits));
                }
                if let Ok(nogc) = wal::emit(&mut m2) {
                    if validate_walrus(&nogc).is_ok() && super::c01::passive_only_declaration(&nogc) {
                        return ctx.known_or(
                            out,
                            Failure::new(
                                "invalid-output:undeclared function reference:only-declaration-was-an-element-segment-the-pass-removes",
                                format!("output rejected by reference validator: {} [gc={} edits={:?} {}]", e, do_gc, log, origin),
                            ),
                        );
                    }
                }
            }
        }
        return Err(Failure::new(
            format!("invalid-output:{}", normalise_msg(&e)),
            format!("output rejected by reference validator: {} [gc={} edits={:?} {}]", e, do_gc, log, origin),
        ));
    }
    Ok(())
}

pub fn check(ctx: &Ctx, input: &Input) -> CaseResult {
    let mut out = CaseOut::default();
    match input {
        Input::Choices { gen, bytes } => {
            // header: mode byte + 40 edit bytes, the rest generates the module
            let mode = bytes.first().copied().unwrap_or(0);
            let edit_bytes: Vec<u8> = bytes.iter().skip(1).take(40).copied().collect();
            let rest: Vec<u8> = bytes.iter().skip(41).copied().collect();
            let p = prepare(&Input::Choices {
                gen: gen.clone(),
                bytes: rest,
            })
            .unwrap();
            out.hash = mix(fnv(&p.bytes), fnv(&bytes[..bytes.len().min(41)]));
            if let Some(s) = &p.spec {
                feature_labels(&mut out, s);
            }
            if validate_walrus(&p.bytes).is_err() {
                out.label("skip:input-invalid");
                return Ok(out);
            }
            let do_gc = mode & 1 != 0;
            let names = mode & 2 == 0;
            let producers = mode & 4 == 0;
            let n_edits = ((mode >> 3) & 7) as usize;
            let n_edits = if n_edits > 5 { 0 } else { n_edits };
            out.label(if do_gc { "mode:gc" } else { "mode:plain" });
            // every 4th case carries synthesized well-formed DWARF (LLVM-like subset)
            // and is emitted with DWARF generation on
            let with_dwarf = edit_bytes.first().map(|b| b % 4 == 0).unwrap_or(false);
            let mut module = p.bytes.clone();
            let mut dwarf_on = false;
            if with_dwarf {
                let mut dch = Ch::new(&edit_bytes);
                if let Some(w) = crate::dwarf::attach_dwarf_simple(&module, &mut dch) {
                    module = w;
                    dwarf_on = true;
                    out.label("mode:dwarf-generation-on");
                }
            }
            one_mode(ctx, &module, mode >> 6, do_gc, names, producers, dwarf_on, &edit_bytes, n_edits, &mut out, &p.origin)?;
            if out.nontrivial {
                out.sample = Some(json!({"origin": p.origin, "bytes": p.bytes.len(), "gc": do_gc, "edits": n_edits,
                    "labels": out.labels.iter().filter(|l| l.starts_with("edit:")).collect::<Vec<_>>()}));
            }
        }
        Input::Wasm { origin, bytes } => {
            out.hash = fnv(bytes);
            if validate_walrus(bytes).is_err() {
                out.label("skip:input-invalid");
                return Ok(out);
            }
            // corpus members: every mode, edits derived from the bytes' hash
            let h = fnv(bytes);
            let eb: Vec<u8> = (0..40).map(|i| (mix(h, i) >> 17) as u8).collect();
            for do_gc in [false, true] {
                for (names, producers) in [(true, true), (false, false)] {
                    for n_edits in [0usize, 3] {
                        for order in [0u8, 2] {
                            if order == 2 && (!do_gc || n_edits == 0) {
                                continue;
                            }
                            one_mode(ctx, bytes, order, do_gc, names, producers, false, &eb, n_edits, &mut out, origin)?;
                        }
                    }
                }
            }
            out.sample = Some(json!({"origin": origin, "bytes": bytes.len(), "modes": 8}));
        }
        Input::Json(_) => {}
    }
    Ok(out)
}

fn run(ctx: &Ctx) {
    let plans = [GenPlan {
        gen: "full-nobig",
        cases: ctx.tier.pick(150_000, 1_500_000),
        min_len: 41,
        max_len: ctx.tier.pick(1500, 4000),
    }];
    standard_run(ctx, check, &plans, true);
}
