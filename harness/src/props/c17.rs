//! C17 — identifiers are stable, never reused, and deletion is isolated.
//!
//! Every public collection of a `walrus::Module` is driven by an operation
//! sequence (add from a small value pool / delete the k-th id ever issued) in
//! lock-step with a map-based model; after every step the complete observable
//! state (get of every id ever issued, iteration, len, lookups) is compared.

use super::*;
use serde_json::json;
use std::fmt::Debug;
use walrus::*;

pub fn def() -> PropDef {
    PropDef {
        id: "C17",
        run,
        check,
        meta,
    }
}

fn meta(ctx: &Ctx) -> EvidenceMeta {
    EvidenceMeta {
        rule: format!("operation sequences over each of 10 public collections (types, exports, imports, globals, memories, tables, data, elements, functions, custom sections): alphabet = add(value from a 3-element pool with duplicates) | delete(k-th id ever issued, k<4); after every step every id ever issued is looked up, the collection is iterated, len and the by-name/by-item lookups are compared with a map-based reference model. Exhaustive for all sequences of length <= {} over that 7-symbol alphabet, plus random sequences up to length 60 (proptest). non-trivial = the sequence contains a delete of a live id followed by an add; distinct by (collection, sequence).", ctx.tier.pick(6, 7)),
        assumptions: vec![
            "'reported as absent' = the call panics or returns None/Err".into(),
            "ModuleTypes::iter also yields hidden function-entry types created by builders; the collection API alone never creates them".into(),
        ],
        level: "exploration",
        exhaustive: true,
    }
}

#[derive(Clone, Copy, Debug, PartialEq, Eq)]
pub enum Op {
    Add(u8),
    Del(u8),
    /// change a non-identity attribute (debug name) of the k-th item through get_mut
    Touch(u8),
    /// delete by key (name / module+name) through the collection's remove-by-name API
    Remove(u8),
    /// collection-specific indirect addition (types: a FunctionBuilder is
    /// created for the pooled signature, which adds that type and a hidden
    /// function-entry type)
    Aux(u8),
}

fn quiet<T>(f: impl FnOnce() -> T) -> Option<T> {
    guard("api", f).ok()
}

trait Coll {
    const NAME: &'static str;
    type Id: Copy + PartialEq + Debug;
    type Val: Clone + PartialEq + Debug;
    fn new() -> Self;
    fn pool(&self) -> Vec<Self::Val>;
    fn dedup(&self) -> bool {
        false
    }
    /// Err = the call panicked
    fn add(&mut self, v: &Self::Val) -> Result<Self::Id, ()>;
    /// Ok(true) deleted, Ok(false) reported absent (panic / None)
    fn delete(&mut self, id: Self::Id) -> bool;
    /// None = reported absent
    fn get(&self, id: Self::Id) -> Option<Self::Val>;
    fn iter(&self) -> Vec<(Self::Id, Self::Val)>;
    fn len(&self) -> Option<usize> {
        None
    }
    /// set a debug attribute that is not part of the item's identity
    fn touch(&mut self, _id: Self::Id) {}
    /// remove-by-key API: None = the collection has none; Some(true) = it
    /// reported success; Some(false) = it reported "not found"
    fn remove_by_key(&mut self, _v: &Self::Val) -> Option<bool> {
        None
    }
    /// do two values share the key used by remove_by_key?
    fn same_key(_a: &Self::Val, _b: &Self::Val) -> bool {
        false
    }
    /// ids yielded by the mutable iterator, if the collection has one
    fn iter_mut_ids(&mut self) -> Option<Vec<Self::Id>> {
        None
    }
    /// does mutable access by `id` resolve (Some(true)) or report absence by a
    /// panic / none (Some(false))? None = the collection has no such access
    fn get_mut_resolves(&mut self, _id: Self::Id) -> Option<bool> {
        None
    }
    /// indirect addition of pool value `v`; returns the id the item can be
    /// found under afterwards (None = unsupported)
    fn aux_add(&mut self, _v: &Self::Val) -> Option<Self::Id> {
        None
    }
    /// collection-specific lookups compared with the model's live items
    fn lookups(&self, _live: &[(Self::Id, Self::Val)]) -> Result<(), String> {
        Ok(())
    }
}

fn run_seq<C: Coll>(ops: &[Op]) -> Result<bool, Failure> {
    let mut c = C::new();
    let pool = c.pool();
    let mut items: Vec<(C::Id, Option<C::Val>)> = Vec::new();
    let mut del_then_add = false;
    let mut deleted_live = false;
    let fail = |what: &str, detail: String| -> Failure {
        Failure::new(
            format!("{}:{}", C::NAME, what),
            format!("{} after ops {:?}: {}", C::NAME, ops, detail),
        )
    };
    for (step, op) in ops.iter().enumerate() {
        match op {
            Op::Add(vi) => {
                let v = &pool[*vi as usize % pool.len()];
                let id = c
                    .add(v)
                    .map_err(|_| fail("add-panicked", format!("step {} add({:?})", step, v)))?;
                let existing = if c.dedup() {
                    items.iter().find(|(_, x)| x.as_ref() == Some(v)).map(|(i, _)| *i)
                } else {
                    None
                };
                match existing {
                    Some(e) => {
                        if e != id {
                            return Err(fail(
                                "dedup-missed",
                                format!("step {}: adding an already present value returned {:?}, existing id is {:?}", step, id, e),
                            ));
                        }
                    }
                    None => {
                        if let Some((old, was)) = items.iter().find(|(i, _)| *i == id) {
                            return Err(fail(
                                "id-reused",
                                format!(
                                    "step {}: add returned {:?}, which was already issued (for {:?})",
                                    step, old, was
                                ),
                            ));
                        }
                        items.push((id, Some(v.clone())));
                        if deleted_live {
                            del_then_add = true;
                        }
                    }
                }
            }
            Op::Aux(vi) => {
                let v = pool[*vi as usize % pool.len()].clone();
                let id = match quiet(|| c.aux_add(&v)) {
                    None => return Err(fail("aux-add-panicked", format!("step {} aux({:?})", step, v))),
                    Some(None) => continue,
                    Some(Some(id)) => id,
                };
                let existing = if c.dedup() {
                    items.iter().find(|(_, x)| x.as_ref() == Some(&v)).map(|(i, _)| *i)
                } else {
                    None
                };
                match existing {
                    Some(e) => {
                        if e != id {
                            return Err(fail("dedup-missed", format!("step {}: indirect add of a present value gave {:?}, existing id is {:?}", step, id, e)));
                        }
                    }
                    None => {
                        if let Some((old, was)) = items.iter().find(|(i, _)| *i == id) {
                            return Err(fail("id-reused", format!("step {}: indirect add returned {:?}, already issued (for {:?})", step, old, was)));
                        }
                        items.push((id, Some(v.clone())));
                        if deleted_live {
                            del_then_add = true;
                        }
                    }
                }
            }
            Op::Touch(k) => {
                let k = *k as usize;
                if k >= items.len() || items[k].1.is_none() {
                    continue;
                }
                let id = items[k].0;
                if quiet(|| c.touch(id)).is_none() {
                    return Err(fail("touch-panicked", format!("step {}: get_mut of live id {:?} panicked", step, id)));
                }
            }
            Op::Remove(vi) => {
                let v = pool[*vi as usize % pool.len()].clone();
                let want = items.iter().position(|(_, x)| x.as_ref().map(|x| C::same_key(x, &v)).unwrap_or(false));
                match quiet(|| c.remove_by_key(&v)) {
                    None => return Err(fail("remove-panicked", format!("step {}: remove({:?})", step, v))),
                    Some(None) => continue,
                    Some(Some(reported)) => {
                        if reported != want.is_some() {
                            return Err(fail(
                                "remove-by-key-verdict",
                                format!("step {}: remove({:?}) reported {}, model has {:?}", step, v, reported, want),
                            ));
                        }
                        if let Some(p) = want {
                            items[p].1 = None;
                            deleted_live = true;
                        }
                    }
                }
            }
            Op::Del(k) => {
                let k = *k as usize;
                if k >= items.len() {
                    continue;
                }
                let (id, val) = items[k].clone();
                let ok = c.delete(id);
                if val.is_some() {
                    if !ok {
                        return Err(fail(
                            "delete-of-live-id-refused",
                            format!("step {}: delete({:?}) of a live item panicked / returned none", step, id),
                        ));
                    }
                    items[k].1 = None;
                    deleted_live = true;
                }
                // deleting a dead id: either outcome is "reported absent";
                // any side effect shows in the observations below
            }
        }
        // observe everything. Dead ids are re-probed after every add (a new
        // id could alias them), right after their own deletion and at the
        // end; a delete of another id cannot make them resolve again without
        // also showing up in the iteration compared below.
        let probe_dead = matches!(op, Op::Add(_) | Op::Remove(_) | Op::Aux(_)) || step + 1 == ops.len();
        let just_deleted = match op {
            Op::Del(k) => Some(*k as usize),
            _ => None,
        };
        for (pos, (id, val)) in items.iter().enumerate() {
            if val.is_none() && !probe_dead && just_deleted != Some(pos) {
                continue;
            }
            if val.is_none() {
                if let Some(true) = c.get_mut_resolves(*id) {
                    return Err(fail(
                        "dead-id-resolves-through-get_mut",
                        format!("step {}: get_mut({:?}) of a deleted item resolves instead of reporting absence", step, id),
                    ));
                }
            } else if let Some(false) = c.get_mut_resolves(*id) {
                return Err(fail(
                    "live-id-lost-or-changed",
                    format!("step {}: get_mut({:?}) of a live item reports absence", step, id),
                ));
            }
            let got = c.get(*id);
            if got != *val {
                let what = if val.is_none() { "dead-id-resolves" } else { "live-id-lost-or-changed" };
                return Err(fail(
                    what,
                    format!("step {}: get({:?}) = {:?}, model says {:?}", step, id, got, val),
                ));
            }
        }
        let live: Vec<(C::Id, C::Val)> = items
            .iter()
            .filter_map(|(i, v)| v.clone().map(|v| (*i, v)))
            .collect();
        let it = quiet(|| c.iter()).ok_or_else(|| fail("iter-panicked", format!("step {}", step)))?;
        if it != live {
            return Err(fail(
                "iter-mismatch",
                format!("step {}: iter yields {:?}, model's live items in creation order are {:?}", step, it, live),
            ));
        }
        if let Some(ids) = quiet(|| c.iter_mut_ids()).ok_or_else(|| fail("iter_mut-panicked", format!("step {}", step)))? {
            let want: Vec<C::Id> = live.iter().map(|(i, _)| *i).collect();
            if ids != want {
                return Err(fail(
                    "iter_mut-mismatch",
                    format!("step {}: iter_mut yields {:?}, live ids are {:?}", step, ids, want),
                ));
            }
        }
        if let Some(n) = quiet(|| c.len()).ok_or_else(|| fail("len-panicked", format!("step {}", step)))? {
            if n != live.len() {
                return Err(fail("len-mismatch", format!("step {}: len {} vs {} live", step, n, live.len())));
            }
        }
        match quiet(|| c.lookups(&live)) {
            Some(Ok(())) => {}
            Some(Err(e)) => return Err(fail("lookup-mismatch", format!("step {}: {}", step, e))),
            None => return Err(fail("lookup-panicked", format!("step {}", step))),
        }
    }
    Ok(del_then_add)
}

// ---------------------------------------------------------------------------
// the collections

struct Types(Module);
impl Coll for Types {
    fn get_mut_resolves(&mut self, id: TypeId) -> Option<bool> {
        Some(quiet(|| {
            let _ = self.0.types.get_mut(id);
        })
        .is_some())
    }
    const NAME: &'static str = "types";
    type Id = TypeId;
    type Val = (Vec<ValType>, Vec<ValType>);
    fn new() -> Self {
        Types(Module::default())
    }
    fn pool(&self) -> Vec<Self::Val> {
        vec![
            (vec![], vec![]),
            (vec![ValType::I32], vec![]),
            (vec![ValType::I32], vec![ValType::I64]),
        ]
    }
    fn dedup(&self) -> bool {
        true
    }
    fn touch(&mut self, id: TypeId) {
        self.0.types.get_mut(id).name = Some(format!("named{}", id.index()));
        // the hidden function-entry types a builder left behind (they show up
        // in iter, not in find) can be deleted like any other type
        let hidden: Vec<TypeId> = self
            .0
            .types
            .iter()
            .filter(|t| t.params().is_empty() && self.0.types.find(t.params(), t.results()) != Some(t.id()))
            .map(|t| t.id())
            .collect();
        if let Some(h) = hidden.first().copied() {
            self.0.types.delete(h);
            assert!(
                !self.0.types.iter().any(|t| t.id() == h),
                "a deleted function-entry type is still yielded by ModuleTypes::iter"
            );
        }
    }
    fn aux_add(&mut self, v: &Self::Val) -> Option<TypeId> {
        // creating a builder adds the signature and a hidden entry type
        let _b = FunctionBuilder::new(&mut self.0.types, &v.0, &v.1);
        self.0.types.find(&v.0, &v.1)
    }
    fn add(&mut self, v: &Self::Val) -> Result<TypeId, ()> {
        quiet(|| self.0.types.add(&v.0, &v.1)).ok_or(())
    }
    fn delete(&mut self, id: TypeId) -> bool {
        quiet(|| self.0.types.delete(id)).is_some()
    }
    fn get(&self, id: TypeId) -> Option<Self::Val> {
        quiet(|| {
            let t = self.0.types.get(id);
            assert_eq!(t.id(), id, "Type::id() differs from the id it was fetched by");
            (t.params().to_vec(), t.results().to_vec())
        })
    }
    fn iter(&self) -> Vec<(TypeId, Self::Val)> {
        // ModuleTypes::iter also yields the hidden function-entry types that
        // builders create (no parameters); they cannot be told apart through
        // the public API, so parameterless entries that `find` does not
        // resolve to are left out of the comparison
        self.0
            .types
            .iter()
            .filter(|t| !t.params().is_empty() || self.0.types.find(t.params(), t.results()) == Some(t.id()))
            .map(|t| (t.id(), (t.params().to_vec(), t.results().to_vec())))
            .collect()
    }
    fn lookups(&self, live: &[(TypeId, Self::Val)]) -> Result<(), String> {
        for v in self.pool() {
            let want = live.iter().find(|(_, x)| *x == v).map(|(i, _)| *i);
            let got = self.0.types.find(&v.0, &v.1);
            if got != want {
                return Err(format!("types.find({:?}) = {:?}, expected {:?}", v, got, want));
            }
        }
        // debug names set through get_mut are unique per id ("named<idx>")
        for (id, _) in live {
            if let Some(n) = self.0.types.get(*id).name.clone() {
                let got = self.0.types.by_name(&n);
                if got != Some(*id) {
                    return Err(format!("types.by_name({:?}) = {:?}, the live type carrying that name is {:?}", n, got, id));
                }
            }
        }
        if let Some(x) = self.0.types.by_name("no type was ever given this name") {
            return Err(format!("types.by_name of an unused name = {:?}", x));
        }
        Ok(())
    }
}

struct Exports {
    m: Module,
    f: [FunctionId; 2],
    mem: MemoryId,
    g: GlobalId,
    t: TableId,
}
#[derive(Clone, Debug, PartialEq)]
enum ItemKey {
    F(usize),
    M,
    G,
    T,
}
impl Coll for Exports {
    fn touch(&mut self, id: ExportId) {
        let _ = self.m.exports.get_mut(id).id();
    }
    fn get_mut_resolves(&mut self, id: ExportId) -> Option<bool> {
        Some(quiet(|| {
            let _ = self.m.exports.get_mut(id);
        })
        .is_some())
    }
    const NAME: &'static str = "exports";
    type Id = ExportId;
    type Val = (String, ItemKey);
    fn new() -> Self {
        let mut m = Module::default();
        let ty = m.types.add(&[], &[]);
        let (f0, _) = m.add_import_func("e", "f0", ty);
        let (f1, _) = m.add_import_func("e", "f1", ty);
        let mem = m.memories.add_local(false, false, 1, None, None);
        let g = m.globals.add_local(ValType::I32, false, false, ConstExpr::Value(ir::Value::I32(0)));
        let t = m.tables.add_local(false, 1, None, RefType::Funcref);
        Exports {
            m,
            f: [f0, f1],
            mem,
            g,
            t,
        }
    }
    fn pool(&self) -> Vec<Self::Val> {
        vec![
            ("a".into(), ItemKey::F(0)),
            ("b".into(), ItemKey::M),
            ("a".into(), ItemKey::F(1)),
            ("c".into(), ItemKey::G),
            ("a".into(), ItemKey::F(0)),
            ("d".into(), ItemKey::T),
            // a second name for a function that "a" may already export
            ("e".into(), ItemKey::F(0)),
            // a function export that shares its name with the memory export
            // (the API does not forbid it; lookups by name go by kind)
            ("b".into(), ItemKey::F(1)),
        ]
    }
    fn add(&mut self, v: &Self::Val) -> Result<ExportId, ()> {
        let item = match v.1 {
            ItemKey::F(i) => ExportItem::Function(self.f[i]),
            ItemKey::M => ExportItem::Memory(self.mem),
            ItemKey::G => ExportItem::Global(self.g),
            ItemKey::T => ExportItem::Table(self.t),
        };
        quiet(|| self.m.exports.add(&v.0, item)).ok_or(())
    }
    fn delete(&mut self, id: ExportId) -> bool {
        quiet(|| self.m.exports.delete(id)).is_some()
    }
    fn remove_by_key(&mut self, v: &Self::Val) -> Option<bool> {
        Some(self.m.exports.remove(&v.0).is_ok())
    }
    fn same_key(a: &Self::Val, b: &Self::Val) -> bool {
        a.0 == b.0
    }
    fn iter_mut_ids(&mut self) -> Option<Vec<ExportId>> {
        Some(self.m.exports.iter_mut().map(|e| e.id()).collect())
    }
    fn get(&self, id: ExportId) -> Option<Self::Val> {
        quiet(|| {
            let e = self.m.exports.get(id);
            assert_eq!(e.id(), id);
            (e.name.clone(), self.key(&e.item))
        })
    }
    fn iter(&self) -> Vec<(ExportId, Self::Val)> {
        self.m
            .exports
            .iter()
            .map(|e| (e.id(), (e.name.clone(), self.key(&e.item))))
            .collect()
    }
    fn lookups(&self, live: &[(ExportId, Self::Val)]) -> Result<(), String> {
        for i in 0..2 {
            let want = live.iter().find(|(_, v)| v.1 == ItemKey::F(i)).map(|(id, _)| *id);
            let got = self.m.exports.get_exported_func(self.f[i]).map(|e| e.id());
            if got != want {
                return Err(format!("get_exported_func(f{}) = {:?}, expected {:?}", i, got, want));
            }
        }
        let want = live.iter().find(|(_, v)| v.1 == ItemKey::M).map(|(id, _)| *id);
        let got = self.m.exports.get_exported_memory(self.mem).map(|e| e.id());
        if got != want {
            return Err(format!("get_exported_memory = {:?}, expected {:?}", got, want));
        }
        let want = live.iter().find(|(_, v)| v.1 == ItemKey::G).map(|(id, _)| *id);
        let got = self.m.exports.get_exported_global(self.g).map(|e| e.id());
        if got != want {
            return Err(format!("get_exported_global = {:?}, expected {:?}", got, want));
        }
        let want = live.iter().find(|(_, v)| v.1 == ItemKey::T).map(|(id, _)| *id);
        let got = self.m.exports.get_exported_table(self.t).map(|e| e.id());
        if got != want {
            return Err(format!("get_exported_table = {:?}, expected {:?}", got, want));
        }
        for name in ["a", "b", "zz"] {
            let want = live
                .iter()
                .find(|(_, v)| v.0 == name && matches!(v.1, ItemKey::F(_)))
                .map(|(_, v)| match v.1 {
                    ItemKey::F(i) => self.f[i],
                    _ => unreachable!(),
                });
            let got = self.m.exports.get_func(name).ok();
            if got != want {
                return Err(format!("exports.get_func({:?}) = {:?}, expected {:?}", name, got, want));
            }
        }
        Ok(())
    }
}
impl Exports {
    fn key(&self, i: &ExportItem) -> ItemKey {
        match i {
            ExportItem::Function(f) => ItemKey::F(if *f == self.f[0] { 0 } else { 1 }),
            ExportItem::Memory(_) => ItemKey::M,
            ExportItem::Global(_) => ItemKey::G,
            ExportItem::Table(_) => ItemKey::T,
        }
    }
}

struct Imports {
    m: Module,
    f: [FunctionId; 2],
    g: GlobalId,
}
impl Coll for Imports {
    fn touch(&mut self, id: ImportId) {
        let _ = self.m.imports.get_mut(id).id();
    }
    fn get_mut_resolves(&mut self, id: ImportId) -> Option<bool> {
        Some(quiet(|| {
            let _ = self.m.imports.get_mut(id);
        })
        .is_some())
    }
    const NAME: &'static str = "imports";
    type Id = ImportId;
    type Val = (String, String, ItemKey);
    fn new() -> Self {
        let mut m = Module::default();
        let ty = m.types.add(&[], &[]);
        // functions that the imports will point at (kind irrelevant here)
        let mut b = FunctionBuilder::new(&mut m.types, &[], &[]);
        b.func_body().unreachable();
        let f0 = b.finish(vec![], &mut m.funcs);
        let mut b = FunctionBuilder::new(&mut m.types, &[], &[]);
        b.func_body().unreachable();
        let f1 = b.finish(vec![], &mut m.funcs);
        let _ = ty;
        let g = m.globals.add_local(ValType::I32, false, false, ConstExpr::Value(ir::Value::I32(0)));
        Imports { m, f: [f0, f1], g }
    }
    fn pool(&self) -> Vec<Self::Val> {
        vec![
            ("env".into(), "a".into(), ItemKey::F(0)),
            ("env".into(), "b".into(), ItemKey::G),
            ("env".into(), "a".into(), ItemKey::F(1)),
            ("mod".into(), "a".into(), ItemKey::F(0)),
            // a function import sharing (module, field) with the global import
            ("env".into(), "b".into(), ItemKey::F(1)),
            // added through Module::add_import_table / add_import_memory,
            // which create the entity and return the import's id
            ("env".into(), "t".into(), ItemKey::T),
            ("env".into(), "m".into(), ItemKey::M),
        ]
    }
    fn add(&mut self, v: &Self::Val) -> Result<ImportId, ()> {
        match v.2 {
            ItemKey::F(i) => {
                let f = self.f[i];
                quiet(|| self.m.imports.add(&v.0, &v.1, f)).ok_or(())
            }
            ItemKey::T => quiet(|| self.m.add_import_table(&v.0, &v.1, false, 1, None, RefType::Funcref).1).ok_or(()),
            ItemKey::M => quiet(|| self.m.add_import_memory(&v.0, &v.1, false, false, 1, None, None).1).ok_or(()),
            _ => {
                let g = self.g;
                quiet(|| self.m.imports.add(&v.0, &v.1, g)).ok_or(())
            }
        }
    }
    fn delete(&mut self, id: ImportId) -> bool {
        quiet(|| self.m.imports.delete(id)).is_some()
    }
    fn remove_by_key(&mut self, v: &Self::Val) -> Option<bool> {
        Some(self.m.imports.remove(&v.0, &v.1).is_ok())
    }
    fn same_key(a: &Self::Val, b: &Self::Val) -> bool {
        a.0 == b.0 && a.1 == b.1
    }
    fn iter_mut_ids(&mut self) -> Option<Vec<ImportId>> {
        Some(self.m.imports.iter_mut().map(|e| e.id()).collect())
    }
    fn get(&self, id: ImportId) -> Option<Self::Val> {
        quiet(|| {
            let e = self.m.imports.get(id);
            assert_eq!(e.id(), id);
            (e.module.clone(), e.name.clone(), self.key(&e.kind))
        })
    }
    fn iter(&self) -> Vec<(ImportId, Self::Val)> {
        self.m
            .imports
            .iter()
            .map(|e| (e.id(), (e.module.clone(), e.name.clone(), self.key(&e.kind))))
            .collect()
    }
    fn lookups(&self, live: &[(ImportId, Self::Val)]) -> Result<(), String> {
        for (module, name) in [("env", "a"), ("env", "b"), ("mod", "a"), ("mod", "b")] {
            let want = live.iter().find(|(_, v)| v.0 == module && v.1 == name).map(|(i, _)| *i);
            let got = self.m.imports.find(module, name);
            if got != want {
                return Err(format!("imports.find({},{}) = {:?}, expected {:?}", module, name, got, want));
            }
            let wantf = live
                .iter()
                .find(|(_, v)| v.0 == module && v.1 == name && matches!(v.2, ItemKey::F(_)))
                .map(|(_, v)| match v.2 {
                    ItemKey::F(i) => self.f[i],
                    _ => unreachable!(),
                });
            let gotf = self.m.imports.get_func(module, name).ok();
            if gotf != wantf {
                return Err(format!("imports.get_func({},{}) = {:?}, expected {:?}", module, name, gotf, wantf));
            }
        }
        for i in 0..2 {
            let want = live.iter().find(|(_, v)| v.2 == ItemKey::F(i)).map(|(id, _)| *id);
            let got = self.m.imports.get_imported_func(self.f[i]).map(|e| e.id());
            if got != want {
                return Err(format!("get_imported_func(f{}) = {:?}, expected {:?}", i, got, want));
            }
        }
        Ok(())
    }
}
impl Imports {
    fn key(&self, k: &ImportKind) -> ItemKey {
        match k {
            ImportKind::Function(f) => ItemKey::F(if *f == self.f[0] { 0 } else { 1 }),
            ImportKind::Global(_) => ItemKey::G,
            ImportKind::Memory(_) => ItemKey::M,
            ImportKind::Table(_) => ItemKey::T,
        }
    }
}

struct Globals(Module);
impl Coll for Globals {
    fn touch(&mut self, id: GlobalId) {
        self.0.globals.get_mut(id).name = Some(format!("named{}", id.index()));
    }
    fn get_mut_resolves(&mut self, id: GlobalId) -> Option<bool> {
        Some(quiet(|| {
            let _ = self.0.globals.get_mut(id);
        })
        .is_some())
    }
    const NAME: &'static str = "globals";
    type Id = GlobalId;
    type Val = (bool, i32);
    fn new() -> Self {
        Globals(Module::default())
    }
    fn pool(&self) -> Vec<Self::Val> {
        vec![(false, 1), (true, 2), (false, 1)]
    }
    fn add(&mut self, v: &Self::Val) -> Result<GlobalId, ()> {
        quiet(|| {
            self.0
                .globals
                .add_local(ValType::I32, v.0, false, ConstExpr::Value(ir::Value::I32(v.1)))
        })
        .ok_or(())
    }
    fn delete(&mut self, id: GlobalId) -> bool {
        quiet(|| self.0.globals.delete(id)).is_some()
    }
    fn get(&self, id: GlobalId) -> Option<Self::Val> {
        quiet(|| {
            let g = self.0.globals.get(id);
            assert_eq!(g.id(), id);
            (
                g.mutable,
                match g.kind {
                    GlobalKind::Local(ConstExpr::Value(ir::Value::I32(v))) => v,
                    _ => -1,
                },
            )
        })
    }
    fn iter(&self) -> Vec<(GlobalId, Self::Val)> {
        self.0
            .globals
            .iter()
            .map(|g| {
                (
                    g.id(),
                    (
                        g.mutable,
                        match g.kind {
                            GlobalKind::Local(ConstExpr::Value(ir::Value::I32(v))) => v,
                            _ => -1,
                        },
                    ),
                )
            })
            .collect()
    }
}

struct Memories(Module);
impl Coll for Memories {
    fn touch(&mut self, id: MemoryId) {
        self.0.memories.get_mut(id).name = Some(format!("named{}", id.index()));
    }
    fn get_mut_resolves(&mut self, id: MemoryId) -> Option<bool> {
        Some(quiet(|| {
            let _ = self.0.memories.get_mut(id);
        })
        .is_some())
    }
    const NAME: &'static str = "memories";
    type Id = MemoryId;
    type Val = (bool, u64);
    fn new() -> Self {
        Memories(Module::default())
    }
    fn pool(&self) -> Vec<Self::Val> {
        vec![(false, 1), (true, 2), (false, 1)]
    }
    fn add(&mut self, v: &Self::Val) -> Result<MemoryId, ()> {
        quiet(|| self.0.memories.add_local(v.0, false, v.1, Some(9), None)).ok_or(())
    }
    fn delete(&mut self, id: MemoryId) -> bool {
        quiet(|| self.0.memories.delete(id)).is_some()
    }
    fn iter_mut_ids(&mut self) -> Option<Vec<MemoryId>> {
        Some(self.0.memories.iter_mut().map(|e| e.id()).collect())
    }
    fn get(&self, id: MemoryId) -> Option<Self::Val> {
        quiet(|| {
            let g = self.0.memories.get(id);
            assert_eq!(g.id(), id);
            (g.shared, g.initial)
        })
    }
    fn iter(&self) -> Vec<(MemoryId, Self::Val)> {
        self.0.memories.iter().map(|g| (g.id(), (g.shared, g.initial))).collect()
    }
    fn len(&self) -> Option<usize> {
        let n = self.0.memories.len();
        assert_eq!(self.0.memories.is_empty(), n == 0, "is_empty disagrees with len");
        Some(n)
    }
}

struct Tables(Module);
impl Coll for Tables {
    fn touch(&mut self, id: TableId) {
        self.0.tables.get_mut(id).name = Some(format!("named{}", id.index()));
    }
    fn get_mut_resolves(&mut self, id: TableId) -> Option<bool> {
        Some(quiet(|| {
            let _ = self.0.tables.get_mut(id);
        })
        .is_some())
    }
    const NAME: &'static str = "tables";
    type Id = TableId;
    type Val = (bool, u64);
    fn new() -> Self {
        Tables(Module::default())
    }
    fn pool(&self) -> Vec<Self::Val> {
        // (is funcref, initial)
        vec![(true, 1), (false, 2), (true, 3)]
    }
    fn add(&mut self, v: &Self::Val) -> Result<TableId, ()> {
        let ty = if v.0 { RefType::Funcref } else { RefType::Externref };
        quiet(|| self.0.tables.add_local(false, v.1, None, ty)).ok_or(())
    }
    fn delete(&mut self, id: TableId) -> bool {
        quiet(|| self.0.tables.delete(id)).is_some()
    }
    fn iter_mut_ids(&mut self) -> Option<Vec<TableId>> {
        Some(self.0.tables.iter_mut().map(|e| e.id()).collect())
    }
    fn get(&self, id: TableId) -> Option<Self::Val> {
        quiet(|| {
            let g = self.0.tables.get(id);
            assert_eq!(g.id(), id);
            (g.element_ty == RefType::Funcref, g.initial)
        })
    }
    fn iter(&self) -> Vec<(TableId, Self::Val)> {
        self.0
            .tables
            .iter()
            .map(|g| (g.id(), (g.element_ty == RefType::Funcref, g.initial)))
            .collect()
    }
    fn lookups(&self, live: &[(TableId, Self::Val)]) -> Result<(), String> {
        let fr: Vec<TableId> = live.iter().filter(|(_, v)| v.0).map(|(i, _)| *i).collect();
        let got = self.0.tables.main_function_table();
        match (fr.len(), got) {
            (0, Ok(None)) => Ok(()),
            (1, Ok(Some(t))) if t == fr[0] => Ok(()),
            (n, Err(_)) if n > 1 => Ok(()),
            (n, g) => Err(format!(
                "main_function_table = {:?} with {} live funcref tables {:?}",
                g.map_err(|e| e.to_string()),
                n,
                fr
            )),
        }
    }
}

struct Datas(Module);
impl Coll for Datas {
    fn touch(&mut self, id: DataId) {
        self.0.data.get_mut(id).name = Some(format!("named{}", id.index()));
    }
    fn get_mut_resolves(&mut self, id: DataId) -> Option<bool> {
        Some(quiet(|| {
            let _ = self.0.data.get_mut(id);
        })
        .is_some())
    }
    const NAME: &'static str = "data";
    type Id = DataId;
    type Val = Vec<u8>;
    fn new() -> Self {
        Datas(Module::default())
    }
    fn pool(&self) -> Vec<Self::Val> {
        vec![vec![1], vec![2, 2], vec![1]]
    }
    fn add(&mut self, v: &Self::Val) -> Result<DataId, ()> {
        quiet(|| self.0.data.add(DataKind::Passive, v.clone())).ok_or(())
    }
    fn delete(&mut self, id: DataId) -> bool {
        quiet(|| self.0.data.delete(id)).is_some()
    }
    fn get(&self, id: DataId) -> Option<Self::Val> {
        quiet(|| {
            let g = self.0.data.get(id);
            assert_eq!(g.id(), id);
            g.value.clone()
        })
    }
    fn iter(&self) -> Vec<(DataId, Self::Val)> {
        self.0.data.iter().map(|g| (g.id(), g.value.clone())).collect()
    }
}

struct Elems(Module);
impl Coll for Elems {
    fn touch(&mut self, id: ElementId) {
        self.0.elements.get_mut(id).name = Some(format!("named{}", id.index()));
    }
    fn get_mut_resolves(&mut self, id: ElementId) -> Option<bool> {
        Some(quiet(|| {
            let _ = self.0.elements.get_mut(id);
        })
        .is_some())
    }
    const NAME: &'static str = "elements";
    type Id = ElementId;
    type Val = u8;
    fn new() -> Self {
        Elems(Module::default())
    }
    fn pool(&self) -> Vec<Self::Val> {
        vec![0, 1, 0]
    }
    fn add(&mut self, v: &u8) -> Result<ElementId, ()> {
        let kind = if *v == 0 { ElementKind::Passive } else { ElementKind::Declared };
        quiet(|| self.0.elements.add(kind, ElementItems::Functions(vec![]))).ok_or(())
    }
    fn delete(&mut self, id: ElementId) -> bool {
        quiet(|| self.0.elements.delete(id)).is_some()
    }
    fn iter_mut_ids(&mut self) -> Option<Vec<ElementId>> {
        Some(self.0.elements.iter_mut().map(|e| e.id()).collect())
    }
    fn get(&self, id: ElementId) -> Option<u8> {
        quiet(|| {
            let g = self.0.elements.get(id);
            assert_eq!(g.id(), id);
            match g.kind {
                ElementKind::Passive => 0,
                ElementKind::Declared => 1,
                _ => 2,
            }
        })
    }
    fn iter(&self) -> Vec<(ElementId, u8)> {
        self.0
            .elements
            .iter()
            .map(|g| {
                (
                    g.id(),
                    match g.kind {
                        ElementKind::Passive => 0,
                        ElementKind::Declared => 1,
                        _ => 2,
                    },
                )
            })
            .collect()
    }
}

struct Funcs {
    m: Module,
    ty: [TypeId; 2],
    imp: ImportId,
}
impl Coll for Funcs {
    fn touch(&mut self, id: FunctionId) {
        // the name is part of the modelled value here: mutable access only
        let _ = self.m.funcs.get_mut(id).id();
    }
    fn get_mut_resolves(&mut self, id: FunctionId) -> Option<bool> {
        Some(quiet(|| {
            let _ = self.m.funcs.get_mut(id);
        })
        .is_some())
    }
    const NAME: &'static str = "functions";
    type Id = FunctionId;
    /// (is local, type slot, name)
    type Val = (bool, usize, Option<String>);
    fn new() -> Self {
        let mut m = Module::default();
        let t0 = m.types.add(&[], &[]);
        let t1 = m.types.add(&[ValType::I32], &[]);
        let g = m.globals.add_local(ValType::I32, false, false, ConstExpr::Value(ir::Value::I32(0)));
        let imp = m.imports.add("x", "y", g);
        Funcs { m, ty: [t0, t1], imp }
    }
    fn pool(&self) -> Vec<Self::Val> {
        vec![
            (false, 0, Some("n".into())),
            (true, 1, Some("m".into())),
            (true, 0, Some("n".into())),
        ]
    }
    fn add(&mut self, v: &Self::Val) -> Result<FunctionId, ()> {
        let ty = self.ty[v.1];
        let imp = self.imp;
        if v.0 {
            let params: Vec<ValType> = if v.1 == 1 { vec![ValType::I32] } else { vec![] };
            quiet(|| {
                let args: Vec<LocalId> = params.iter().map(|t| self.m.locals.add(*t)).collect();
                let mut b = FunctionBuilder::new(&mut self.m.types, &params, &[]);
                if let Some(n) = &v.2 {
                    b.name(n.clone());
                }
                b.func_body().unreachable();
                b.finish(args, &mut self.m.funcs)
            })
            .ok_or(())
        } else {
            quiet(|| {
                let id = self.m.funcs.add_import(ty, imp);
                self.m.funcs.get_mut(id).name = v.2.clone();
                id
            })
            .ok_or(())
        }
    }
    fn delete(&mut self, id: FunctionId) -> bool {
        quiet(|| self.m.funcs.delete(id)).is_some()
    }
    fn iter_mut_ids(&mut self) -> Option<Vec<FunctionId>> {
        let all: Vec<FunctionId> = self.m.funcs.iter_mut().map(|e| e.id()).collect();
        let locals_mut: Vec<FunctionId> = self.m.funcs.iter_local_mut().map(|(i, _)| i).collect();
        let locals: Vec<FunctionId> = self.m.funcs.iter_local().map(|(i, _)| i).collect();
        assert_eq!(locals_mut, locals, "iter_local_mut and iter_local disagree");
        Some(all)
    }
    fn get(&self, id: FunctionId) -> Option<Self::Val> {
        quiet(|| {
            let f = self.m.funcs.get(id);
            assert_eq!(f.id(), id);
            self.val(f)
        })
    }
    fn iter(&self) -> Vec<(FunctionId, Self::Val)> {
        self.m.funcs.iter().map(|f| (f.id(), self.val(f))).collect()
    }
    fn lookups(&self, live: &[(FunctionId, Self::Val)]) -> Result<(), String> {
        for n in ["n", "m", "q"] {
            let want = live.iter().find(|(_, v)| v.2.as_deref() == Some(n)).map(|(i, _)| *i);
            let got = self.m.funcs.by_name(n);
            if got != want {
                return Err(format!("funcs.by_name({}) = {:?}, expected {:?}", n, got, want));
            }
        }
        let locals: Vec<FunctionId> = self.m.funcs.iter_local().map(|(i, _)| i).collect();
        let want: Vec<FunctionId> = live.iter().filter(|(_, v)| v.0).map(|(i, _)| *i).collect();
        if locals != want {
            return Err(format!("iter_local = {:?}, expected {:?}", locals, want));
        }
        Ok(())
    }
}
impl Funcs {
    fn val(&self, f: &Function) -> (bool, usize, Option<String>) {
        let local = matches!(f.kind, FunctionKind::Local(_));
        let slot = if f.ty() == self.ty[0] { 0 } else { 1 };
        (local, slot, f.name.clone())
    }
}

#[derive(Debug)]
struct OtherSection {
    name: String,
    data: Vec<u8>,
}
impl CustomSection for OtherSection {
    fn name(&self) -> &str {
        &self.name
    }
    fn data(&self, _: &IdsToIndices) -> std::borrow::Cow<[u8]> {
        self.data.as_slice().into()
    }
}

#[derive(Clone, Copy)]
enum TypedId {
    Raw(TypedCustomSectionId<RawCustomSection>),
    Other(TypedCustomSectionId<OtherSection>),
}

struct Customs {
    m: Module,
    ids: Vec<UntypedCustomSectionId>,
    /// the typed id `add` returned, same positions as `ids`
    typed: Vec<TypedId>,
}
impl Coll for Customs {
    const NAME: &'static str = "customs";
    type Id = usize; // index into self.ids (custom ids are opaque, compare by position)
    /// (name, payload, is a RawCustomSection)
    type Val = (String, Vec<u8>, bool);
    fn new() -> Self {
        let mut cfg = ModuleConfig::new();
        cfg.generate_dwarf(true);
        Customs {
            m: Module::with_config(cfg),
            ids: vec![],
            typed: vec![],
        }
    }
    fn pool(&self) -> Vec<Self::Val> {
        vec![
            ("a".into(), vec![1], true),
            ("b".into(), vec![2], true),
            ("a".into(), vec![3], true),
            ("a".into(), vec![9], false),
            ("b".into(), vec![8], false),
            (".debug_verif".into(), vec![7], true),
        ]
    }
    fn add(&mut self, v: &Self::Val) -> Result<usize, ()> {
        let (u, t): (UntypedCustomSectionId, TypedId) = if v.2 {
            let t = quiet(|| {
                self.m.customs.add(RawCustomSection {
                    name: v.0.clone(),
                    data: v.1.clone(),
                })
            })
            .ok_or(())?;
            (t.into(), TypedId::Raw(t))
        } else {
            let t = quiet(|| {
                self.m.customs.add(OtherSection {
                    name: v.0.clone(),
                    data: v.1.clone(),
                })
            })
            .ok_or(())?;
            (t.into(), TypedId::Other(t))
        };
        if let Some(p) = self.ids.iter().position(|x| *x == u) {
            return Ok(p); // id reuse: reported by the driver
        }
        self.ids.push(u);
        self.typed.push(t);
        Ok(self.ids.len() - 1)
    }
    fn delete(&mut self, id: usize) -> bool {
        let u = self.ids[id];
        // odd positions are deleted through the typed id
        if id % 2 == 1 {
            return match self.typed[id] {
                TypedId::Raw(t) => matches!(quiet(|| self.m.customs.delete(t)), Some(Some(_))),
                TypedId::Other(t) => matches!(quiet(|| self.m.customs.delete(t)), Some(Some(_))),
            };
        }
        matches!(quiet(|| self.m.customs.delete(u)), Some(Some(_)))
    }
    fn get_mut_resolves(&mut self, id: usize) -> Option<bool> {
        let u = self.ids[id];
        Some(quiet(|| self.m.customs.get_mut(u).is_some()).unwrap_or(false))
    }
    fn touch(&mut self, id: usize) {
        // mutable access by untyped and typed id; the content is rewritten unchanged
        let u = self.ids[id];
        let _ = self.m.customs.get_mut(u).map(|s| s.name().len());
        if let Some(s) = self.m.customs.get_typed_mut::<RawCustomSection>() {
            s.data = s.data.clone();
        }
        // emitting the module in the middle of a history consumes nothing:
        // every id keeps resolving afterwards (DWARF generation is on and one
        // pooled section is named like a DWARF section)
        let _ = quiet(|| self.m.emit_wasm());
        match self.typed[id] {
            TypedId::Raw(t) => {
                if let Some(s) = self.m.customs.get_mut(t) {
                    s.data = s.data.clone();
                }
            }
            TypedId::Other(t) => {
                if let Some(s) = self.m.customs.get_mut(t) {
                    s.data = s.data.clone();
                }
            }
        }
    }
    fn remove_by_key(&mut self, v: &Self::Val) -> Option<bool> {
        if v.2 {
            Some(self.m.customs.remove_raw(&v.0).is_some())
        } else {
            // delete_typed removes the first live section of that Rust type
            Some(self.m.customs.delete_typed::<OtherSection>().is_some())
        }
    }
    fn same_key(a: &Self::Val, b: &Self::Val) -> bool {
        if b.2 {
            // remove_raw(name) removes the first live *raw* section of that name
            a.0 == b.0 && a.2
        } else {
            !a.2
        }
    }
    fn iter_mut_ids(&mut self) -> Option<Vec<usize>> {
        let ids = self.ids.clone();
        Some(
            self.m
                .customs
                .iter_mut()
                .map(|(u, _)| ids.iter().position(|x| *x == u).unwrap_or(usize::MAX))
                .collect(),
        )
    }
    fn get(&self, id: usize) -> Option<Self::Val> {
        let u = self.ids[id];
        let by_untyped = quiet(|| {
            self.m.customs.get(u).map(|s| {
                (
                    s.name().to_string(),
                    s.data(&IdsToIndices::default()).to_vec(),
                    s.as_any().is::<RawCustomSection>(),
                )
            })
        })
        .flatten();
        // the typed id must resolve to the same section (or to nothing)
        let by_typed = quiet(|| match self.typed[id] {
            TypedId::Raw(t) => self.m.customs.get(t).map(|s| (s.name.clone(), s.data.clone(), true)),
            TypedId::Other(t) => self.m.customs.get(t).map(|s| (s.name.clone(), s.data.clone(), false)),
        })
        .flatten();
        if by_typed != by_untyped {
            // make the disagreement visible to the driver as a wrong value
            return Some(("typed and untyped id disagree".into(), vec![], false));
        }
        by_untyped
    }
    fn iter(&self) -> Vec<(usize, Self::Val)> {
        self.m
            .customs
            .iter()
            .map(|(u, s)| {
                (
                    self.ids.iter().position(|x| *x == u).unwrap_or(usize::MAX),
                    (
                        s.name().to_string(),
                        s.data(&IdsToIndices::default()).to_vec(),
                        s.as_any().is::<RawCustomSection>(),
                    ),
                )
            })
            .collect()
    }
    fn lookups(&self, live: &[(usize, Self::Val)]) -> Result<(), String> {
        let want = live.iter().find(|(_, v)| v.2).map(|(_, v)| v.clone());
        let got = self
            .m
            .customs
            .get_typed::<RawCustomSection>()
            .map(|s| (s.name.clone(), s.data.clone(), true));
        if got != want {
            return Err(format!("get_typed::<RawCustomSection>() = {:?}, expected first live raw section {:?}", got, want));
        }
        let want_other = live.iter().find(|(_, v)| !v.2).map(|(_, v)| v.clone());
        let got_other = self.m.customs.get_typed::<OtherSection>().map(|s| (s.name.clone(), s.data.clone(), false));
        if got_other != want_other {
            return Err(format!("get_typed::<OtherSection>() = {:?}, expected first live section of that type {:?}", got_other, want_other));
        }
        Ok(())
    }
}

// ---------------------------------------------------------------------------

pub const COLLECTIONS: &[&str] = &[
    "types", "exports", "imports", "globals", "memories", "tables", "data", "elements", "functions", "customs",
];

fn dispatch(coll: &str, ops: &[Op]) -> Result<bool, Failure> {
    match coll {
        "types" => run_seq::<Types>(ops),
        "exports" => run_seq::<Exports>(ops),
        "imports" => run_seq::<Imports>(ops),
        "globals" => run_seq::<Globals>(ops),
        "memories" => run_seq::<Memories>(ops),
        "tables" => run_seq::<Tables>(ops),
        "data" => run_seq::<Datas>(ops),
        "elements" => run_seq::<Elems>(ops),
        "functions" => run_seq::<Funcs>(ops),
        "customs" => run_seq::<Customs>(ops),
        _ => Ok(false),
    }
}

fn ops_to_json(coll: &str, ops: &[Op]) -> serde_json::Value {
    json!({"collection": coll, "ops": ops.iter().map(|o| match o {
        Op::Add(v) => format!("add:{}", v),
        Op::Del(k) => format!("del:{}", k),
        Op::Touch(k) => format!("touch:{}", k),
        Op::Remove(k) => format!("remove:{}", k),
        Op::Aux(k) => format!("aux:{}", k),
    }).collect::<Vec<_>>()})
}

fn ops_from_json(v: &serde_json::Value) -> Option<(String, Vec<Op>)> {
    let coll = v.get("collection")?.as_str()?.to_string();
    let mut ops = Vec::new();
    for o in v.get("ops")?.as_array()? {
        let s = o.as_str()?;
        let (k, n) = s.split_once(':')?;
        let n: u8 = n.parse().ok()?;
        ops.push(match k {
            "add" => Op::Add(n),
            "touch" => Op::Touch(n),
            "remove" => Op::Remove(n),
            "aux" => Op::Aux(n),
            _ => Op::Del(n),
        });
    }
    Some((coll, ops))
}

fn decode_choices(bytes: &[u8]) -> (String, Vec<Op>) {
    let mut ch = crate::ch::Ch::new(bytes);
    let coll = COLLECTIONS[ch.below(COLLECTIONS.len())].to_string();
    let n = ch.below(61);
    let mut ops = Vec::new();
    for _ in 0..n {
        if ch.exhausted() {
            break;
        }
        match ch.below(10) {
            0..=4 => ops.push(Op::Add(ch.below(8) as u8)),
            5..=7 => ops.push(Op::Del(ch.below(24) as u8)),
            8 => {
                if ch.bool() {
                    ops.push(Op::Touch(ch.below(24) as u8))
                } else {
                    ops.push(Op::Aux(ch.below(6) as u8))
                }
            }
            _ => ops.push(Op::Remove(ch.below(8) as u8)),
        }
    }
    (coll, ops)
}

pub fn check(_ctx: &Ctx, input: &Input) -> CaseResult {
    let mut out = CaseOut::default();
    let (coll, ops) = match input {
        Input::Json(v) => match ops_from_json(v) {
            Some(x) => x,
            None => return Ok(out),
        },
        Input::Choices { bytes, .. } => decode_choices(bytes),
        _ => return Ok(out),
    };
    out.hash = fnv(format!("{}{:?}", coll, ops).as_bytes());
    let nt = dispatch(&coll, &ops).map_err(|mut f| {
        f.detail = format!("{} | replay: {}", f.detail, ops_to_json(&coll, &ops));
        f
    })?;
    out.nontrivial = nt;
    out.label(format!("coll:{}", coll));
    if nt && out.hash % 4096 == 0 {
        out.sample = Some(ops_to_json(&coll, &ops));
    }
    Ok(out)
}

fn enumerate(len: usize, cur: &mut Vec<Op>, alphabet: &[Op], f: &mut dyn FnMut(&[Op])) {
    f(cur);
    if cur.len() == len {
        return;
    }
    for a in alphabet {
        cur.push(*a);
        enumerate(len, cur, alphabet, f);
        cur.pop();
    }
}

fn run(ctx: &Ctx) {
    // exhaustive part: per-collection alphabets (collections with a debug
    // name get touch ops, collections with remove-by-name get remove ops)
    let base = vec![
        Op::Add(0),
        Op::Add(1),
        Op::Add(2),
        Op::Del(0),
        Op::Del(1),
        Op::Del(2),
        Op::Del(3),
    ];
    let max_len = ctx.tier.pick(6, 7);
    let mut work: Vec<(&'static str, Vec<Op>)> = Vec::new();
    let mut per_coll = serde_json::Map::new();
    for coll in COLLECTIONS {
        let mut alphabet = base.clone();
        let mut len = max_len;
        match *coll {
            "types" => {
                alphabet.push(Op::Touch(0));
                alphabet.push(Op::Aux(0));
                alphabet.push(Op::Aux(1));
                len -= 1;
            }
            "exports" => {
                // "e" is a second name of the function "a" exports
                alphabet.push(Op::Add(6));
                alphabet.push(Op::Remove(0));
                alphabet.push(Op::Remove(6));
                len -= 1;
            }
            "imports" => {
                alphabet.push(Op::Add(4));
                alphabet.push(Op::Add(5));
                alphabet.push(Op::Remove(0));
                alphabet.push(Op::Remove(1));
                len -= 1;
            }
            "customs" => {
                // a non-raw section sharing a raw section's name
                alphabet.push(Op::Add(3));
                alphabet.push(Op::Add(5));
                alphabet.push(Op::Remove(0));
                alphabet.push(Op::Remove(3));
                alphabet.push(Op::Touch(0));
                len -= 1;
            }
            _ => {}
        }
        let before = work.len();
        enumerate(len, &mut vec![], &alphabet, &mut |s| work.push((*coll, s.to_vec())));
        per_coll.insert(
            coll.to_string(),
            json!({"alphabet": alphabet.len(), "max_len": len, "sequences": work.len() - before}),
        );
    }
    ctx.set_extra("exhaustive_part", serde_json::Value::Object(per_coll));
    let total = work.len();
    let next = std::sync::atomic::AtomicUsize::new(0);
    std::thread::scope(|s| {
        for _ in 0..16 {
            s.spawn(|| {
                let mut evals = 0u64;
                let mut nt = std::collections::HashSet::new();
                let mut labels = std::collections::BTreeMap::new();
                let mut samples = Vec::new();
                loop {
                    let i = next.fetch_add(1024, std::sync::atomic::Ordering::Relaxed);
                    if i >= total || ctx.has_violation() {
                        break;
                    }
                    for j in i..(i + 1024).min(total) {
                        let coll = work[j].0;
                        let ops = &work[j].1;
                        let h = fnv(format!("{}{:?}", coll, ops).as_bytes());
                        match dispatch(coll, ops) {
                            Ok(nontrivial) => {
                                evals += 1;
                                if nontrivial {
                                    nt.insert(h);
                                    if h % 65536 == 0 && samples.len() < 2 {
                                        samples.push(ops_to_json(coll, ops));
                                    }
                                }
                                *labels.entry(format!("exhaustive:{}", coll)).or_insert(0u64) += 1;
                            }
                            Err(_) => {
                                // re-run through the normal path for reporting
                                let input = Input::Json(ops_to_json(coll, ops));
                                let r = check(ctx, &input);
                                ctx.judge(&input, r);
                            }
                        }
                    }
                }
                ctx.merge_passed(evals, nt, labels, samples);
            });
        }
    });
    // random long sequences
    let plans = [GenPlan {
        gen: "c17",
        cases: ctx.tier.pick(20_000, 1_000_000),
        min_len: 0,
        max_len: 130,
    }];
    standard_run(ctx, check, &plans, false);
}
