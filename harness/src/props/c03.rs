//! C03 — every instruction survives the round trip with exact opcode and
//! immediates.

use super::*;
use crate::decode::decode;
use crate::iso::{Area, Iso};
use crate::ops::{self, env, VT};
use crate::optable::{validate_walrus, walrus_features, validate_with};
use crate::wal;
use serde_json::json;
use std::collections::HashSet;
use std::sync::OnceLock;
use wasm_encoder as we;
use wasmparser::Operator;

pub fn def() -> PropDef {
    PropDef {
        id: "C03",
        run,
        check,
        meta,
    }
}

fn meta(_ctx: &Ctx) -> EvidenceMeta {
    EvidenceMeta {
        rule: "(a) exhaustive: every wasmparser operator instantiated with boundary immediates, operand types found by validator search, placed in a rich host module; non-trivial = accepted by the reference validator under walrus's feature set, distinct by (opcode, immediates). (b) generated full-profile modules, fixtures, real corpus: non-trivial = >=10 operators compared and >=5 distinct opcodes; distinct by module bytes. Oracle: independent decode of input and output, input canonicalised (nop / dead code removed, else added), operator lists equal position by position under a verified renumbering bijection.".into(),
        assumptions: vec![
            "wasmparser decodes both binaries faithfully (walrus uses the same crate for reading; its own tables are not used)".into(),
            "canonicalisation re-states only the elision the property allows".into(),
        ],
        level: "exploration",
        exhaustive: false,
    }
}

pub fn iso_case(ctx: &Ctx, input: &Input, want: Area) -> CaseResult {
    let mut out = CaseOut::default();
    let p = match prepare(input) {
        Some(p) => p,
        None => return Ok(out),
    };
    out.hash = fnv(&p.bytes);
    if let Some(s) = &p.spec {
        feature_labels(&mut out, s);
    }
    if validate_walrus(&p.bytes).is_err() {
        out.label("skip:input-invalid");
        return Ok(out);
    }
    // variants of "the round trip": an eighth of the cases each judge the
    // *second* emission of the same Module, an emission that records the code
    // transform, and both
    let variant = out.hash % 8;
    let cfgv = wal::Cfg {
        code_transform: variant == 2 || variant == 5,
        ..wal::Cfg::plain()
    };
    let first = if variant == 1 || variant == 5 {
        match wal::parse(&p.bytes, &cfgv.to_config()) {
            Ok(Ok(mut m)) => match wal::emit(&mut m) {
                Ok(_) => {
                    out.label("variant:second-emission-judged");
                    wal::emit(&mut m).map(Some)
                }
                Err(f) => Err(f),
            },
            Ok(Err(_)) => Ok(None),
            Err(f) => Err(f),
        }
    } else {
        wal::roundtrip(&p.bytes, cfgv, false)
    };
    if cfgv.code_transform {
        out.label("variant:code-transform-recorded");
    }
    let b = match first {
        Ok(Some(b)) => b,
        Ok(None) => {
            out.label("skip:walrus-rejected(C05)");
            return Ok(out);
        }
        Err(f) => {
            // a valid module whose round trip panics has no output in which
            // anything could have been preserved (C02 and C05 say the same
            // from their side)
            return Err(Failure::new(
                format!("round-trip-panicked:{}", f.signature),
                format!("the round trip of a module the reference validator accepts panicked: {} [{}]", f.detail, p.origin),
            ));
        }
    };
    let da = match decode(&p.bytes) {
        Ok(d) => d,
        Err(_) => {
            out.label("skip:input-undecodable");
            return Ok(out);
        }
    };
    let db = match decode(&b) {
        Ok(d) => d,
        Err(_) => {
            out.label("skip:output-undecodable(C02)");
            return Ok(out);
        }
    };
    if want == Area::Module {
        structure_labels(&mut out, &da);
    }
    let mut iso = Iso::new(&da, &db);
    // known findings of *any* property are stepped over so that the
    // comparison continues behind them; only this property's are reported
    iso.tolerate = ctx
        .known
        .iter()
        .filter(|k| k.status == "known" && !(ctx.strict && k.property == ctx.prop))
        .map(|k| k.signature.clone())
        .collect();
    let r = iso.run_full();
    for (sig, (_n, ex)) in iso.tolerated_hits.iter() {
        if ctx.is_known(sig).is_some() {
            out.known.push(Failure::new(sig.clone(), ex.clone()));
        }
    }
    if iso.canon.dead_ops > 0 {
        out.label("dead-code-elided");
    }
    if iso.canon.nops > 0 {
        out.label("nops-elided");
    }
    if iso.canon.if_no_else > 0 {
        out.label("if-without-else");
    }
    let reordered = iso.funcs.fwd.iter().any(|(a, b)| a != b);
    if reordered {
        out.label("functions-reordered");
    }
    match r {
        Ok(()) => {}
        Err(m) => {
            if m.area == want {
                return Err(Failure::new(m.signature, format!("{} [{}]", m.detail, p.origin)));
            } else {
                out.label(format!("skip:mismatch-in-other-area:{}", m.signature));
                return Ok(out);
            }
        }
    }
    // second mode: the same comparison after the GC pass (the output is a
    // sub-module; whatever survives must be unchanged and not retargeted)
    if let Ok(Some(g)) = wal::roundtrip(&p.bytes, wal::Cfg::plain(), true) {
        if let Ok(dg) = decode(&g) {
            let mut iso2 = Iso::new(&da, &dg);
            iso2.tolerate = iso.tolerate.clone();
            let r2 = iso2.run_gc();
            for (sig, (_n, ex)) in iso2.tolerated_hits.iter() {
                if ctx.is_known(sig).is_some() && !out.known.iter().any(|k| k.signature == *sig) {
                    out.known.push(Failure::new(sig.clone(), ex.clone()));
                }
            }
            out.label("mode:gc-compared");
            // the pass is asked to drop what nothing reaches; an active segment
            // of a table or memory that survives is reached through it, and an
            // active data segment is a root: they must survive with it
            if r2.is_ok() && want == Area::Module {
                for (i, e) in da.elems.iter().enumerate() {
                    if let crate::decode::ElemMode::Active { table, .. } = &e.mode {
                        let i = i as u32;
                        // (a table the bijection placed by first fit among
                        // identical unreferenced candidates is no witness)
                        if iso2.tables.fwd.contains_key(table)
                            && !iso2.ambiguous.contains(&("table", *table))
                            && !iso2.elems.fwd.contains_key(&i)
                            && !iso2.ambiguous.contains(&("element", i))
                        {
                            return Err(Failure::new(
                                "after-gc:active-element-segment-of-a-surviving-table-dropped",
                                format!("after the GC pass: table {} survives (as {}), its active element segment {} does not [{}]", table, iso2.tables.fwd[table], i, p.origin),
                            ));
                        }
                    }
                }
                for (i, d) in da.datas.iter().enumerate() {
                    if let crate::decode::DataMode::Active { .. } = &d.mode {
                        let i = i as u32;
                        if !iso2.datas.fwd.contains_key(&i) && !iso2.ambiguous.contains(&("data", i)) {
                            return Err(Failure::new(
                                "after-gc:active-data-segment-dropped",
                                format!("after the GC pass: active data segment {} is gone [{}]", i, p.origin),
                            ));
                        }
                    }
                }
            }
            if let Err(m) = r2 {
                if m.area == want {
                    return Err(Failure::new(
                        format!("after-gc:{}", m.signature),
                        format!("after the GC pass: {} [{}]", m.detail, p.origin),
                    ));
                } else {
                    out.label(format!("skip:gc-mismatch-in-other-area:{}", m.signature));
                }
            }
        }
    }
    let names: HashSet<&str> = db.funcs.iter().flat_map(|f| f.ops.iter().map(|o| o.name)).collect();
    match want {
        Area::Code => {
            out.nontrivial = iso.ops_compared >= 10 && names.len() >= 5;
        }
        Area::Module => {
            let kinds = [
                !da.imports.is_empty(),
                !da.exports.is_empty(),
                da.n_tables() > 0,
                da.n_mems() > 0,
                da.n_globals() > 0,
                !da.elems.is_empty(),
                !da.datas.is_empty(),
                da.start.is_some(),
            ]
            .iter()
            .filter(|x| **x)
            .count();
            out.nontrivial = kinds >= 3;
        }
    }
    if out.nontrivial {
        out.sample = Some(json!({
            "origin": p.origin,
            "bytes": p.bytes.len(),
            "functions": da.funcs.len(),
            "operators_compared": iso.ops_compared,
            "distinct_opcodes": names.len(),
            "imports": da.imports.len(),
            "elems": da.elems.len(),
            "datas": da.datas.len(),
        }));
    }
    Ok(out)
}

// ---------------------------------------------------------------------------
// (a) exhaustive operator table

fn host_module(test_body: Option<(&[VT], &Operator<'static>)>, wrap: u8) -> Vec<u8> {
    use we::reencode::Reencode;
    let mut m = we::Module::new();
    let mut t = we::TypeSection::new();
    t.function(vec![], vec![]);
    t.function(vec![we::ValType::I32], vec![we::ValType::I32]);
    t.function(
        vec![we::ValType::I64, we::ValType::F32],
        vec![we::ValType::F64, we::ValType::I32],
    );
    t.function(vec![we::ValType::Ref(we::RefType::FUNCREF)], vec![]);
    m.section(&t);
    let mut i = we::ImportSection::new();
    i.import("env", "f", we::EntityType::Function(1));
    i.import(
        "env",
        "g",
        we::EntityType::Global(we::GlobalType {
            val_type: we::ValType::I32,
            mutable: false,
            shared: false,
        }),
    );
    m.section(&i);
    let mut f = we::FunctionSection::new();
    f.function(0);
    f.function(2);
    f.function(3);
    f.function(0); // the test function, index 4
    m.section(&f);
    let mut tb = we::TableSection::new();
    tb.table(we::TableType {
        element_type: we::RefType::FUNCREF,
        table64: false,
        minimum: 2,
        maximum: Some(10),
        shared: false,
    });
    tb.table(we::TableType {
        element_type: we::RefType::EXTERNREF,
        table64: false,
        minimum: 1,
        maximum: None,
        shared: false,
    });
    tb.table(we::TableType {
        element_type: we::RefType::FUNCREF,
        table64: true,
        minimum: 1,
        maximum: None,
        shared: false,
    });
    m.section(&tb);
    let mut ms = we::MemorySection::new();
    ms.memory(we::MemoryType {
        minimum: 1,
        maximum: None,
        memory64: false,
        shared: false,
        page_size_log2: None,
    });
    ms.memory(we::MemoryType {
        minimum: 1,
        maximum: Some(2),
        memory64: false,
        shared: true,
        page_size_log2: None,
    });
    ms.memory(we::MemoryType {
        minimum: 1,
        maximum: None,
        memory64: true,
        shared: false,
        page_size_log2: None,
    });
    m.section(&ms);
    let mut g = we::GlobalSection::new();
    let muts = [
        (we::ValType::I32, we::ConstExpr::i32_const(1)),
        (we::ValType::I64, we::ConstExpr::i64_const(2)),
        (we::ValType::F32, we::ConstExpr::f32_const(3.0)),
        (we::ValType::F64, we::ConstExpr::f64_const(4.0)),
        (we::ValType::V128, we::ConstExpr::v128_const(5)),
        (
            we::ValType::Ref(we::RefType::FUNCREF),
            we::ConstExpr::ref_null(we::HeapType::Abstract {
                shared: false,
                ty: we::AbstractHeapType::Func,
            }),
        ),
        (
            we::ValType::Ref(we::RefType::EXTERNREF),
            we::ConstExpr::ref_null(we::HeapType::Abstract {
                shared: false,
                ty: we::AbstractHeapType::Extern,
            }),
        ),
    ];
    for (ty, init) in muts.iter() {
        g.global(
            we::GlobalType {
                val_type: *ty,
                mutable: true,
                shared: false,
            },
            init,
        );
    }
    g.global(
        we::GlobalType {
            val_type: we::ValType::F32,
            mutable: false,
            shared: false,
        },
        &we::ConstExpr::f32_const(1.5),
    );
    m.section(&g);
    let mut e = we::ExportSection::new();
    e.export("test", we::ExportKind::Func, 4);
    e.export("f1", we::ExportKind::Func, 1);
    e.export("f2", we::ExportKind::Func, 2);
    e.export("f3", we::ExportKind::Func, 3);
    m.section(&e);
    let mut el = we::ElementSection::new();
    el.passive(we::Elements::Functions(&[0, 1]));
    el.passive(we::Elements::Expressions(
        we::RefType::EXTERNREF,
        &[we::ConstExpr::ref_null(we::HeapType::Abstract {
            shared: false,
            ty: we::AbstractHeapType::Extern,
        })],
    ));
    el.declared(we::Elements::Functions(&[0, 1, 2, 3, 4]));
    m.section(&el);
    m.section(&we::DataCountSection { count: 3 });
    let mut c = we::CodeSection::new();
    // f1: ()->()
    let mut f1 = we::Function::new(vec![]);
    f1.instruction(&we::Instruction::I64Const(101));
    f1.instruction(&we::Instruction::Drop);
    f1.instruction(&we::Instruction::End);
    c.function(&f1);
    // f2: (i64,f32)->(f64,i32)
    let mut f2 = we::Function::new(vec![]);
    f2.instruction(&we::Instruction::F64Const(1.0));
    f2.instruction(&we::Instruction::I32Const(102));
    f2.instruction(&we::Instruction::End);
    c.function(&f2);
    // f3: (funcref)->()
    let mut f3 = we::Function::new(vec![]);
    f3.instruction(&we::Instruction::I64Const(103));
    f3.instruction(&we::Instruction::Drop);
    f3.instruction(&we::Instruction::I64Const(103));
    f3.instruction(&we::Instruction::Drop);
    f3.instruction(&we::Instruction::End);
    c.function(&f3);
    // test function
    let mut locals: Vec<(u32, we::ValType)> = VT::ALL.iter().map(|t| (1u32, t.to_we())).collect();
    locals.push((1, we::ValType::I32));
    locals.push((1, we::ValType::I64));
    let mut tf = we::Function::new(locals);
    if let Some((params, op)) = test_body {
        tf.instruction(&we::Instruction::Block(we::BlockType::Empty));
        tf.instruction(&we::Instruction::Block(we::BlockType::Empty));
        for p in params {
            let idx = VT::ALL.iter().position(|t| t == p).unwrap() as u32;
            tf.instruction(&we::Instruction::LocalGet(idx));
        }
        let mut r = we::reencode::RoundtripReencoder;
        match r.instruction(op.clone()) {
            Ok(ins) => {
                tf.instruction(&ins);
            }
            Err(_) => {
                // not encodable: make the module invalid on purpose
                tf.instruction(&we::Instruction::Drop);
                tf.instruction(&we::Instruction::Drop);
                tf.instruction(&we::Instruction::Drop);
                tf.instruction(&we::Instruction::Drop);
                tf.instruction(&we::Instruction::Drop);
            }
        }
        match wrap {
            1 => {
                // a block was opened by the operator itself
                tf.instruction(&we::Instruction::Unreachable);
                tf.instruction(&we::Instruction::End);
            }
            2 => {
                tf.instruction(&we::Instruction::Unreachable);
                tf.instruction(&we::Instruction::Else);
                tf.instruction(&we::Instruction::Unreachable);
                tf.instruction(&we::Instruction::End);
            }
            _ => {}
        }
        tf.instruction(&we::Instruction::Unreachable);
        tf.instruction(&we::Instruction::End);
        tf.instruction(&we::Instruction::End);
    }
    tf.instruction(&we::Instruction::End);
    c.function(&tf);
    m.section(&c);
    let mut d = we::DataSection::new();
    d.passive([1u8, 2, 3]);
    d.passive([]);
    d.passive([4u8]);
    m.section(&d);
    m.finish()
}

fn tuples_upto(len: usize) -> Vec<Vec<VT>> {
    let mut all: Vec<Vec<VT>> = vec![vec![]];
    let mut cur: Vec<Vec<VT>> = vec![vec![]];
    for _ in 0..len {
        let mut next = Vec::new();
        for t in &cur {
            for v in VT::ALL {
                let mut n = t.clone();
                n.push(v);
                next.push(n);
            }
        }
        all.extend(next.iter().cloned());
        cur = next;
    }
    all
}

pub struct Instance {
    pub op: Operator<'static>,
    pub params: Option<Vec<VT>>,
    pub wrap: u8,
}

fn wrap_of(op: &Operator<'static>) -> Option<u8> {
    match op {
        Operator::Block { .. } | Operator::Loop { .. } => Some(1),
        Operator::If { .. } => Some(2),
        Operator::Else | Operator::End => None,
        Operator::Try { .. } | Operator::TryTable { .. } => Some(1),
        _ => Some(0),
    }
}

/// All operator instances with the operand tuple the reference validator
/// accepts (None = rejected under walrus's feature set for every tuple).
pub fn instances() -> &'static Vec<Instance> {
    static I: OnceLock<Vec<Instance>> = OnceLock::new();
    I.get_or_init(|| {
        use rayon::prelude::*;
        let feats = walrus_features(false);
        let all: Vec<Operator<'static>> = ops::all_operator_instances();
        let t3 = tuples_upto(3);
        let t4 = tuples_upto(4);
        all.into_par_iter()
            .filter_map(|op| {
                let wrap = wrap_of(&op)?;
                let name = ops::flatten(&op, 0).name;
                let tuples = if matches!(name, "CallIndirect" | "ReturnCallIndirect") {
                    &t4
                } else {
                    &t3
                };
                let mut found = None;
                for t in tuples.iter() {
                    let ok = crate::run::guard("c03a-build", || {
                        validate_with(&host_module(Some((t, &op)), wrap), feats).is_ok()
                    })
                    .unwrap_or(false);
                    if ok {
                        found = Some(t.clone());
                        break;
                    }
                }
                Some(Instance {
                    op,
                    params: found,
                    wrap,
                })
            })
            .collect()
    })
}

fn check_instance(ctx: &Ctx, idx: usize) -> CaseResult {
    let inst = &instances()[idx];
    let mut out = CaseOut::default();
    let params = match &inst.params {
        Some(p) => p,
        None => {
            out.label("c03a:rejected-by-reference-validator");
            return Ok(out);
        }
    };
    let bytes = host_module(Some((params, &inst.op)), inst.wrap);
    let flat = ops::flatten(&inst.op, 0);
    let input = Input::Wasm {
        origin: format!("c03a:{}", flat.short()),
        bytes,
    };
    let mut r = iso_case(ctx, &input, Area::Code)?;
    if r.labels.iter().any(|l| l.starts_with("skip:")) {
        // the host module is valid by construction; a skip here means walrus
        // rejected or broke it, which C03a must not silently ignore
        let why = r.labels.iter().find(|l| l.starts_with("skip:")).cloned().unwrap();
        if why.contains("mismatch-in-other-area") || why.contains("emit-panic") || why.contains("output-undecodable") {
            r.label("c03a:other-property");
            return Ok(r);
        }
        return Err(Failure::new(
            format!("c03a:{}:{}", why, flat.name),
            format!("operator instance {} could not be round-tripped: {}", flat.short(), why),
        ));
    }
    r.nontrivial = true;
    r.hash = fnv(format!("{:?}", flat).as_bytes());
    r.labels.clear();
    r.label("c03a:accepted-instance");
    r.sample = if idx % 997 == 0 {
        Some(json!({"c03a_instance": flat.short(), "operands": format!("{:?}", params)}))
    } else {
        None
    };
    Ok(r)
}

/// body sizes on both sides of every length at which the size prefix of a
/// code entry grows by a byte
const BOUNDARY_BODY_SIZES: [usize; 13] = [126, 127, 128, 129, 16382, 16383, 16384, 16385, 16386, 2097150, 2097151, 2097152, 2097153];

/// a module of three functions; the middle one has a body of exactly `size`
/// bytes (one locals-count byte, `i32.const 0; drop` triples, `i32.const 64;
/// drop` quadruples, `end`), which walrus emits with the same length
fn boundary_body_module(size: usize) -> Vec<u8> {
    let mut m = we::Module::new();
    let mut t = we::TypeSection::new();
    t.function([], []);
    t.function([], [we::ValType::I32]);
    m.section(&t);
    let mut f = we::FunctionSection::new();
    f.function(1);
    f.function(0);
    f.function(1);
    m.section(&f);
    let mut e = we::ExportSection::new();
    e.export("a", we::ExportKind::Func, 0);
    e.export("b", we::ExportKind::Func, 1);
    e.export("c", we::ExportKind::Func, 2);
    m.section(&e);
    let mut code = we::CodeSection::new();
    code.raw(&[0x00, 0x41, 0x07, 0x0b]);
    let pad = size - 2;
    // pad = 3a + 4b with b in 0..3
    let b = (0..3).find(|b| pad >= 4 * b && (pad - 4 * b) % 3 == 0).unwrap();
    let a = (pad - 4 * b) / 3;
    let mut body = Vec::with_capacity(size);
    body.push(0x00);
    for _ in 0..b {
        body.extend_from_slice(&[0x41, 0xc0, 0x00, 0x1a]);
    }
    for _ in 0..a {
        body.extend_from_slice(&[0x41, 0x00, 0x1a]);
    }
    body.push(0x0b);
    assert_eq!(body.len(), size);
    code.raw(&body);
    code.raw(&[0x00, 0x41, 0x09, 0x0b]);
    m.section(&code);
    m.finish()
}

pub fn check(ctx: &Ctx, input: &Input) -> CaseResult {
    if let Input::Json(v) = input {
        if let Some(size) = v.get("c03c").and_then(|x| x.as_u64()) {
            let size = size as usize;
            if !(8..=4_000_000).contains(&size) {
                return Ok(CaseOut::default());
            }
            let input = Input::Wasm {
                origin: format!("c03c:body-of-{}-bytes", size),
                bytes: boundary_body_module(size),
            };
            let mut r = iso_case(ctx, &input, Area::Code)?;
            if let Some(why) = r.labels.iter().find(|l| l.starts_with("skip:")).cloned() {
                if !why.contains("mismatch-in-other-area") {
                    return Err(Failure::new(
                        format!("c03c:{}", why),
                        format!("a valid module whose middle function has a body of {} bytes was not round-tripped: {}", size, why),
                    ));
                }
            }
            r.label("c03c:body-size-boundary");
            return Ok(r);
        }
        if let Some(i) = v.get("c03a").and_then(|x| x.as_u64()) {
            if (i as usize) < instances().len() {
                return check_instance(ctx, i as usize);
            }
        }
        return Ok(CaseOut::default());
    }
    iso_case(ctx, input, Area::Code)
}

fn run(ctx: &Ctx) {
    // (a) exhaustive table, complete in both tiers
    let n = instances().len();
    let inputs: Vec<Input> = (0..n).map(|i| Input::Json(json!({ "c03a": i }))).collect();
    run_inputs(ctx, &inputs, &check);
    let accepted_names: HashSet<&str> = instances()
        .iter()
        .filter(|i| i.params.is_some())
        .map(|i| ops::flatten(&i.op, 0).name)
        .collect();
    let all_names: HashSet<&str> = instances().iter().map(|i| ops::flatten(&i.op, 0).name).collect();
    ctx.set_extra(
        "c03a",
        json!({
            "operator_instances": n,
            "accepted_instances": instances().iter().filter(|i| i.params.is_some()).count(),
            "distinct_operators_enumerated": all_names.len(),
            "distinct_operators_accepted_under_walrus_features": accepted_names.len(),
            "exhaustive_over": "wasmparser::for_each_operator! x boundary immediates (ops::Boundary)",
            "host_env": {"funcs": env::N_FUNCS, "tables": env::N_TABLES, "memories": env::N_MEMS, "globals": env::N_GLOBALS},
        }),
    );
    // (c) body sizes at the size-prefix boundaries
    let inputs: Vec<Input> = BOUNDARY_BODY_SIZES.iter().map(|s| Input::Json(json!({ "c03c": s }))).collect();
    run_inputs(ctx, &inputs, &check);
    // (b)
    let plans = [GenPlan {
        gen: "full",
        cases: ctx.tier.pick(60_000, 600_000),
        min_len: 0,
        max_len: ctx.tier.pick(1500, 4000),
    }];
    standard_run(ctx, check, &plans, true);
}
