//! C15 — IR built through the builder API is emitted faithfully.
//!
//! A typed *model tree* is generated first; an independent *construction plan*
//! (insertion order, append vs positional insert, closure-nested vs dangling
//! sequences attached later) realises it through walrus's builder API; the
//! emitted body must be the model's own in-order flattening.

use super::*;
use crate::ch::Ch;
use crate::decode::decode;
use crate::ops::{BlockTy, Imm, VT};
use crate::optable::validate_walrus;
use crate::wal;
use serde_json::json;
use std::collections::HashMap;
use walrus::ir::*;
use walrus::*;

pub fn def() -> PropDef {
    PropDef {
        id: "C15",
        run,
        check,
        meta,
    }
}

fn meta(_ctx: &Ctx) -> EvidenceMeta {
    EvidenceMeta {
        rule: "model trees of stack-neutral statements (const/drop, local get/set/tee, arithmetic, block / loop / if-else with empty or i32 result, blocks and loops with 0-2 i32 parameters and 0-2 i32 results whose type comes from InstrSeqType::new, br / br_if / br_table to any enclosing construct incl. the function, return, unreachable, dead code after branches) over 0-3 parameters and fresh locals; built through the builder API under a generated construction plan: per sequence a random insertion order realised with append and *_at positional inserts, per nested construct closure-nesting (block/loop_/if_else[_at]) or a dangling sequence filled immediately or at the very end and attached with instr/instr_at; in half the cases some nested sequences are allocated before anything else (inside-out: a nested sequence is older than the sequence that encloses it). non-trivial = depth>=2, a branch to a non-innermost label, a positional insert and a dangling sequence all occur; distinct by choice bytes. Oracle: decoded emitted body == the model's own in-order flattening (same operators and constants, nesting and block types, every branch depth = distance to the model's target, parameter i = local i, other locals mapped injectively with equal types); output validates.".into(),
        assumptions: vec!["the model's flattening is computed before any walrus call and never consults walrus".into()],
        level: "exploration",
        exhaustive: false,
    }
}

/// scalar unary operators with an i32, i64 or f32 operand: (builder operator,
/// the operator the binary must contain, operand type 0 = i32, 1 = i64, 2 = f32)
fn unops() -> &'static [(UnaryOp, &'static str, u8)] {
    use UnaryOp::*;
    &[
        (I32Clz, "I32Clz", 0),
        (I32Ctz, "I32Ctz", 0),
        (I32Popcnt, "I32Popcnt", 0),
        (I64ExtendSI32, "I64ExtendI32S", 0),
        (I64ExtendUI32, "I64ExtendI32U", 0),
        (F32ConvertSI32, "F32ConvertI32S", 0),
        (F32ConvertUI32, "F32ConvertI32U", 0),
        (F64ConvertSI32, "F64ConvertI32S", 0),
        (F64ConvertUI32, "F64ConvertI32U", 0),
        (F32ReinterpretI32, "F32ReinterpretI32", 0),
        (I32Extend8S, "I32Extend8S", 0),
        (I32Extend16S, "I32Extend16S", 0),
        (I64Eqz, "I64Eqz", 1),
        (I64Clz, "I64Clz", 1),
        (I64Ctz, "I64Ctz", 1),
        (I64Popcnt, "I64Popcnt", 1),
        (I32WrapI64, "I32WrapI64", 1),
        (F32ConvertSI64, "F32ConvertI64S", 1),
        (F32ConvertUI64, "F32ConvertI64U", 1),
        (F64ConvertSI64, "F64ConvertI64S", 1),
        (F64ConvertUI64, "F64ConvertI64U", 1),
        (F64ReinterpretI64, "F64ReinterpretI64", 1),
        (I64Extend8S, "I64Extend8S", 1),
        (I64Extend16S, "I64Extend16S", 1),
        (I64Extend32S, "I64Extend32S", 1),
        (F32Abs, "F32Abs", 2),
        (F32Neg, "F32Neg", 2),
        (F32Ceil, "F32Ceil", 2),
        (F32Floor, "F32Floor", 2),
        (F32Trunc, "F32Trunc", 2),
        (F32Nearest, "F32Nearest", 2),
        (F32Sqrt, "F32Sqrt", 2),
        (I32TruncSF32, "I32TruncF32S", 2),
        (I32TruncUF32, "I32TruncF32U", 2),
        (I64TruncSF32, "I64TruncF32S", 2),
        (I64TruncUF32, "I64TruncF32U", 2),
        (F64PromoteF32, "F64PromoteF32", 2),
        (I32ReinterpretF32, "I32ReinterpretF32", 2),
        (I32TruncSSatF32, "I32TruncSatF32S", 2),
        (I32TruncUSatF32, "I32TruncSatF32U", 2),
        (I64TruncSSatF32, "I64TruncSatF32S", 2),
        (I64TruncUSatF32, "I64TruncSatF32U", 2),
    ]
}

#[derive(Clone, Debug)]
enum Leaf {
    I32Const(i32),
    Drop,
    LocalGet(usize),
    LocalSet(usize),
    LocalTee(usize),
    I32Add,
    I32Eqz,
    /// entry of `UNOPS`
    Unop(usize),
    /// `select (result i64)`
    SelectI64,
    V128Const(u128),
    /// load from memory `.0` (of three), shape `.1`: 0 = i32.load8_u with
    /// all-zero immediates, 1 = i32.load align 4 offset 16, 2 = i32.load16_s
    /// align 1 offset 0
    Load(usize, u8),
    I64Const(i64),
    F32Const(u32),
    /// target = number of enclosing model sequences to skip (0 = innermost)
    Br(usize),
    BrIf(usize),
    BrTable(Vec<usize>, usize),
    Return,
    Unreachable,
}

#[derive(Clone, Debug)]
enum Node {
    Leaf(Leaf),
    Block(Vec<Node>, bool), // bool: result i32
    Loop(Vec<Node>),
    IfElse(Vec<Node>, Vec<Node>, bool),
    /// block (kind 0) or loop (kind 1) with `p` i32 parameters and `r` i32
    /// results: a multi-value sequence type made with `InstrSeqType::new`
    Typed { kind: u8, body: Vec<Node>, p: usize, r: usize },
}

struct Gen<'a, 'b> {
    ch: &'a mut Ch<'b>,
    i64_locals: Vec<usize>,
    f32_locals: Vec<usize>,
    /// i32 locals usable by statements (indices into the model's local list)
    i32_locals: Vec<usize>,
    budget: usize,
    nontrivial_br: bool,
    max_depth: usize,
    typed: usize,
    /// the function has results: no bare `return`
    has_results: bool,
}

impl<'a, 'b> Gen<'a, 'b> {
    /// a list of stack-neutral statements; `depth` = number of enclosing
    /// sequences (1 = function body)
    fn stmts(&mut self, depth: usize, out: &mut Vec<Node>) {
        self.max_depth = self.max_depth.max(depth);
        let n = self.ch.below(6);
        for _ in 0..n {
            if self.budget == 0 || self.ch.exhausted() {
                return;
            }
            self.budget -= 1;
            let l = |g: &mut Self| -> usize { *g.ch.pick(&g.i32_locals) };
            match self.ch.below(19) {
                18 if self.ch.chance(1, 3) => {
                    if self.ch.bool() {
                        out.push(Node::Leaf(Leaf::I64Const(self.ch.u64() as i64)));
                        out.push(Node::Leaf(Leaf::I64Const(self.ch.u64() as i64)));
                        out.push(Node::Leaf(Leaf::I32Const(*self.ch.pick(crate::ch::I32_POOL))));
                        out.push(Node::Leaf(Leaf::SelectI64));
                    } else {
                        // every lane pattern, the sign bit included
                        let v = ((self.ch.u64() as u128) << 64) | self.ch.u64() as u128;
                        let v = if self.ch.bool() { v | 1 << 127 } else { v };
                        out.push(Node::Leaf(Leaf::V128Const(v)));
                    }
                    out.push(Node::Leaf(Leaf::Drop));
                }
                17 if self.ch.chance(1, 2) => {
                    let (m, shape) = (self.ch.below(3), self.ch.below(3) as u8);
                    out.push(Node::Leaf(Leaf::I32Const(*self.ch.pick(crate::ch::I32_POOL))));
                    out.push(Node::Leaf(Leaf::Load(m, shape)));
                    out.push(Node::Leaf(Leaf::Drop));
                }
                17 | 18 => {
                    // operator zoo: constant, one scalar unary operator, drop
                    let k = self.ch.below(unops().len());
                    out.push(Node::Leaf(match unops()[k].2 {
                        0 => Leaf::I32Const(*self.ch.pick(crate::ch::I32_POOL)),
                        1 => Leaf::I64Const(self.ch.u64() as i64),
                        _ => Leaf::F32Const(self.ch.u32()),
                    }));
                    out.push(Node::Leaf(Leaf::Unop(k)));
                    out.push(Node::Leaf(Leaf::Drop));
                }
                0 | 1 => {
                    let k = *self.ch.pick(crate::ch::I32_POOL);
                    out.push(Node::Leaf(Leaf::I32Const(k)));
                    out.push(Node::Leaf(Leaf::Drop));
                }
                2 => {
                    let (a, b) = (l(self), l(self));
                    out.push(Node::Leaf(Leaf::LocalGet(a)));
                    out.push(Node::Leaf(Leaf::LocalSet(b)));
                }
                3 => {
                    let (a, b) = (l(self), l(self));
                    let k = self.ch.below(100) as i32;
                    out.push(Node::Leaf(Leaf::LocalGet(a)));
                    out.push(Node::Leaf(Leaf::I32Const(k)));
                    out.push(Node::Leaf(Leaf::I32Add));
                    out.push(Node::Leaf(Leaf::LocalTee(b)));
                    out.push(Node::Leaf(Leaf::Drop));
                }
                4 | 5 if depth < 6 => {
                    let res = self.ch.chance(1, 3);
                    let mut body = Vec::new();
                    self.stmts(depth + 1, &mut body);
                    if res {
                        body.push(Node::Leaf(Leaf::I32Const(depth as i32)));
                    }
                    out.push(Node::Block(body, res));
                    if res {
                        out.push(Node::Leaf(Leaf::Drop));
                    }
                }
                6 if depth < 6 => {
                    let mut body = Vec::new();
                    self.stmts(depth + 1, &mut body);
                    out.push(Node::Loop(body));
                }
                7 | 8 if depth < 6 => {
                    let res = self.ch.chance(1, 3);
                    let a = l(self);
                    out.push(Node::Leaf(Leaf::LocalGet(a)));
                    if self.ch.bool() {
                        out.push(Node::Leaf(Leaf::I32Eqz));
                    }
                    let mut c = Vec::new();
                    let mut e = Vec::new();
                    self.stmts(depth + 1, &mut c);
                    self.stmts(depth + 1, &mut e);
                    if res {
                        c.push(Node::Leaf(Leaf::I32Const(1)));
                        e.push(Node::Leaf(Leaf::I32Const(2)));
                    }
                    out.push(Node::IfElse(c, e, res));
                    if res {
                        out.push(Node::Leaf(Leaf::Drop));
                    }
                }
                9 => {
                    // br to an enclosing construct whose label takes no values
                    let t = self.ch.below(depth);
                    if t > 0 {
                        self.nontrivial_br = true;
                    }
                    out.push(Node::Leaf(Leaf::Br(t)));
                }
                10 => {
                    let t = self.ch.below(depth);
                    if t > 0 {
                        self.nontrivial_br = true;
                    }
                    let a = l(self);
                    out.push(Node::Leaf(Leaf::LocalGet(a)));
                    out.push(Node::Leaf(Leaf::BrIf(t)));
                }
                11 => {
                    let a = l(self);
                    let n = self.ch.below(4);
                    let ts: Vec<usize> = (0..n).map(|_| self.ch.below(depth)).collect();
                    let d = self.ch.below(depth);
                    if d > 0 || ts.iter().any(|t| *t > 0) {
                        self.nontrivial_br = true;
                    }
                    out.push(Node::Leaf(Leaf::LocalGet(a)));
                    out.push(Node::Leaf(Leaf::BrTable(ts, d)));
                }
                14 | 15 if depth < 6 => {
                    let kind = if self.ch.chance(1, 4) { 1u8 } else { 0u8 };
                    let (p, r) = *self.ch.pick(&[(1usize, 1usize), (1, 0), (2, 1), (2, 2), (1, 2), (0, 2)]);
                    for _ in 0..p {
                        if self.ch.bool() {
                            let a = l(self);
                            out.push(Node::Leaf(Leaf::LocalGet(a)));
                        } else {
                            let k = *self.ch.pick(crate::ch::I32_POOL);
                            out.push(Node::Leaf(Leaf::I32Const(k)));
                        }
                    }
                    let mut body = Vec::new();
                    self.stmts(depth + 1, &mut body);
                    // from p values on the stack to r values
                    let mut have = p;
                    if p == 1 && r == 1 {
                        body.push(Node::Leaf(Leaf::I32Const(depth as i32)));
                        body.push(Node::Leaf(Leaf::I32Add));
                    }
                    while have > r {
                        if have >= 2 && self.ch.bool() {
                            body.push(Node::Leaf(Leaf::I32Add));
                        } else {
                            body.push(Node::Leaf(Leaf::Drop));
                        }
                        have -= 1;
                    }
                    while have < r {
                        body.push(Node::Leaf(Leaf::I32Const(7 + have as i32)));
                        have += 1;
                    }
                    self.typed += 1;
                    out.push(Node::Typed { kind, body, p, r });
                    for _ in 0..r {
                        out.push(Node::Leaf(Leaf::Drop));
                    }
                }
                12 => out.push(Node::Leaf(if self.ch.bool() && !self.has_results { Leaf::Return } else { Leaf::Unreachable })),
                13 => {
                    // locals of other types: copy or initialise
                    let pool = if self.ch.bool() { self.i64_locals.clone() } else { self.f32_locals.clone() };
                    if pool.is_empty() {
                        continue;
                    }
                    let is64 = self.i64_locals.contains(&pool[0]);
                    let a = *self.ch.pick(&pool);
                    let b = *self.ch.pick(&pool);
                    if self.ch.bool() {
                        out.push(Node::Leaf(Leaf::LocalGet(a)));
                    } else if is64 {
                        out.push(Node::Leaf(Leaf::I64Const(self.ch.u64() as i64)));
                    } else {
                        out.push(Node::Leaf(Leaf::F32Const(self.ch.u32())));
                    }
                    out.push(Node::Leaf(Leaf::LocalSet(b)));
                }
                _ => {
                    let k = self.ch.u32() as i32;
                    let a = l(self);
                    out.push(Node::Leaf(Leaf::I32Const(k)));
                    out.push(Node::Leaf(Leaf::LocalSet(a)));
                }
            }
        }
    }
}

/// The expected operator, in a form comparable with the decoder's `Op`.
#[derive(Clone, Debug, PartialEq)]
pub enum Exp {
    Op(&'static str),
    Const(i32),
    Const64(i64),
    ConstF32(u32),
    Local(&'static str, usize),
    Br(&'static str, u32),
    BrTable(Vec<u32>, u32),
    Open(&'static str, bool),
    /// construct with a function-typed block type: (name, params, results)
    OpenSig(&'static str, usize, usize),
    /// memory access: (name, log2 of the alignment, offset, memory index)
    Mem(&'static str, u8, u64, u32),
    ConstV128(u128),
}

/// `targets_result`: for every enclosing sequence (innermost last) whether a
/// branch to it carries a value. Branches are only generated to labels with
/// no values; sequences with a result are branch targets only when they are
/// loops (label = params = none). To keep it simple the generator may pick a
/// block-with-result as target; those picks are redirected to the function.
fn flatten(nodes: &[Node], stack: &mut Vec<bool>, out: &mut Vec<Exp>, base: usize) {
    // stack[i] = "label of enclosing sequence i takes a value" (outermost first)
    for n in nodes {
        match n {
            Node::Leaf(l) => match l {
                Leaf::I32Const(k) => out.push(Exp::Const(*k)),
                Leaf::Drop => out.push(Exp::Op("Drop")),
                Leaf::LocalGet(a) => out.push(Exp::Local("LocalGet", *a)),
                Leaf::LocalSet(a) => out.push(Exp::Local("LocalSet", *a)),
                Leaf::LocalTee(a) => out.push(Exp::Local("LocalTee", *a)),
                Leaf::I32Add => out.push(Exp::Op("I32Add")),
                Leaf::I32Eqz => out.push(Exp::Op("I32Eqz")),
                Leaf::Unop(k) => out.push(Exp::Op(unops()[*k].1)),
                Leaf::SelectI64 => out.push(Exp::Op("TypedSelect")),
                Leaf::V128Const(v) => out.push(Exp::ConstV128(*v)),
                Leaf::Load(m, shape) => out.push(match shape {
                    0 => Exp::Mem("I32Load8U", 0, 0, *m as u32),
                    1 => Exp::Mem("I32Load", 2, 16, *m as u32),
                    _ => Exp::Mem("I32Load16S", 0, 0, *m as u32),
                }),
                Leaf::I64Const(k) => out.push(Exp::Const64(*k)),
                Leaf::F32Const(k) => out.push(Exp::ConstF32(*k)),
                Leaf::Br(t) => out.push(Exp::Br("Br", resolve(*t, stack, base))),
                Leaf::BrIf(t) => out.push(Exp::Br("BrIf", resolve(*t, stack, base))),
                Leaf::BrTable(ts, d) => out.push(Exp::BrTable(
                    ts.iter().map(|t| resolve(*t, stack, base)).collect(),
                    resolve(*d, stack, base),
                )),
                Leaf::Return => out.push(Exp::Op("Return")),
                Leaf::Unreachable => out.push(Exp::Op("Unreachable")),
            },
            Node::Block(b, res) => {
                out.push(Exp::Open("Block", *res));
                stack.push(*res);
                flatten(b, stack, out, base);
                stack.pop();
                out.push(Exp::Op("End"));
            }
            Node::Loop(b) => {
                out.push(Exp::Open("Loop", false));
                stack.push(false);
                flatten(b, stack, out, base);
                stack.pop();
                out.push(Exp::Op("End"));
            }
            Node::Typed { kind, body, p, r } => {
                out.push(Exp::OpenSig(if *kind == 0 { "Block" } else { "Loop" }, *p, *r));
                // a branch to a block carries its results, to a loop its parameters
                stack.push(if *kind == 0 { *r > 0 } else { *p > 0 });
                flatten(body, stack, out, base);
                stack.pop();
                out.push(Exp::Op("End"));
            }
            Node::IfElse(c, e, res) => {
                out.push(Exp::Open("If", *res));
                stack.push(*res);
                flatten(c, stack, out, base);
                out.push(Exp::Op("Else"));
                flatten(e, stack, out, base);
                stack.pop();
                out.push(Exp::Op("End"));
            }
        }
    }
}

/// Relative depth actually used for a model target `t` (0 = innermost):
/// if that label takes a value, the branch goes to the function instead.
///
/// `base` = index (from the outermost) of the outermost label a branch may
/// go to: 0 = the function itself; 1 when the function has results (its label
/// takes values), in which case the whole body sits in a wrapper block.
fn resolve(t: usize, stack: &[bool], base: usize) -> u32 {
    let n = stack.len();
    let t = t.min(n - 1 - base);
    let idx = n - 1 - t;
    if stack[idx] {
        (n - 1 - base) as u32
    } else {
        t as u32
    }
}

pub struct BuiltCase {
    pub module: Module,
    pub func: FunctionId,
    pub expected: Vec<Exp>,
    pub n_params: usize,
    pub local_types: Vec<ValType>,
    pub depth: usize,
    pub nontrivial_br: bool,
    pub positional_inserts: usize,
    pub dangling: usize,
    pub closures: usize,
    pub deferred: usize,
    pub typed: usize,
    pub pooled: usize,
}

struct Plan<'a, 'b> {
    ch: &'a mut Ch<'b>,
    types: &'a mut ModuleTypes,
    /// sequences allocated before anything was built (inside-out
    /// construction: a nested sequence older than the one enclosing it)
    pool: Vec<(InstrSeqType, InstrSeqId)>,
    pooled: usize,
    /// see `resolve`
    base: usize,
    locals: Vec<LocalId>,
    mems: Vec<MemoryId>,
    positional: usize,
    dangling: usize,
    closures: usize,
    deferred_count: usize,
    /// (seq id, nodes, enclosing seq ids outermost first incl. itself, result flags)
    deferred: Vec<(InstrSeqId, Vec<Node>, Vec<InstrSeqId>, Vec<bool>)>,
}

fn seq_ty(res: bool) -> InstrSeqType {
    if res {
        InstrSeqType::Simple(Some(ValType::I32))
    } else {
        InstrSeqType::Simple(None)
    }
}

fn sig_ty(types: &mut ModuleTypes, p: usize, r: usize) -> InstrSeqType {
    let (ps, rs) = (vec![ValType::I32; p], vec![ValType::I32; r]);
    // both documented ways to obtain a sequence type: `new`, or `existing`
    // with `new` as the fallback
    if (p + r) % 2 == 0 {
        if let Some(t) = InstrSeqType::existing(types, &ps, &rs) {
            return t;
        }
    }
    InstrSeqType::new(types, &ps, &rs)
}

/// sequence types of all nested sequences of the model, children first
fn nested_types(nodes: &[Node], types: &mut ModuleTypes, out: &mut Vec<InstrSeqType>) {
    for n in nodes {
        match n {
            Node::Leaf(_) => {}
            Node::Block(b, r) => {
                nested_types(b, types, out);
                out.push(seq_ty(*r));
            }
            Node::Loop(b) => {
                nested_types(b, types, out);
                out.push(seq_ty(false));
            }
            Node::IfElse(c, e, r) => {
                nested_types(c, types, out);
                nested_types(e, types, out);
                out.push(seq_ty(*r));
                out.push(seq_ty(*r));
            }
            Node::Typed { body, p, r, .. } => {
                nested_types(body, types, out);
                out.push(sig_ty(types, *p, *r));
            }
        }
    }
}

impl<'a, 'b> Plan<'a, 'b> {
    /// the type of a construct without parameters, written directly or
    /// computed by `InstrSeqType::new`
    fn simple_ty(&mut self, r: bool) -> InstrSeqType {
        if self.ch.chance(1, 3) {
            sig_ty(self.types, 0, r as usize)
        } else {
            seq_ty(r)
        }
    }

    /// a dangling sequence of type `ty`: a pre-allocated one when the pool
    /// has a match (3 times out of 4), else a fresh one
    fn dangling_seq(&mut self, fb: &mut FunctionBuilder, ty: InstrSeqType) -> InstrSeqId {
        let matches: Vec<usize> = self.pool.iter().enumerate().filter(|(_, (t, _))| *t == ty).map(|(i, _)| i).collect();
        if !matches.is_empty() && self.ch.chance(3, 4) {
            let i = *self.ch.pick(&matches);
            self.pooled += 1;
            return self.pool.remove(i).1;
        }
        fb.dangling_instr_seq(ty).id()
    }

    fn target(&self, t: usize, ids: &[InstrSeqId], res: &[bool]) -> InstrSeqId {
        let n = ids.len();
        let t = t.min(n - 1 - self.base);
        let idx = n - 1 - t;
        if res[idx] {
            ids[self.base]
        } else {
            ids[idx]
        }
    }

    /// Build the content of sequence `me` (already created) from `nodes`.
    fn build_seq(&mut self, fb: &mut FunctionBuilder, me: InstrSeqId, nodes: &[Node], ids: &mut Vec<InstrSeqId>, res: &mut Vec<bool>) {
        // insertion order: a permutation of 0..n chosen from the stream
        let n = nodes.len();
        let mut order: Vec<usize> = (0..n).collect();
        let shuffle = self.ch.chance(2, 3);
        if shuffle {
            for i in (1..n).rev() {
                let j = self.ch.below(i + 1);
                order.swap(i, j);
            }
        }
        let mut placed: Vec<usize> = Vec::new(); // final indices already inserted
        for &k in &order {
            let pos = placed.iter().filter(|p| **p < k).count();
            let at_end = pos == placed.len();
            let use_at = !at_end || self.ch.chance(1, 4);
            if !at_end {
                self.positional += 1;
            }
            match &nodes[k] {
                Node::Leaf(l) => {
                    let mut b = fb.instr_seq(me);
                    match l {
                        Leaf::I32Const(v) => {
                            if use_at {
                                b.const_at(pos, Value::I32(*v));
                            } else if self.ch.bool() {
                                b.i32_const(*v);
                            } else {
                                b.instr(Const { value: Value::I32(*v) });
                            }
                        }
                        Leaf::Drop => {
                            if use_at && self.ch.chance(1, 3) {
                                // the sequence's instruction vector, edited directly
                                b.instrs_mut().insert(pos, (Drop {}.into(), InstrLocId::default()));
                                let _ = b.instrs().len();
                            } else if use_at {
                                b.drop_at(pos);
                            } else {
                                b.drop();
                            }
                        }
                        Leaf::LocalGet(a) => {
                            let l = self.locals[*a];
                            if use_at {
                                b.local_get_at(pos, l);
                            } else {
                                b.local_get(l);
                            }
                        }
                        Leaf::LocalSet(a) => {
                            let l = self.locals[*a];
                            if use_at {
                                b.local_set_at(pos, l);
                            } else {
                                b.local_set(l);
                            }
                        }
                        Leaf::LocalTee(a) => {
                            let l = self.locals[*a];
                            if use_at {
                                b.instr_at(pos, LocalTee { local: l });
                            } else {
                                b.local_tee(l);
                            }
                        }
                        Leaf::I32Add => {
                            if use_at {
                                b.binop_at(pos, BinaryOp::I32Add);
                            } else {
                                b.binop(BinaryOp::I32Add);
                            }
                        }
                        Leaf::I32Eqz => {
                            if use_at {
                                b.unop_at(pos, UnaryOp::I32Eqz);
                            } else {
                                b.unop(UnaryOp::I32Eqz);
                            }
                        }
                        Leaf::SelectI64 => {
                            if use_at {
                                b.instr_at(pos, Select { ty: Some(ValType::I64) });
                            } else {
                                b.select(Some(ValType::I64));
                            }
                        }
                        Leaf::V128Const(v) => {
                            if use_at {
                                b.const_at(pos, Value::V128(*v));
                            } else {
                                b.const_(Value::V128(*v));
                            }
                        }
                        Leaf::Load(m, shape) => {
                            let memory = self.mems[*m];
                            let (kind, arg) = match shape {
                                0 => (LoadKind::I32_8 { kind: ExtendedLoad::ZeroExtend }, MemArg { align: 1, offset: 0 }),
                                1 => (LoadKind::I32 { atomic: false }, MemArg { align: 4, offset: 16 }),
                                _ => (LoadKind::I32_16 { kind: ExtendedLoad::SignExtend }, MemArg { align: 1, offset: 0 }),
                            };
                            if use_at {
                                b.instr_at(pos, Load { memory, kind, arg });
                            } else {
                                b.instr(Load { memory, kind, arg });
                            }
                        }
                        Leaf::Unop(k) => {
                            if use_at {
                                b.unop_at(pos, unops()[*k].0);
                            } else {
                                b.unop(unops()[*k].0);
                            }
                        }
                        Leaf::I64Const(v) => {
                            if use_at {
                                b.const_at(pos, Value::I64(*v));
                            } else {
                                b.i64_const(*v);
                            }
                        }
                        Leaf::F32Const(v) => {
                            if use_at {
                                b.const_at(pos, Value::F32(f32::from_bits(*v)));
                            } else {
                                b.f32_const(f32::from_bits(*v));
                            }
                        }
                        Leaf::Br(t) => {
                            let block = self.target(*t, ids, res);
                            if use_at {
                                b.br_at(pos, block);
                            } else {
                                b.br(block);
                            }
                        }
                        Leaf::BrIf(t) => {
                            let block = self.target(*t, ids, res);
                            if use_at {
                                b.br_if_at(pos, block);
                            } else {
                                b.br_if(block);
                            }
                        }
                        Leaf::BrTable(ts, d) => {
                            let blocks: Vec<InstrSeqId> = ts.iter().map(|t| self.target(*t, ids, res)).collect();
                            let default = self.target(*d, ids, res);
                            if use_at {
                                b.br_table_at(pos, blocks.into(), default);
                            } else {
                                b.br_table(blocks.into(), default);
                            }
                        }
                        Leaf::Return => {
                            if use_at {
                                b.return_at(pos);
                            } else {
                                b.return_();
                            }
                        }
                        Leaf::Unreachable => {
                            if use_at {
                                b.unreachable_at(pos);
                            } else {
                                b.unreachable();
                            }
                        }
                    }
                }
                Node::Block(body, r) => {
                    let ty = self.simple_ty(*r);
                    self.nested(fb, me, pos, use_at, 0, body, &[], ty, *r, ids, res);
                }
                Node::Loop(body) => {
                    let ty = self.simple_ty(false);
                    self.nested(fb, me, pos, use_at, 1, body, &[], ty, false, ids, res);
                }
                Node::IfElse(c, e, r) => {
                    let ty = self.simple_ty(*r);
                    self.nested(fb, me, pos, use_at, 2, c, e, ty, *r, ids, res);
                }
                Node::Typed { kind, body, p, r } => {
                    let ty = sig_ty(self.types, *p, *r);
                    let label_takes_values = if *kind == 0 { *r > 0 } else { *p > 0 };
                    self.nested(fb, me, pos, use_at, *kind, body, &[], ty, label_takes_values, ids, res);
                }
            }
            placed.push(k);
        }
    }

    #[allow(clippy::too_many_arguments)]
    fn nested(
        &mut self,
        fb: &mut FunctionBuilder,
        me: InstrSeqId,
        pos: usize,
        use_at: bool,
        kind: u8,
        a: &[Node],
        b: &[Node],
        ty: InstrSeqType,
        r: bool,
        ids: &mut Vec<InstrSeqId>,
        res: &mut Vec<bool>,
    ) {
        let style = self.ch.below(3); // 0 closure, 1 dangling filled now, 2 dangling filled at the end
        if style == 0 {
            self.closures += 1;
            // closure-nested construction; the plan recursion happens inside
            // the closure through the inner builder's FunctionBuilder deref
            let this: *mut Plan = self;
            let ids_p: *mut Vec<InstrSeqId> = ids;
            let res_p: *mut Vec<bool> = res;
            let mut sb = fb.instr_seq(me);
            // SAFETY: the closures run synchronously inside the call below and
            // nothing else touches `self`, `ids`, `res` meanwhile.
            let mk = |nodes: &[Node]| {
                let nodes = nodes.to_vec();
                move |inner: &mut InstrSeqBuilder| unsafe {
                    let id = inner.id();
                    (*ids_p).push(id);
                    (*res_p).push(r);
                    (*this).build_seq(&mut **inner, id, &nodes, &mut *ids_p, &mut *res_p);
                    (*ids_p).pop();
                    (*res_p).pop();
                }
            };
            match (kind, use_at) {
                (0, false) => {
                    sb.block(ty, mk(a));
                }
                (0, true) => {
                    sb.block_at(pos, ty, mk(a));
                }
                (1, false) => {
                    sb.loop_(ty, mk(a));
                }
                (1, true) => {
                    sb.loop_at(pos, ty, mk(a));
                }
                (_, false) => {
                    sb.if_else(ty, mk(a), mk(b));
                }
                (_, true) => {
                    sb.if_else_at(pos, ty, mk(a), mk(b));
                }
            }
        } else {
            self.dangling += 1;
            let sa = self.dangling_seq(fb, ty);
            let sb_id = if kind == 2 { Some(self.dangling_seq(fb, ty)) } else { None };
            // attach before or after filling, by choice
            let attach_first = self.ch.bool();
            let attach = |fb: &mut FunctionBuilder| {
                let mut p = fb.instr_seq(me);
                let instr: Instr = match kind {
                    0 => Block { seq: sa }.into(),
                    1 => Loop { seq: sa }.into(),
                    _ => IfElse {
                        consequent: sa,
                        alternative: sb_id.unwrap(),
                    }
                    .into(),
                };
                if use_at {
                    p.instr_at(pos, instr);
                } else {
                    p.instr(instr);
                }
            };
            if attach_first {
                attach(fb);
            }
            for (sid, nodes) in [(Some(sa), a), (sb_id, b)] {
                let sid = match sid {
                    Some(s) => s,
                    None => continue,
                };
                ids.push(sid);
                res.push(r);
                if style == 2 {
                    self.deferred_count += 1;
                    self.deferred.push((sid, nodes.to_vec(), ids.clone(), res.clone()));
                } else {
                    self.build_seq(fb, sid, nodes, ids, res);
                }
                ids.pop();
                res.pop();
            }
            if !attach_first {
                attach(fb);
            }
        }
    }
}

pub fn build_case(bytes: &[u8]) -> BuiltCase {
    let mut ch = Ch::new(bytes);
    // model
    let n_params = ch.below(4);
    let param_tys: Vec<ValType> = (0..n_params)
        .map(|_| *ch.pick(&[ValType::I32, ValType::I64, ValType::F32]))
        .collect();
    let n_extra = 1 + ch.below(4);
    let mut local_types: Vec<ValType> = param_tys.clone();
    for _ in 0..n_extra {
        local_types.push(*ch.pick(&[ValType::I32, ValType::I64, ValType::I32, ValType::F32, ValType::I64]));
    }
    // guarantee an i32 local
    local_types.push(ValType::I32);
    let i32_locals: Vec<usize> = local_types
        .iter()
        .enumerate()
        .filter(|(_, t)| **t == ValType::I32)
        .map(|(i, _)| i)
        .collect();
    let of = |t: ValType| -> Vec<usize> {
        local_types
            .iter()
            .enumerate()
            .filter(|(_, x)| **x == t)
            .map(|(i, _)| i)
            .collect()
    };
    let (i64_locals, f32_locals) = (of(ValType::I64), of(ValType::F32));
    // a third of the functions have one or two i32 results: the body then
    // sits in a wrapper block (the outermost label branches may go to) and
    // is followed by the result constants
    let n_results = if ch.chance(1, 3) { 1 + ch.below(2) } else { 0 };
    let base = if n_results > 0 { 1 } else { 0 };
    let mut g = Gen {
        ch: &mut ch,
        i64_locals,
        f32_locals,
        i32_locals,
        budget: 80,
        nontrivial_br: false,
        max_depth: 1,
        typed: 0,
        has_results: n_results > 0,
    };
    let mut body = Vec::new();
    g.stmts(1 + base, &mut body);
    if n_results > 0 {
        let mut wrapped = vec![Node::Block(body, false)];
        for k in 0..n_results {
            wrapped.push(Node::Leaf(Leaf::I32Const(100 + k as i32)));
        }
        body = wrapped;
    }
    let (depth, nontrivial_br, typed) = (g.max_depth, g.nontrivial_br, g.typed);
    let mut expected = Vec::new();
    flatten(&body, &mut vec![false], &mut expected, base);
    expected.push(Exp::Op("End"));

    // construction
    let mut module = Module::default();
    // three memories for the loads of the operator zoo
    let mems: Vec<MemoryId> = (0..3).map(|i| module.memories.add_local(false, false, 1 + i, None, None)).collect();
    // the module-wide local arena is filled in a generated order: a
    // parameter need not be older than the other locals of its function
    let mut alloc_order: Vec<usize> = (0..local_types.len()).collect();
    if ch.bool() {
        for i in (1..alloc_order.len()).rev() {
            let j = ch.below(i + 1);
            alloc_order.swap(i, j);
        }
    }
    let mut locals: Vec<Option<LocalId>> = vec![None; local_types.len()];
    for k in alloc_order {
        locals[k] = Some(module.locals.add(local_types[k]));
    }
    let locals: Vec<LocalId> = locals.into_iter().map(|l| l.unwrap()).collect();
    let args: Vec<LocalId> = locals[..n_params].to_vec();
    let mut fb = FunctionBuilder::new(&mut module.types, &param_tys, &vec![ValType::I32; n_results]);
    let entry = fb.func_body_id();
    // inside-out construction: some nested sequences exist before the
    // sequences that will enclose them
    let mut pool = Vec::new();
    if ch.chance(1, 2) {
        let mut tys = Vec::new();
        nested_types(&body, &mut module.types, &mut tys);
        for ty in tys {
            if ch.chance(1, 2) {
                pool.push((ty, fb.dangling_instr_seq(ty).id()));
            }
        }
    }
    let mut plan = Plan {
        ch: &mut ch,
        types: &mut module.types,
        pool,
        pooled: 0,
        base,
        locals,
        mems,
        positional: 0,
        dangling: 0,
        closures: 0,
        deferred_count: 0,
        deferred: vec![],
    };
    let mut ids = vec![entry];
    let mut res = vec![false];
    plan.build_seq(&mut fb, entry, &body, &mut ids, &mut res);
    while let Some((sid, nodes, mut ids, mut res)) = plan.deferred.pop() {
        plan.build_seq(&mut fb, sid, &nodes, &mut ids, &mut res);
    }
    let (positional_inserts, dangling, closures, deferred, pooled) = (plan.positional, plan.dangling, plan.closures, plan.deferred_count, plan.pooled);
    let func = fb.finish(args, &mut module.funcs);
    module.exports.add("f", func);
    BuiltCase {
        module,
        func,
        expected,
        n_params,
        local_types,
        depth,
        nontrivial_br,
        positional_inserts,
        dangling,
        closures,
        deferred,
        typed,
        pooled,
    }
}

fn vt_of(t: ValType) -> VT {
    match t {
        ValType::I32 => VT::I32,
        ValType::I64 => VT::I64,
        ValType::F32 => VT::F32,
        ValType::F64 => VT::F64,
        ValType::V128 => VT::V128,
        ValType::Ref(RefType::Funcref) => VT::FuncRef,
        ValType::Ref(_) => VT::ExternRef,
    }
}

pub fn check(_ctx: &Ctx, input: &Input) -> CaseResult {
    let mut out = CaseOut::default();
    let bytes = match input {
        Input::Choices { bytes, .. } => bytes,
        _ => return Ok(out),
    };
    out.hash = fnv(bytes);
    let mut case = guard("builder", || build_case(bytes)).map_err(|f| {
        Failure::new(f.signature.clone(), format!("{} while building through the builder API", f.detail))
    })?;
    let wasm = wal::emit(&mut case.module)?;
    if let Err(e) = validate_walrus(&wasm) {
        return Err(Failure::new(
            format!("invalid-output:{}", super::c02::normalise_msg(&e)),
            format!("builder-made function does not validate: {}", e),
        ));
    }
    let d = decode(&wasm).map_err(|e| Failure::new("undecodable-output", e.to_string()))?;
    if d.funcs.len() != 1 {
        return Err(Failure::new("function-count", format!("{} functions emitted", d.funcs.len())));
    }
    let mut f = d.funcs[0].clone();
    // an emitter is free to leave out the `else` of an empty alternative:
    // give every `if` an explicit `else` before comparing with the model
    {
        let mut out: Vec<crate::ops::Op> = Vec::with_capacity(f.ops.len());
        let mut stack: Vec<(bool, bool)> = Vec::new(); // (is_if, saw_else)
        for o in f.ops.iter() {
            match o.name {
                "Block" | "Loop" => stack.push((false, false)),
                "If" => stack.push((true, false)),
                "Else" => {
                    if let Some(t) = stack.last_mut() {
                        t.1 = true;
                    }
                }
                "End" => {
                    if let Some((true, false)) = stack.pop() {
                        let mut e = o.clone();
                        e.name = "Else";
                        out.push(e);
                    }
                }
                _ => {}
            }
            out.push(o.clone());
        }
        f.ops = out;
    }
    let f = &f;
    let np = case.n_params as u32;
    let mut lmap: HashMap<usize, u32> = HashMap::new();
    let mut lrev: HashMap<u32, usize> = HashMap::new();
    if f.ops.len() != case.expected.len() {
        let i = f
            .ops
            .iter()
            .zip(case.expected.iter())
            .position(|(o, e)| !same_shape(o, e))
            .unwrap_or(f.ops.len().min(case.expected.len()));
        return Err(Failure::new(
            "flattening-length",
            format!(
                "emitted {} operators, model flattening has {}; first difference at #{}: emitted {:?} vs model {:?}",
                f.ops.len(),
                case.expected.len(),
                i,
                f.ops.get(i).map(|o| o.short()),
                case.expected.get(i)
            ),
        ));
    }
    for (i, (o, e)) in f.ops.iter().zip(case.expected.iter()).enumerate() {
        let bad = |what: &str| {
            Failure::new(
                format!("flattening:{}", what),
                format!("operator #{}: emitted {} vs model {:?}", i, o.short(), e),
            )
        };
        match e {
            Exp::Op(n) => {
                if o.name != *n {
                    return Err(bad("operator"));
                }
            }
            Exp::Const(k) => {
                if o.name != "I32Const" || o.imms != vec![Imm::I32(*k)] {
                    return Err(bad("constant"));
                }
            }
            Exp::ConstV128(v) => {
                if o.name != "V128Const" || o.imms != vec![Imm::V128(v.to_le_bytes())] {
                    return Err(bad("constant"));
                }
            }
            Exp::Mem(n, align, offset, memory) => {
                if o.name != *n {
                    return Err(bad("operator"));
                }
                if o.imms != vec![Imm::MemArg { align: *align, offset: *offset, memory: *memory }] {
                    return Err(bad("memory-immediates"));
                }
            }
            Exp::Const64(k) => {
                if o.name != "I64Const" || o.imms != vec![Imm::I64(*k)] {
                    return Err(bad("constant"));
                }
            }
            Exp::ConstF32(k) => {
                if o.name != "F32Const" || o.imms != vec![Imm::F32(*k)] {
                    return Err(bad("constant"));
                }
            }
            Exp::Local(n, a) => {
                if o.name != *n {
                    return Err(bad("operator"));
                }
                let got = match o.imms.first() {
                    Some(Imm::Local(l)) => *l,
                    _ => return Err(bad("operand")),
                };
                if *a < case.n_params {
                    if got != *a as u32 {
                        return Err(bad("parameter-position"));
                    }
                } else {
                    if got < np {
                        return Err(bad("local-aliases-parameter"));
                    }
                    let ok = match (lmap.get(a), lrev.get(&got)) {
                        (None, None) => {
                            lmap.insert(*a, got);
                            lrev.insert(got, *a);
                            true
                        }
                        (Some(x), Some(y)) => *x == got && *y == *a,
                        _ => false,
                    };
                    if !ok {
                        return Err(bad("local-slot-not-injective"));
                    }
                    let ty = f.locals.get((got - np) as usize).copied();
                    if ty != Some(vt_of(case.local_types[*a])) {
                        return Err(bad("local-slot-type"));
                    }
                }
            }
            Exp::Br(n, dpt) => {
                if o.name != *n {
                    return Err(bad("operator"));
                }
                if o.imms != vec![Imm::Label(*dpt)] {
                    return Err(bad("branch-depth"));
                }
            }
            Exp::BrTable(ts, dflt) => {
                if o.name != "BrTable" {
                    return Err(bad("operator"));
                }
                if o.imms != vec![Imm::BrTable(ts.clone(), *dflt)] {
                    return Err(bad("branch-depth"));
                }
            }
            Exp::OpenSig(n, p, r) => {
                if o.name != *n {
                    return Err(bad("operator"));
                }
                let sig = match o.imms.first() {
                    Some(Imm::Block(BlockTy::Func(i))) => d.types.get(*i as usize),
                    _ => None,
                };
                let ok = sig
                    .map(|s| s.params == vec![VT::I32; *p] && s.results == vec![VT::I32; *r])
                    .unwrap_or(false);
                if !ok {
                    return Err(Failure::new(
                        "flattening:block-type",
                        format!("operator #{}: emitted {} (type {:?}) vs model {:?}", i, o.short(), sig, e),
                    ));
                }
            }
            Exp::Open(n, r) => {
                if o.name != *n {
                    return Err(bad("operator"));
                }
                let want = if *r { BlockTy::Val(VT::I32) } else { BlockTy::Empty };
                if o.imms != vec![Imm::Block(want)] {
                    return Err(bad("block-type"));
                }
            }
        }
    }
    out.nontrivial = case.depth >= 2 && case.nontrivial_br && case.positional_inserts > 0 && case.dangling > 0;
    if case.depth >= 2 {
        out.label("depth>=2");
    }
    if case.nontrivial_br {
        out.label("branch-to-non-innermost-label");
    }
    if case.positional_inserts > 0 {
        out.label("positional-insert");
    }
    if case.dangling > 0 {
        out.label("dangling-sequence");
    }
    if case.closures > 0 {
        out.label("closure-nested");
    }
    if case.deferred > 0 {
        out.label("dangling-filled-at-the-end");
    }
    if case.typed > 0 {
        out.label("multi-value-sequence-type");
    }
    if case.pooled > 0 {
        out.label("inside-out:nested-sequence-older-than-its-parent");
    }
    if out.nontrivial && out.hash % 64 == 0 {
        out.sample = Some(json!({"operators": case.expected.len(), "depth": case.depth, "positional_inserts": case.positional_inserts,
            "dangling": case.dangling, "closures": case.closures, "deferred_fills": case.deferred,
            "head": case.expected.iter().take(12).map(|e| format!("{:?}", e)).collect::<Vec<_>>()}));
    }
    Ok(out)
}

fn same_shape(o: &crate::ops::Op, e: &Exp) -> bool {
    match e {
        Exp::Op(n) | Exp::Local(n, _) | Exp::Br(n, _) | Exp::Open(n, _) | Exp::OpenSig(n, _, _) | Exp::Mem(n, _, _, _) => o.name == *n,
        Exp::Const(_) => o.name == "I32Const",
        Exp::Const64(_) => o.name == "I64Const",
        Exp::ConstF32(_) => o.name == "F32Const",
        Exp::ConstV128(_) => o.name == "V128Const",
        Exp::BrTable(..) => o.name == "BrTable",
    }
}

fn run(ctx: &Ctx) {
    let plans = [GenPlan {
        gen: "builder",
        cases: ctx.tier.pick(400_000, 4_000_000),
        min_len: 0,
        max_len: ctx.tier.pick(600, 2500),
    }];
    standard_run(ctx, check, &plans, false);
}
