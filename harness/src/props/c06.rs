//! C06 — the GC pass never changes behaviour or breaks the module.

use super::*;

pub fn def() -> PropDef {
    PropDef {
        id: "C06",
        run,
        check,
        meta,
    }
}

fn meta(_ctx: &Ctx) -> EvidenceMeta {
    EvidenceMeta {
        rule: "exec-profile generated modules with deliberate garbage (unreferenced entities of every kind next to entities reachable only through one edge: element items of both reference types, data offsets, table.copy operands, block types, ...), fixtures, real corpus; call scripts as in C01. non-trivial = GC removed at least one entity and a call completed that returned a value or changed visible state; distinct by (module bytes, script). Oracle: parse>gc>emit does not panic, validates under walrus's feature set, keeps the export list (names, kinds, order) and behaves identically on the reference interpreter (results, traps, host-call trace, state of imported/exported memories, globals, tables). Cases whose original instantiation fails are skipped (the tolerated difference lives entirely there).".into(),
        assumptions: vec!["as C01".into()],
        level: "exploration",
        exhaustive: false,
    }
}

/// A custom section that roots one function and, when the module has them,
/// one memory, one table and one global (DESIGN: custom-section roots).
#[derive(Debug)]
struct RootSection {
    func: walrus::FunctionId,
    mem: Option<walrus::MemoryId>,
    table: Option<walrus::TableId>,
    global: Option<walrus::GlobalId>,
    seen_index: std::sync::Arc<std::sync::Mutex<Option<u32>>>,
    /// output indices of the rooted memory, table and global
    seen_others: std::sync::Arc<std::sync::Mutex<[Option<u32>; 3]>>,
}
impl walrus::CustomSection for RootSection {
    fn name(&self) -> &str {
        "verif-root"
    }
    fn data(&self, ids: &walrus::IdsToIndices) -> std::borrow::Cow<[u8]> {
        *self.seen_index.lock().unwrap() = Some(ids.get_func_index(self.func));
        *self.seen_others.lock().unwrap() = [
            self.mem.map(|m| ids.get_memory_index(m)),
            self.table.map(|t| ids.get_table_index(t)),
            self.global.map(|g| ids.get_global_index(g)),
        ];
        std::borrow::Cow::Borrowed(&[])
    }
    fn add_gc_roots(&self, roots: &mut walrus::passes::Roots) {
        roots.push_func(self.func);
        if let Some(m) = self.mem {
            roots.push_memory(m);
        }
        if let Some(t) = self.table {
            roots.push_table(t);
        }
        if let Some(g) = self.global {
            roots.push_global(g);
        }
    }
}

/// GC with one function kept alive only by a custom-section root: it and
/// everything it refers to must survive, unchanged.
fn rooted_mode(ctx: &Ctx, input: &Input, out: &mut CaseOut) -> Result<(), Failure> {
    use crate::decode::decode;
    let (bytes, origin, pick) = match input {
        Input::Choices { gen, bytes } => {
            let pick = bytes.get(63).copied().unwrap_or(0) as usize;
            let rest: Vec<u8> = bytes.iter().skip(64).copied().collect();
            let p = prepare(&Input::Choices { gen: gen.clone(), bytes: rest }).unwrap();
            (p.bytes, p.origin, pick)
        }
        Input::Wasm { origin, bytes } => (bytes.clone(), origin.clone(), fnv(bytes) as usize),
        _ => return Ok(()),
    };
    if crate::optable::validate_walrus(&bytes).is_err() {
        return Ok(());
    }
    let da = match decode(&bytes) {
        Ok(d) => d,
        Err(_) => return Ok(()),
    };
    if da.funcs.is_empty() {
        return Ok(());
    }
    let target = da.imp_funcs.len() as u32 + (pick % da.funcs.len()) as u32;
    let seen = std::sync::Arc::new(std::sync::Mutex::new(None));
    let seen2 = seen.clone();
    let mut cfg = crate::wal::Cfg::plain().to_config();
    // every second case also roots one memory, table and global through the
    // section (imported or not); nothing else may refer to them
    let (n_m, n_t, n_g) = (da.n_mems(), da.n_tables(), da.n_globals());
    let root_others = pick & 0x80 != 0;
    let tm = if root_others && n_m > 0 { Some((pick as u32 / 3) % n_m) } else { None };
    let tt = if root_others && n_t > 0 { Some((pick as u32 / 5) % n_t) } else { None };
    let tg = if root_others && n_g > 0 { Some((pick as u32 / 7) % n_g) } else { None };
    let seen_others = std::sync::Arc::new(std::sync::Mutex::new([None; 3]));
    let seen_others2 = seen_others.clone();
    cfg.on_parse(move |m, ids| {
        let f = ids.get_func(target)?;
        let mem = match tm {
            Some(i) => Some(ids.get_memory(i)?),
            None => None,
        };
        let table = match tt {
            Some(i) => Some(ids.get_table(i)?),
            None => None,
        };
        let global = match tg {
            Some(i) => Some(ids.get_global(i)?),
            None => None,
        };
        m.customs.add(RootSection { func: f, mem, table, global, seen_index: seen2.clone(), seen_others: seen_others2.clone() });
        Ok(())
    });
    let mut m = match crate::wal::parse(&bytes, &cfg) {
        Ok(Ok(m)) => m,
        _ => return Ok(()),
    };
    crate::wal::gc(&mut m).map_err(|f| Failure::new(format!("custom-root:{}", f.signature), format!("{} [{}]", f.detail, origin)))?;
    let emitted = crate::wal::emit(&mut m).map_err(|f| {
        let what = if f.detail.contains("get_") && f.detail.contains("_index") { "referenced-entity-collected" } else { "emit-panic" };
        Failure::new(
            format!("custom-root:{}", what),
            format!("function {} is rooted by a custom section; gc+emit panicked: {} [{}]", target, f.detail, origin),
        )
    })?;
    if let Err(e) = crate::optable::validate_walrus(&emitted) {
        if e.contains("undeclared function reference") && super::c01::passive_only_declaration(&bytes) {
            // the recorded finding, reached through this mode
            return ctx.known_or(
                out,
                Failure::new(
                    "gc-output-invalid:undeclared function reference:only-declaration-was-an-element-segment-the-pass-removes",
                    format!("function {} rooted by a custom section; output invalid: {} [{}]", target, e, origin),
                ),
            );
        }
        return Err(Failure::new(
            format!("custom-root:invalid-output:{}", super::c02::normalise_msg(&e)),
            format!("function {} rooted by a custom section; output invalid: {} [{}]", target, e, origin),
        ));
    }
    let idx = match *seen.lock().unwrap() {
        Some(i) => i,
        None => return Err(Failure::new("custom-root:section-not-serialised", origin)),
    };
    // the rooted function must be in the output, unchanged, at that index
    let db = match decode(&emitted) {
        Ok(d) => d,
        Err(_) => return Ok(()),
    };
    // the other rooted entities must be in the output, with their types, at
    // the indices the section was given
    let so = *seen_others.lock().unwrap();
    if let (Some(i), Some(j)) = (tm, so[0]) {
        if da.mem_ty(i) != db.mem_ty(j) {
            return Err(Failure::new(
                "custom-root:memory-lost-or-changed",
                format!("memory {} ({:?}) rooted by a custom section is at output index {} as {:?} [{}]", i, da.mem_ty(i), j, db.mem_ty(j), origin),
            ));
        }
        out.label("mode:custom-section-roots-memory");
    }
    if let (Some(i), Some(j)) = (tt, so[1]) {
        if da.table_ty(i) != db.table_ty(j) {
            return Err(Failure::new(
                "custom-root:table-lost-or-changed",
                format!("table {} ({:?}) rooted by a custom section is at output index {} as {:?} [{}]", i, da.table_ty(i), j, db.table_ty(j), origin),
            ));
        }
    }
    if let (Some(i), Some(j)) = (tg, so[2]) {
        if da.global_ty(i) != db.global_ty(j) {
            return Err(Failure::new(
                "custom-root:global-lost-or-changed",
                format!("global {} ({:?}) rooted by a custom section is at output index {} as {:?} [{}]", i, da.global_ty(i), j, db.global_ty(j), origin),
            ));
        }
    }
    let mut iso = crate::iso::Iso::new(&da, &db);
    iso.tolerate = vec!["memarg-offset-truncated-to-u32".into()];
    match iso.run_gc() {
        Ok(()) => {
            if let Some(j) = iso.funcs.fwd.get(&target) {
                if *j != idx && !iso.ambiguous_funcs.contains(&target) {
                    return Err(Failure::new(
                        "custom-root:wrong-function-kept",
                        format!("rooted function {} is at output index {}, the section was told {} [{}]", target, j, idx, origin),
                    ));
                }
            } else {
                return Err(Failure::new(
                    "custom-root:function-collected",
                    format!("function {} rooted by a custom section is not in the output [{}]", target, origin),
                ));
            }
            out.label("mode:custom-section-root");
        }
        Err(mm) => {
            out.label(format!("skip:rooted-structure-mismatch:{}", mm.signature));
        }
    }
    Ok(())
}

/// An active data segment added through the public API (not registered with
/// its memory, which nothing documents as required) is a GC root like the
/// parsed ones: edit>emit and edit>gc>emit must behave alike.
fn added_data_mode(ctx: &Ctx, input: &Input, out: &mut CaseOut) -> Result<(), Failure> {
    use walrus::*;
    let (bytes, origin, sb) = match input {
        Input::Choices { gen, bytes } => {
            let sb: Vec<u8> = bytes.iter().take(64).copied().collect();
            let rest: Vec<u8> = bytes.iter().skip(64).copied().collect();
            let p = prepare(&Input::Choices { gen: gen.clone(), bytes: rest }).unwrap();
            (p.bytes, p.origin, sb)
        }
        Input::Wasm { origin, bytes } => {
            let h = fnv(bytes);
            (bytes.clone(), origin.clone(), (0..64).map(|i| (mix(h, i) >> 11) as u8).collect::<Vec<u8>>())
        }
        _ => return Ok(()),
    };
    if crate::optable::validate_walrus(&bytes).is_err() {
        return Ok(());
    }
    // an active element segment on an imported funcref table, likewise
    // unregistered
    let add_elem = |m: &mut Module| {
        // (imported tables only: segments of module-defined tables are found
        // through Table::elem_segments, which an API user has to maintain)
        let tabs: Vec<TableId> = m.tables.iter().filter(|t| t.import.is_some() && t.element_ty == RefType::Funcref && !t.table64).map(|t| t.id()).collect();
        let f = m.funcs.iter().next().map(|f| f.id());
        if let (Some(t), Some(f)) = (tabs.first().copied(), f) {
            m.elements.add(
                ElementKind::Active { table: t, offset: ConstExpr::Value(ir::Value::I32(0)) },
                ElementItems::Functions(vec![f]),
            );
        }
    };
    let build = |gc: bool| -> Option<Vec<u8>> {
        let cfg = crate::wal::Cfg::plain().to_config();
        let mut m = match crate::wal::parse(&bytes, &cfg) {
            Ok(Ok(m)) => m,
            _ => return None,
        };
        // the first memory that is visible from outside
        let visible: Vec<MemoryId> = m
            .exports
            .iter()
            .filter_map(|e| match e.item {
                ExportItem::Memory(id) => Some(id),
                _ => None,
            })
            .collect();
        if let Some(mem) = visible.first().copied() {
            let m64 = m.memories.get(mem).memory64;
            let offset = if m64 { ConstExpr::Value(ir::Value::I64(1)) } else { ConstExpr::Value(ir::Value::I32(1)) };
            m.data.add(DataKind::Active { memory: mem, offset }, vec![0xAB, 0xCD, 0xEF]);
        }
        add_elem(&mut m);
        if gc && crate::wal::gc(&mut m).is_err() {
            return None;
        }
        crate::wal::emit(&mut m).ok()
    };
    let (a, b) = match (build(false), build(true)) {
        (Some(a), Some(b)) => (a, b),
        _ => return Ok(()),
    };
    let im = match crate::interp::load(&a) {
        Ok(m) => m,
        Err(_) => return Ok(()),
    };
    let mut ch = crate::ch::Ch::new(&sb);
    let host_seed = ch.u64();
    let script = crate::exec::gen_script(&im, &mut ch, 6);
    drop(im);
    let (sa, sbb) = match (crate::exec::observe(&a, &script, host_seed, true), crate::exec::observe(&b, &script, host_seed, true)) {
        (Ok(x), Ok(y)) => (x, y),
        (Ok(_), Err(e)) if !e.starts_with("interpreter-panic") => {
            if e.contains("undeclared function reference") && super::c01::passive_only_declaration(&a) {
                return ctx.known_or(out, Failure::new("gc-output-invalid:undeclared function reference:only-declaration-was-an-element-segment-the-pass-removes", format!("{} [{}]", e, origin)));
            }
            return Err(Failure::new("api-added-segment:gc-output-not-loadable", format!("{} [{}]", e, origin)));
        }
        _ => return Ok(()),
    };
    if sa.first().map(|s| s.result.is_err()).unwrap_or(false) {
        return Ok(()); // instantiation of the edited module fails (segment out of bounds): tolerated class
    }
    if let crate::exec::Cmp::Differ { at, what, detail } = crate::exec::compare_opts(&sa, &sbb, true) {
        return Err(Failure::new(
            format!("api-added-segment:behaviour-differs:{}", what),
            format!("active data / element segments were added through ModuleData::add / ModuleElements::add; with GC before emit: step {}: {} [{}]", at, detail, origin),
        ));
    }
    out.label("mode:api-added-active-segments");
    Ok(())
}

/// The module stays usable after the pass: every signature of the input can
/// be added (again) and resolves to a live type, and the module still emits
/// a valid binary.
fn api_after_gc_mode(ctx: &Ctx, input: &Input, out: &mut CaseOut) -> Result<(), Failure> {
    use crate::ops::VT;
    use walrus::*;
    let p = match input {
        Input::Choices { gen, bytes } => {
            let rest: Vec<u8> = bytes.iter().skip(64).copied().collect();
            prepare(&Input::Choices { gen: gen.clone(), bytes: rest }).unwrap()
        }
        Input::Wasm { .. } => match prepare(input) {
            Some(p) => p,
            None => return Ok(()),
        },
        _ => return Ok(()),
    };
    if crate::optable::validate_walrus(&p.bytes).is_err() {
        return Ok(());
    }
    let da = match crate::decode::decode(&p.bytes) {
        Ok(d) => d,
        Err(_) => return Ok(()),
    };
    let cfg = crate::wal::Cfg::plain().to_config();
    let mut m = match crate::wal::parse(&p.bytes, &cfg) {
        Ok(Ok(m)) => m,
        _ => return Ok(()),
    };
    if crate::wal::gc(&mut m).is_err() {
        return Ok(());
    }
    let vt = |t: &VT| match t {
        VT::I32 => ValType::I32,
        VT::I64 => ValType::I64,
        VT::F32 => ValType::F32,
        VT::F64 => ValType::F64,
        VT::V128 => ValType::V128,
        VT::FuncRef => ValType::Ref(RefType::Funcref),
        VT::ExternRef | VT::Other(_) => ValType::Ref(RefType::Externref),
    };
    if da.types.iter().any(|t| t.params.iter().chain(t.results.iter()).any(|x| matches!(x, VT::Other(_)))) {
        return Ok(());
    }
    let sigs: Vec<(Vec<ValType>, Vec<ValType>)> = da.types.iter().map(|t| (t.params.iter().map(vt).collect(), t.results.iter().map(vt).collect())).collect();
    let r = guard("api after gc", || {
        for (ps, rs) in &sigs {
            let id = m.types.add(ps, rs);
            let t = m.types.get(id);
            if t.params() != ps.as_slice() || t.results() != rs.as_slice() {
                return Some(format!("types.add({:?}, {:?}) after GC returned an id that resolves to {:?} -> {:?}", ps, rs, t.params(), t.results()));
            }
        }
        None
    });
    match r {
        Err(f) => {
            return Err(Failure::new(
                format!("api-after-gc:{}", f.signature),
                format!("adding the input's signatures again after the GC pass panicked: {} [{}]", f.detail, p.origin),
            ))
        }
        Ok(Some(msg)) => return Err(Failure::new("api-after-gc:wrong-type", format!("{} [{}]", msg, p.origin))),
        Ok(None) => {}
    }
    match crate::wal::emit(&mut m) {
        Ok(b) => {
            if let Err(e) = crate::optable::validate_walrus(&b) {
                if e.contains("undeclared function reference") && super::c01::passive_only_declaration(&p.bytes) {
                    return ctx.known_or(out, Failure::new("gc-output-invalid:undeclared function reference:only-declaration-was-an-element-segment-the-pass-removes", format!("{} [{}]", e, p.origin)));
                }
                return Err(Failure::new(
                    format!("api-after-gc:invalid-output:{}", super::c02::normalise_msg(&e)),
                    format!("after GC and re-adding the input's signatures the output is invalid: {} [{}]", e, p.origin),
                ));
            }
        }
        Err(f) => {
            return Err(Failure::new(
                format!("api-after-gc:{}", f.signature),
                format!("after GC and re-adding the input's signatures emit panicked: {} [{}]", f.detail, p.origin),
            ))
        }
    }
    out.label("mode:api-after-gc");
    Ok(())
}

pub fn check(ctx: &Ctx, input: &Input) -> CaseResult {
    let mut r = super::c01::diff_case(ctx, input, true)?;
    rooted_mode(ctx, input, &mut r)?;
    added_data_mode(ctx, input, &mut r)?;
    api_after_gc_mode(ctx, input, &mut r)?;
    // C06's non-triviality additionally needs GC to have removed something
    if !r.labels.iter().any(|l| l == "gc-removed-something") {
        r.nontrivial = false;
    }
    Ok(r)
}

fn run(ctx: &Ctx) {
    let plans = [GenPlan {
        gen: "exec",
        cases: ctx.tier.pick(25_000, 400_000),
        min_len: 64,
        max_len: ctx.tier.pick(1500, 4000),
    }];
    standard_run(ctx, check, &plans, true);
}
