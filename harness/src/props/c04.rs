//! C04 — module-level structure is preserved by the round trip.

use super::*;
use crate::iso::Area;

pub fn def() -> PropDef {
    PropDef {
        id: "C04",
        run,
        check,
        meta,
    }
}

fn meta(_ctx: &Ctx) -> EvidenceMeta {
    EvidenceMeta {
        rule: "generated full-profile modules (imports x kinds x 32/64-bit x shared, every element/data segment encoding), fixtures, real corpus; non-trivial = module has >=3 kinds of entities among imports/exports/tables/memories/globals/elements/data/start; distinct by module bytes. Oracle: everything outside the code section equal under a verified renumbering bijection, nothing extra on either side.".into(),
        assumptions: vec!["wasmparser decodes both binaries faithfully".into()],
        level: "exploration",
        exhaustive: false,
    }
}

pub fn check(ctx: &Ctx, input: &Input) -> CaseResult {
    super::c03::iso_case(ctx, input, Area::Module)
}

fn run(ctx: &Ctx) {
    let plans = [GenPlan {
        gen: "full",
        cases: ctx.tier.pick(150_000, 1_500_000),
        min_len: 0,
        max_len: ctx.tier.pick(1200, 3000),
    }];
    standard_run(ctx, check, &plans, true);
}
