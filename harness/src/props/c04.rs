//! C04 — module-level structure is preserved by the round trip.

use super::*;
use crate::iso::Area;

pub fn def() -> PropDef {
    PropDef {
        id: "C04",
        run,
        check,
        meta,
    }
}

fn meta(_ctx: &Ctx) -> EvidenceMeta {
    EvidenceMeta {
        rule: "generated full-profile modules (imports x kinds x 32/64-bit x shared, every element/data segment encoding), fixtures, real corpus; non-trivial = module has >=3 kinds of entities among imports/exports/tables/memories/globals/elements/data/start; distinct by module bytes. Oracle: everything outside the code section equal under a verified renumbering bijection, nothing extra on either side.".into(),
        assumptions: vec!["wasmparser decodes both binaries faithfully".into()],
        level: "exploration",
        exhaustive: false,
    }
}

pub fn check(ctx: &Ctx, input: &Input) -> CaseResult {
    let mut out = super::c03::iso_case(ctx, input, Area::Module)?;
    added_import_table_mode(input, &mut out)?;
    Ok(out)
}

/// "Nothing is retargeted unless asked to": after an imported table has been
/// added through the API (it is emitted behind the existing imported tables,
/// in front of the module-defined ones), every active element segment and
/// every table export still designates the table it designated before.
fn added_import_table_mode(input: &Input, out: &mut CaseOut) -> Result<(), Failure> {
    use crate::decode::{decode, ElemMode, ExtKind};
    let p = match prepare(input) {
        Some(p) => p,
        None => return Ok(()),
    };
    let da = match decode(&p.bytes) {
        Ok(d) => d,
        Err(_) => return Ok(()),
    };
    if da.n_tables() == 0 || crate::optable::validate_walrus(&p.bytes).is_err() {
        return Ok(());
    }
    let cfg = crate::wal::Cfg::plain().to_config();
    let mut m = match crate::wal::parse(&p.bytes, &cfg) {
        Ok(Ok(m)) => m,
        _ => return Ok(()),
    };
    if guard("edit", || {
        m.add_import_table("verif", "added_table", false, 1, Some(3), walrus::RefType::Funcref);
    })
    .is_err()
    {
        return Ok(());
    }
    let b = match crate::wal::emit(&mut m) {
        Ok(b) => b,
        Err(_) => return Ok(()),
    };
    let db = match decode(&b) {
        Ok(d) => d,
        Err(_) => return Ok(()),
    };
    let ni = da.imp_tables.len() as u32;
    let shift = |t: u32| if t >= ni { t + 1 } else { t };
    if da.elems.len() != db.elems.len() {
        return Ok(()); // C02/C04's round-trip business
    }
    for (i, (ea, eb)) in da.elems.iter().zip(db.elems.iter()).enumerate() {
        if let (ElemMode::Active { table: ta, .. }, ElemMode::Active { table: tb, .. }) = (&ea.mode, &eb.mode) {
            if shift(*ta) != *tb {
                return Err(Failure::new(
                    "after-adding-an-imported-table:element-segment-retargeted",
                    format!("element segment {} initialised table {}; after Module::add_import_table it initialises table {} (expected {}) [{}]", i, ta, tb, shift(*ta), p.origin),
                ));
            }
        }
    }
    for (ea, eb) in da.exports.iter().zip(db.exports.iter()) {
        if ea.kind == ExtKind::Table && eb.kind == ExtKind::Table && ea.name == eb.name && shift(ea.index) != eb.index {
            return Err(Failure::new(
                "after-adding-an-imported-table:table-export-retargeted",
                format!("export {:?} designated table {}, now {} (expected {}) [{}]", ea.name, ea.index, eb.index, shift(ea.index), p.origin),
            ));
        }
    }
    out.label("mode:imported-table-added");
    Ok(())
}

fn run(ctx: &Ctx) {
    let plans = [GenPlan {
        gen: "full",
        cases: ctx.tier.pick(150_000, 1_500_000),
        min_len: 0,
        max_len: ctx.tier.pick(1200, 3000),
    }];
    standard_run(ctx, check, &plans, true);
}
