//! C07 — GC is precise and idempotent.

use super::*;
use crate::decode::decode;
use crate::optable::validate_walrus;
use crate::reach::{reach, unreachable_items};
use crate::wal;
use serde_json::json;

pub fn def() -> PropDef {
    PropDef {
        id: "C07",
        run,
        check,
        meta,
    }
}

fn meta(_ctx: &Ctx) -> EvidenceMeta {
    EvidenceMeta {
        rule: "accepted modules (generated full profile with unreferenced entities of every kind, fixtures, real corpus); non-trivial = the input itself has >=2 unreachable entities of >=2 kinds; distinct by module bytes. Oracle: (precision) an independent reachability analysis of the binary emitted after GC (roots: exports, start, active data, active elements of imported tables, declared elements) covers every function, global, table, memory, data segment, element segment, type and import of that binary, except at most one memory when data segments are retained and no memory is otherwise reachable; (idempotence) parse>gc>emit, parse>gc>gc>emit and parse(gc output)>gc>emit are byte-identical.".into(),
        assumptions: vec!["raw custom sections contribute no GC roots".into()],
        level: "exploration",
        exhaustive: false,
    }
}

pub fn check(_ctx: &Ctx, input: &Input) -> CaseResult {
    let mut out = CaseOut::default();
    let p = match prepare(input) {
        Some(p) => p,
        None => return Ok(out),
    };
    out.hash = fnv(&p.bytes);
    if validate_walrus(&p.bytes).is_err() {
        out.label("skip:input-invalid");
        return Ok(out);
    }
    let cfg = wal::Cfg::bare().to_config();
    let gc_emit = |bytes: &[u8], times: usize| -> Result<Option<Vec<u8>>, Failure> {
        let mut m = match wal::parse(bytes, &cfg)? {
            Ok(m) => m,
            Err(_) => return Ok(None),
        };
        for _ in 0..times {
            wal::gc(&mut m)?;
        }
        wal::emit(&mut m).map(Some)
    };
    let a = match gc_emit(&p.bytes, 1) {
        Ok(Some(a)) => a,
        Ok(None) => {
            out.label("skip:walrus-rejected(C05)");
            return Ok(out);
        }
        Err(f) => {
            // a module that emits fine without the pass but cannot be emitted
            // after it lost something that is still referenced: the pass is
            // not precise (it removed a reachable entity)
            let plain_ok = matches!(wal::roundtrip(&p.bytes, wal::Cfg::bare(), false), Ok(Some(_)));
            if plain_ok && f.signature.contains("emit") || plain_ok && f.detail.contains("_index") {
                return Err(Failure::new(
                    format!("gc-removed-a-referenced-entity:{}", f.signature),
                    format!("parse>emit succeeds, parse>gc>emit panics: {} [{}]", f.detail, p.origin),
                ));
            }
            out.label("skip:panic(C02)");
            return Ok(out);
        }
    };
    // the same precision judgement after a function with two results has been
    // added through the builder API and exported (its hidden entry type must
    // not show up as a type of the output)
    if out.hash % 4 == 0 {
        if let Ok(Ok(mut m)) = wal::parse(&p.bytes, &cfg) {
            let built = guard("edit", || {
                use walrus::*;
                let a0 = m.locals.add(ValType::I32);
                let mut fb = FunctionBuilder::new(&mut m.types, &[ValType::I32], &[ValType::I32, ValType::I64]);
                // a block whose type is a type id although its signature is
                // simple; that type is used by nothing else
                let bt = m.types.add(&[], &[ValType::F32]);
                fb.func_body()
                    .block(ir::InstrSeqType::MultiValue(bt), |b| {
                        b.f32_const(1.5);
                    })
                    .drop()
                    .local_get(a0)
                    .i64_const(7);
                let f = fb.finish(vec![a0], &mut m.funcs);
                m.exports.add("verif_built", f);
            });
            if built.is_ok() && wal::gc(&mut m).is_ok() {
                if let Ok(e) = wal::emit(&mut m) {
                    if let Ok(de) = decode(&e) {
                        let re = reach(&de);
                        let mut une = unreachable_items(&de, &re);
                        let any_mem = re.mems.iter().any(|b| *b);
                        if !de.datas.is_empty() && !any_mem {
                            if let Some(pos) = une.iter().position(|(k, _)| k == "memory") {
                                une.remove(pos);
                            }
                        }
                        if let Some((kind, idx)) = une.first() {
                            return Err(Failure::new(
                                format!("unreachable-{}-survived-gc:after-adding-a-built-function", kind),
                                format!("after adding an exported builder-made function (i32)->(i32,i64) and GC, the output contains {} {} which nothing reachable refers to (all: {:?}) [{}]", kind, idx, une, p.origin),
                            ));
                        }
                        out.label("mode:built-function-added");
                    }
                }
            }
        }
    }
    let da = match decode(&a) {
        Ok(d) => d,
        Err(_) => {
            out.label("skip:output-undecodable(C02)");
            return Ok(out);
        }
    };
    let r = reach(&da);
    let mut un = unreachable_items(&da, &r);
    // tolerated residue
    let any_mem_reachable = r.mems.iter().any(|b| *b);
    if !da.datas.is_empty() && !any_mem_reachable {
        if let Some(pos) = un.iter().position(|(k, _)| k == "memory") {
            un.remove(pos);
            out.label("tolerated:memory-kept-for-data-segments");
        }
    }
    if let Some((kind, idx)) = un.first() {
        return Err(Failure::new(
            format!("unreachable-{}-survived-gc", kind),
            format!(
                "after GC the output still contains {} {} which nothing reachable refers to (all unreachable: {:?}) [{}]",
                kind, idx, un, p.origin
            ),
        ));
    }
    // idempotence
    match gc_emit(&p.bytes, 2) {
        Ok(Some(b)) => {
            if b != a {
                return Err(Failure::new(
                    "gc-twice-differs",
                    format!("parse>gc>gc>emit ({} bytes) differs from parse>gc>emit ({} bytes) [{}]", b.len(), a.len(), p.origin),
                ));
            }
        }
        _ => {
            out.label("skip:second-gc-panic(C02)");
            return Ok(out);
        }
    }
    match gc_emit(&a, 1) {
        Ok(Some(c)) => {
            if c != a {
                let dc = decode(&c).ok();
                let what = dc
                    .map(|d| {
                        format!(
                            "funcs {}→{}, globals {}→{}, tables {}→{}, mems {}→{}, datas {}→{}, elems {}→{}, types {}→{}",
                            da.n_funcs(), d.n_funcs(), da.n_globals(), d.n_globals(), da.n_tables(), d.n_tables(),
                            da.n_mems(), d.n_mems(), da.datas.len(), d.datas.len(), da.elems.len(), d.elems.len(),
                            da.types.len(), d.types.len()
                        )
                    })
                    .unwrap_or_default();
                return Err(Failure::new(
                    "gc-of-gc-output-differs",
                    format!("gc(parse(gc output)) changes the module again: {} [{}]", what, p.origin),
                ));
            }
        }
        Ok(None) => {
            out.label("skip:gc-output-rejected(C02)");
            return Ok(out);
        }
        Err(_) => {
            out.label("skip:panic(C02)");
            return Ok(out);
        }
    }
    // non-triviality from the input's own reachability
    if let Ok(di) = decode(&p.bytes) {
        let ri = reach(&di);
        let ui = unreachable_items(&di, &ri);
        let kinds: std::collections::BTreeSet<&str> = ui.iter().map(|(k, _)| k.as_str()).collect();
        for k in &kinds {
            out.label(format!("input-has-unreachable-{}", k));
        }
        out.nontrivial = ui.len() >= 2 && kinds.len() >= 2;
        if out.nontrivial {
            out.sample = Some(json!({"origin": p.origin, "bytes": p.bytes.len(), "unreachable_in_input": ui.len(), "kinds": kinds, "after_gc_bytes": a.len()}));
        }
    }
    Ok(out)
}

fn run(ctx: &Ctx) {
    let plans = [GenPlan {
        gen: "full-nobig",
        cases: ctx.tier.pick(300_000, 3_000_000),
        min_len: 0,
        max_len: ctx.tier.pick(1500, 3000),
    }];
    standard_run(ctx, check, &plans, true);
}
