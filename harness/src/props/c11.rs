//! C11 — the code-offset map handed to custom sections is exact.

use super::*;
use crate::ch::Ch;
use crate::decode::decode;
use crate::iso::Iso;
use crate::optable::validate_walrus;
use crate::spy;
use crate::wal;
use serde_json::json;
use std::collections::{BTreeMap, HashMap};

pub fn def() -> PropDef {
    PropDef {
        id: "C11",
        run,
        check,
        meta,
    }
}

fn meta(_ctx: &Ctx) -> EvidenceMeta {
    EvidenceMeta {
        rule: "accepted modules (generated, fixtures, real corpus; function counts on both sides of 127/128) x {unchanged, const;drop pairs inserted at generated positions through the builder API, GC}; a spy CustomSection records the CodeTransform passed to apply_code_transform. non-trivial = >=2 functions reordered or >=1 insertion, and >=10 pairs checked; distinct by (module bytes, mode). Oracle: the true instruction-offset map input->output is derived from an independent decode of both binaries plus the verified renumbering bijection; every pair (input offset, output offset) must be in it (same instruction, first byte); no pair may carry the default location; every function range must equal the emitted code entry (size LEB through last byte) of the image of that function; code_section_start must equal the offset of the code section's contents (function-count LEB) in the output, which is what code-relative debug addresses are measured from on the parse side.".into(),
        assumptions: vec!["completeness of the pair list is measured and reported, not required".into()],
        level: "exploration",
        exhaustive: false,
    }
}

pub struct ModeResult {
    pub pairs_checked: usize,
    pub reordered: bool,
    pub insertions: usize,
    pub coverage: (usize, usize),
}

pub fn check_mode(
    ctx: &Ctx,
    bytes: &[u8],
    mode: &str,
    edit_bytes: &[u8],
    origin: &str,
    out: &mut CaseOut,
) -> Result<Option<ModeResult>, Failure> {
    let da = match decode(bytes) {
        Ok(d) => d,
        Err(_) => return Ok(None),
    };
    if da.funcs.is_empty() {
        return Ok(None);
    }
    let hint: Vec<usize> = vec![0; da.n_funcs() as usize];
    // "+dwarf": DWARF generation on as well (it implies the code transform and
    // runs the DWARF emitter before custom sections see the transform)
    let mut cfg = wal::Cfg {
        code_transform: true,
        dwarf: mode.ends_with("+dwarf"),
        ..wal::Cfg::plain()
    }
    .to_config();
    if mode.ends_with("+on_instr_loc") {
        // a user callback that assigns what the default assigns: the input
        // offset of the instruction
        cfg.on_instr_loc(|pos| walrus::InstrLocId::new(*pos as u32));
    }
    let shared = spy::install(&mut cfg, hint);
    let mut m = match wal::parse(bytes, &cfg) {
        Ok(Ok(m)) => m,
        _ => {
            out.label("skip:walrus-rejected(C05)");
            return Ok(None);
        }
    };
    let ids = shared.parse_ids.lock().unwrap().clone().unwrap();
    let mut insertions = 0;
    if mode == "reemit-insert" {
        // the Module was emitted before; the transform of the next emit must
        // not carry anything over
        if wal::emit(&mut m).is_err() {
            return Ok(None);
        }
    }
    if mode == "insert" || mode == "reemit-insert" {
        let mut ch = Ch::new(edit_bytes);
        let n = 1 + ch.below(4);
        for _ in 0..n {
            if guard("edit", || crate::edits::insert_const_drop(&mut m, &mut ch))?.is_some() {
                insertions += 1;
            }
        }
    }
    if mode == "gc" && wal::gc(&mut m).is_err() {
        out.label("skip:gc-panic(C02)");
        return Ok(None);
    }
    spy::ask_about_live(&shared, &m);
    let b = match wal::emit(&mut m) {
        Ok(b) => b,
        Err(_) => {
            out.label("skip:emit-panic(C02)");
            return Ok(None);
        }
    };
    let t = match shared.transform.lock().unwrap().clone() {
        Some(t) => t,
        None => {
            return Err(Failure::new(
                "apply_code_transform-not-called",
                format!("[{}] preserve_code_transform is on but the custom section never received a CodeTransform [{}]", mode, origin),
            ))
        }
    };
    let db = match decode(&b) {
        Ok(d) => d,
        Err(_) => {
            out.label("skip:output-undecodable(C02)");
            return Ok(None);
        }
    };
    let mut iso = Iso::new(&da, &db);
    iso.tolerate = vec!["memarg-offset-truncated-to-u32".into()];
    iso.strip_markers = mode == "insert";
    let r = if mode == "gc" { iso.run_gc() } else { iso.run_full() };
    if let Err(mm) = r {
        out.label(format!("skip:structure-mismatch(C03/C04):{}", mm.signature));
        return Ok(None);
    }
    let truth: BTreeMap<usize, usize> = iso.offset_map();
    // every operator start of the input, with its operator
    let mut in_ops: HashMap<usize, (&crate::ops::Op, usize, usize)> = HashMap::new();
    for (fi, f) in da.funcs.iter().enumerate() {
        for (k, o) in f.ops.iter().enumerate() {
            in_ops.insert(o.offset, (o, fi, k));
        }
    }
    // operators the comparison ignores (nop / syntactically dead code): walrus
    // may keep some of them (e.g. after return_call); pairs for those cannot
    // be judged against the true map
    let mut ignored: std::collections::HashSet<usize> = std::collections::HashSet::new();
    for f in da.funcs.iter() {
        let (canon, _) = crate::iso::canonicalise(&f.ops);
        let kept: std::collections::HashSet<usize> = canon.iter().map(|o| o.offset).collect();
        for o in f.ops.iter() {
            if !kept.contains(&o.offset) {
                ignored.insert(o.offset);
            }
        }
    }
    let mut out_ops: HashMap<usize, &crate::ops::Op> = HashMap::new();
    for f in db.funcs.iter() {
        for o in f.ops.iter() {
            out_ops.insert(o.offset, o);
        }
    }
    let fail = |out: &mut CaseOut, f: Failure| -> Result<(), Failure> { ctx.known_or(out, f) };

    // code_section_start
    if let Some(cs) = db.code_section_start {
        if t.code_section_start != cs {
            let delta = t.code_section_start as i64 - cs as i64;
            fail(
                out,
                Failure::new(
                    format!("code_section_start:off-by-{}", delta),
                    format!(
                        "[{}] reported code_section_start {} but the code section's contents (function count) start at {} in the emitted binary ({} functions) [{}]",
                        mode,
                        t.code_section_start,
                        cs,
                        db.funcs.len(),
                        origin
                    ),
                ),
            )?;
        }
    }
    // function ranges
    let ni_b = db.imp_funcs.len() as u32;
    if t.function_ranges.len() != db.funcs.len() {
        fail(
            out,
            Failure::new(
                "function-ranges-count",
                format!("[{}] {} function ranges reported, {} code entries emitted [{}]", mode, t.function_ranges.len(), db.funcs.len(), origin),
            ),
        )?;
    }
    for (fid, range) in &t.function_ranges {
        let inputs: Vec<u32> = ids.funcs.iter().enumerate().filter(|(_, x)| *x == fid).map(|(i, _)| i as u32).collect();
        let i = match inputs.first() {
            Some(i) => *i,
            None => continue, // a function added after parsing
        };
        if iso.ambiguous_funcs.contains(&i) {
            out.label("unjudged:function-with-content-identical-twin");
            continue;
        }
        let j = match iso.funcs.fwd.get(&i) {
            Some(j) => *j,
            None => {
                fail(
                    out,
                    Failure::new(
                        "function-range-for-removed-function",
                        format!("[{}] a range is reported for input function {} which is not in the output [{}]", mode, i, origin),
                    ),
                )?;
                continue;
            }
        };
        if j < ni_b {
            continue;
        }
        let want = &db.funcs[(j - ni_b) as usize].entry_range;
        if range != want {
            fail(
                out,
                Failure::new(
                    "function-range",
                    format!(
                        "[{}] range reported for input function {} is {:?}; its code entry in the emitted binary (function {}) is {:?} [{}]",
                        mode, i, range, j, want, origin
                    ),
                ),
            )?;
        }
    }
    // instruction pairs
    let mut checked = 0;
    for (loc, outoff) in &t.instruction_map {
        let x = match loc {
            None => {
                fail(
                    out,
                    Failure::new(
                        "default-location-in-map",
                        format!("[{}] a pair with the default (synthetic) location maps to output offset {} [{}]", mode, outoff, origin),
                    ),
                )?;
                continue;
            }
            Some(x) => *x as usize,
        };
        let (op, fi, k) = match in_ops.get(&x) {
            Some(o) => *o,
            None => {
                fail(
                    out,
                    Failure::new(
                        "input-offset-not-an-instruction",
                        format!("[{}] pair ({}, {}): {} is not the first byte of an instruction of the input [{}]", mode, x, outoff, x, origin),
                    ),
                )?;
                continue;
            }
        };
        if iso.ambiguous_funcs.contains(&(fi as u32 + da.imp_funcs.len() as u32)) {
            out.label("unjudged:function-with-content-identical-twin");
            continue;
        }
        match truth.get(&x) {
            Some(want) if want == outoff => {
                checked += 1;
            }
            Some(want) => {
                let got_op = out_ops.get(outoff).map(|o| o.name).unwrap_or("<not an instruction start>");
                let sig = if op.name == "End" && got_op == "Else" {
                    "if-without-else:end-mapped-to-synthesized-else".to_string()
                } else if out_ops.contains_key(outoff) {
                    format!("pair-points-at-other-instruction:{}", if op.name == got_op { "same-opcode" } else { "different-opcode" })
                } else {
                    "pair-points-inside-an-instruction".to_string()
                };
                fail(
                    out,
                    Failure::new(
                        sig,
                        format!(
                            "[{}] input offset {} ({} , function {} op #{}) is reported at output offset {} ({}), but that instruction is emitted at {} [{}]",
                            mode,
                            x,
                            op.short(),
                            fi,
                            k,
                            outoff,
                            got_op,
                            want,
                            origin
                        ),
                    ),
                )?;
            }
            None => {
                // instruction elided on the way (nop / dead code) or its function removed
                let got_op = out_ops.get(outoff).map(|o| o.name).unwrap_or("<not an instruction start>");
                if ignored.contains(&x) && got_op == op.name {
                    out.label("unjudged:pair-in-retained-dead-code");
                    continue;
                }
                let sig = if op.name == "End" && got_op == "Else" {
                    "if-without-else:end-mapped-to-synthesized-else".to_string()
                } else {
                    "pair-for-instruction-not-in-output".to_string()
                };
                fail(
                    out,
                    Failure::new(
                        sig,
                        format!(
                            "[{}] pair ({}, {}) for {} (function {} op #{}), which has no counterpart in the emitted binary; output offset holds {} [{}]",
                            mode,
                            x,
                            outoff,
                            op.short(),
                            fi,
                            k,
                            got_op,
                            origin
                        ),
                    ),
                )?;
            }
        }
    }
    let covered = t
        .instruction_map
        .iter()
        .filter(|(l, _)| l.map(|x| truth.contains_key(&(x as usize))).unwrap_or(false))
        .count();
    let reordered = iso.funcs.fwd.iter().filter(|(a, b)| a != b).count() >= 2;
    Ok(Some(ModeResult {
        pairs_checked: checked,
        reordered,
        insertions,
        coverage: (covered, truth.len()),
    }))
}

pub fn check(ctx: &Ctx, input: &Input) -> CaseResult {
    let mut out = CaseOut::default();
    let (bytes, origin, edit_bytes) = match input {
        Input::Choices { gen, bytes } => {
            let eb: Vec<u8> = bytes.iter().take(24).copied().collect();
            let rest: Vec<u8> = bytes.iter().skip(24).copied().collect();
            let p = prepare(&Input::Choices {
                gen: gen.clone(),
                bytes: rest,
            })
            .unwrap();
            (p.bytes, p.origin, eb)
        }
        Input::Wasm { origin, bytes } => {
            let h = fnv(bytes);
            (bytes.clone(), origin.clone(), (0..24).map(|i| (mix(h, i) >> 13) as u8).collect())
        }
        _ => return Ok(out),
    };
    out.hash = fnv(&bytes);
    if validate_walrus(&bytes).is_err() {
        out.label("skip:input-invalid");
        return Ok(out);
    }
    let mut total_pairs = 0;
    let mut interesting = false;
    let mut cov = (0usize, 0usize);
    for mode in ["plain", "insert", "gc", "plain+dwarf", "reemit-insert", "plain+on_instr_loc"] {
        if let Some(r) = check_mode(ctx, &bytes, mode, &edit_bytes, &origin, &mut out)? {
            total_pairs += r.pairs_checked;
            if r.reordered || r.insertions > 0 {
                interesting = true;
            }
            cov.0 += r.coverage.0;
            cov.1 += r.coverage.1;
            out.label(format!("mode:{}", mode));
        }
    }
    out.nontrivial = interesting && total_pairs >= 10;
    if cov.1 > 0 && cov.0 == cov.1 {
        out.label("map-complete");
    } else if cov.1 > 0 {
        out.label("map-incomplete(reported, not required)");
    }
    if out.nontrivial && out.hash % 8 == 0 {
        out.sample = Some(json!({"origin": origin, "bytes": bytes.len(), "pairs_checked": total_pairs, "pairs_over_true_map": format!("{}/{}", cov.0, cov.1)}));
    }
    Ok(out)
}

fn run(ctx: &Ctx) {
    let plans = [
        GenPlan {
            gen: "full-nobig",
            cases: ctx.tier.pick(10_000, 300_000),
            min_len: 24,
            max_len: ctx.tier.pick(1500, 3000),
        },
        GenPlan {
            gen: "manyfuncs",
            cases: ctx.tier.pick(300, 6000),
            min_len: 24,
            max_len: 900,
        },
    ];
    standard_run(ctx, check, &plans, true);
}
