//! C01 — parse->emit round trip preserves execution behaviour.
//! C06 shares the machinery (GC pass before emitting).

use super::*;
use crate::ch::Ch;
use crate::exec::{self, Cmp};
use crate::optable::validate_walrus;
use crate::wal;
use serde_json::json;

pub fn def() -> PropDef {
    PropDef {
        id: "C01",
        run,
        check,
        meta,
    }
}

fn meta(_ctx: &Ctx) -> EvidenceMeta {
    EvidenceMeta {
        rule: "exec-profile generated modules (only operators the reference interpreter implements: MVP, sign-ext, sat-float, multi-value, bulk memory, reference types, multi-memory, memory64, tail calls, atomics, SIMD subset; loops terminate by construction), fixtures and the real corpus; per module a host environment derived from a seed and a call script of 1-12 calls over all function exports with boundary-pool arguments, state carried over, then every function reference in a visible table is called. non-trivial = walrus changed the function order or elided nops/dead code or the module has an if without else, AND at least one call completed and returned a value or changed visible state; distinct by (module bytes, script). Oracle: side-by-side execution of input and output on the harness's interpreter (links wasmparser only): instantiation outcome, per call results (bitwise), trap class, host-call trace, and the state of every imported/exported memory, global and table must agree. Fuel / call-depth exhaustion is inconclusive, never a difference.".into(),
        assumptions: vec![
            "the remaining ~170 lane-wise SIMD / relaxed-SIMD operators are not executed; their preservation is decided syntactically by C03".into(),
            "host functions are pure functions of (import name, arguments, call ordinal)".into(),
        ],
        level: "exploration",
        exhaustive: false,
    }
}

/// Does the input name a function with `ref.func` in code that is declared
/// (outside code) only by element segments that the GC pass may remove?
pub fn passive_only_declaration(bytes: &[u8]) -> bool {
    use crate::decode::{ElemItems, ElemMode, ExtKind};
    use crate::ops::Imm;
    let d = match crate::decode::decode(bytes) {
        Ok(d) => d,
        Err(_) => return false,
    };
    let mut robust = std::collections::HashSet::new();
    let mut passive = std::collections::HashSet::new();
    for e in &d.exports {
        if e.kind == ExtKind::Func {
            robust.insert(e.index);
        }
    }
    let funcs_of = |ops: &[crate::ops::Op]| -> Vec<u32> {
        ops.iter()
            .filter(|o| o.name == "RefFunc")
            .filter_map(|o| match o.imms.first() {
                Some(Imm::Func(f)) => Some(*f),
                _ => None,
            })
            .collect()
    };
    for g in &d.globals {
        robust.extend(funcs_of(&g.init));
    }
    for e in &d.elems {
        let items: Vec<u32> = match &e.items {
            ElemItems::Funcs(v) => v.clone(),
            ElemItems::Exprs(_, v) => v.iter().flat_map(|x| funcs_of(x)).collect(),
        };
        // passive segments and active segments of module-defined tables are
        // removed by the pass when nothing else refers to them / their table
        let removable = match &e.mode {
            ElemMode::Passive => true,
            ElemMode::Active { table, .. } => (*table as usize) >= d.imp_tables.len(),
            ElemMode::Declared => false,
        };
        if removable {
            passive.extend(items);
        } else {
            robust.extend(items);
        }
    }
    d.funcs.iter().any(|f| funcs_of(&f.ops).iter().any(|x| !robust.contains(x) && passive.contains(x)))
}

pub fn diff_case(ctx: &Ctx, input: &Input, do_gc: bool) -> CaseResult {
    let mut out = CaseOut::default();
    let (bytes, origin, sb) = match input {
        Input::Choices { gen, bytes } => {
            let sb: Vec<u8> = bytes.iter().take(64).copied().collect();
            let rest: Vec<u8> = bytes.iter().skip(64).copied().collect();
            let p = prepare(&Input::Choices {
                gen: gen.clone(),
                bytes: rest,
            })
            .unwrap();
            if let Some(s) = &p.spec {
                feature_labels(&mut out, s);
            }
            (p.bytes, p.origin, sb)
        }
        Input::Wasm { origin, bytes } => {
            let h = fnv(bytes);
            (bytes.clone(), origin.clone(), (0..64).map(|i| (mix(h, i) >> 11) as u8).collect())
        }
        _ => return Ok(out),
    };
    out.hash = mix(fnv(&bytes), fnv(&sb));
    if validate_walrus(&bytes).is_err() {
        out.label("skip:input-invalid");
        return Ok(out);
    }
    // behaviour must not depend on the configuration switches that only ask
    // for bookkeeping: a quarter of the cases record the code transform, an
    // eighth are emitted without the name section
    let cfgv = wal::Cfg {
        code_transform: sb.get(63).map(|b| b % 4 == 0).unwrap_or(false),
        names: sb.get(62).map(|b| b % 8 != 0).unwrap_or(true),
        ..wal::Cfg::plain()
    };
    if cfgv.code_transform {
        out.label("config:code-transform-recorded");
    }
    let emitted = match wal::roundtrip(&bytes, cfgv, do_gc) {
        Ok(Some(b)) => b,
        Ok(None) => {
            out.label("skip:walrus-rejected(C05)");
            return Ok(out);
        }
        Err(f) => {
            // C06: a module that emits without the pass but not after it has
            // been broken by the pass
            if do_gc && matches!(wal::roundtrip(&bytes, cfgv, false), Ok(Some(_))) {
                return Err(Failure::new(
                    format!("gc-breaks-the-module:{}", f.signature),
                    format!("parse>emit succeeds, parse>gc>emit panics: {} [{}]", f.detail, origin),
                ));
            }
            out.label("skip:panic(C02)");
            return Ok(out);
        }
    };
    // a second emit of the same Module must behave like the first: when its
    // bytes differ (C08's business) the second output is executed as well
    let mut second: Option<Vec<u8>> = None;
    if !do_gc {
        let cfg = cfgv.to_config();
        if let Ok(Ok(mut m)) = wal::parse(&bytes, &cfg) {
            if let (Ok(_), Ok(b2)) = (wal::emit(&mut m), wal::emit(&mut m)) {
                if b2 != emitted {
                    second = Some(b2);
                }
            }
        }
    }
    if do_gc {
        // C06 also requires a valid module with the same exports
        if let Err(e) = validate_walrus(&emitted) {
            // one recorded cause: a function that reachable code names with
            // `ref.func` and that only an unreferenced passive element segment
            // declares; the pass removes the segment
            if e.contains("undeclared function reference") && passive_only_declaration(&bytes) {
                ctx.known_or(
                    &mut out,
                    Failure::new(
                        "gc-output-invalid:undeclared function reference:only-declaration-was-an-element-segment-the-pass-removes",
                        format!("output of gc+emit rejected by the reference validator: {} [{}]", e, origin),
                    ),
                )?;
                return Ok(out);
            }
            return Err(Failure::new(
                format!("gc-output-invalid:{}", super::c02::normalise_msg(&e)),
                format!("output of gc+emit rejected by the reference validator: {} [{}]", e, origin),
            ));
        }
        let (da, db) = match (crate::decode::decode(&bytes), crate::decode::decode(&emitted)) {
            (Ok(a), Ok(b)) => (a, b),
            _ => return Ok(out),
        };
        let ea: Vec<(String, crate::decode::ExtKind)> = da.exports.iter().map(|e| (e.name.clone(), e.kind)).collect();
        let eb: Vec<(String, crate::decode::ExtKind)> = db.exports.iter().map(|e| (e.name.clone(), e.kind)).collect();
        if ea != eb {
            return Err(Failure::new(
                "gc-changed-exports",
                format!("export list {:?} became {:?} [{}]", ea, eb, origin),
            ));
        }
        let removed = da.n_funcs() != db.n_funcs()
            || da.n_globals() != db.n_globals()
            || da.n_tables() != db.n_tables()
            || da.n_mems() != db.n_mems()
            || da.elems.len() != db.elems.len()
            || da.datas.len() != db.datas.len();
        if removed {
            out.label("gc-removed-something");
        }
    }
    let m = match crate::interp::load(&bytes) {
        Ok(m) => m,
        Err(_) => {
            out.label("skip:interpreter-cannot-load");
            return Ok(out);
        }
    };
    let mut ch = Ch::new(&sb);
    let host_seed = ch.u64();
    let script = exec::gen_script(&m, &mut ch, 12);
    drop(m);
    let a = match exec::observe(&bytes, &script, host_seed, true) {
        Ok(s) => s,
        Err(_) => return Ok(out),
    };
    if do_gc && a.first().map(|s| s.result.is_err()).unwrap_or(false) {
        out.label("skip:original-instantiation-fails(tolerated by C06)");
        return Ok(out);
    }
    let b = match exec::observe(&emitted, &script, host_seed, true) {
        Ok(s) => s,
        Err(e) if e.starts_with("interpreter-panic") => {
            out.label("skip:interpreter-panic");
            return Ok(out);
        }
        Err(e) => {
            return Err(Failure::new(
                "output-not-loadable",
                format!("the reference interpreter cannot load the output: {} [{}]", e, origin),
            ))
        }
    };
    if let Some(b2) = &second {
        match exec::observe(b2, &script, host_seed, true) {
            Ok(s2) => {
                if let Cmp::Differ { at, what, detail } = exec::compare_opts(&a, &s2, false) {
                    return Err(Failure::new(
                        format!("second-emit:behaviour-differs:{}", what),
                        format!("the second emit of the same Module: step {}: {} [{}]", at, detail, origin),
                    ));
                }
            }
            Err(e) if e.starts_with("interpreter-panic") => {}
            Err(e) => {
                return Err(Failure::new(
                    "second-emit:output-not-loadable",
                    format!("the second emit of the same Module cannot be loaded: {} [{}]", e, origin),
                ))
            }
        }
    }
    match exec::compare_opts(&a, &b, do_gc) {
        Cmp::Same { steps, completed_calls, touched_state } => {
            out.label("compared:same");
            if a.first().map(|s| s.result.is_err()).unwrap_or(false) {
                out.label("instantiation-fails-on-both");
            }
            let changed = {
                match (crate::decode::decode(&bytes), crate::decode::decode(&emitted)) {
                    (Ok(da), Ok(db)) => {
                        let (mut nops, mut dead, mut ine) = (0, 0, 0);
                        for f in &da.funcs {
                            let (_, st) = crate::iso::canonicalise(&f.ops);
                            nops += st.nops;
                            dead += st.dead_ops;
                            ine += st.if_no_else;
                        }
                        let order_changed = da.funcs.iter().map(|f| f.ops.len()).collect::<Vec<_>>()
                            != db.funcs.iter().map(|f| f.ops.len()).collect::<Vec<_>>();
                        if nops > 0 {
                            out.label("nops-elided");
                        }
                        if dead > 0 {
                            out.label("dead-code-elided");
                        }
                        if ine > 0 {
                            out.label("if-without-else");
                        }
                        if order_changed {
                            out.label("function-layout-changed");
                        }
                        nops > 0 || dead > 0 || ine > 0 || order_changed || do_gc
                    }
                    _ => false,
                }
            };
            out.nontrivial = changed && completed_calls >= 1 && touched_state;
            if completed_calls >= 1 {
                out.label("some-call-completed");
            }
            if out.nontrivial && out.hash % 16 == 0 {
                out.sample = Some(json!({"origin": origin, "bytes": bytes.len(), "steps": steps, "completed_calls": completed_calls,
                    "script": script.iter().take(4).map(|c| format!("{}({:?})", c.export, c.args)).collect::<Vec<_>>()}));
            }
        }
        Cmp::Inconclusive { at } => {
            out.label(format!("inconclusive:{}", a.get(at).or(b.get(at)).map(|s| s.result.clone().err().unwrap_or_default()).unwrap_or_default().split('(').next().unwrap_or("")));
        }
        Cmp::Differ { at, what, detail } => {
            return Err(Failure::new(
                format!("behaviour-differs:{}", what),
                format!("step {}: {} [{}{}]", at, detail, if do_gc { "after gc, " } else { "" }, origin),
            ));
        }
    }
    Ok(out)
}

pub fn check(ctx: &Ctx, input: &Input) -> CaseResult {
    diff_case(ctx, input, false)
}

fn run(ctx: &Ctx) {
    let plans = [GenPlan {
        gen: "exec",
        cases: ctx.tier.pick(25_000, 400_000),
        min_len: 64,
        max_len: ctx.tier.pick(1500, 4000),
    }];
    standard_run(ctx, check, &plans, true);
}
