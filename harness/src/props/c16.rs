//! C16 — IR traversals visit everything exactly once, in order, without
//! recursion.

use super::*;
use crate::optable::validate_walrus;
use crate::wal;
use serde_json::json;
use std::collections::BTreeMap;
use walrus::ir::*;
use walrus::*;

pub fn def() -> PropDef {
    PropDef {
        id: "C16",
        run,
        check,
        meta,
    }
}

fn meta(_ctx: &Ctx) -> EvidenceMeta {
    EvidenceMeta {
        rule: "instruction trees obtained by parsing generated full-profile modules, fixtures and the real corpus (every local function), plus builder-made trees (shared generator with C15), plus depth-10^5 trees traversed on a 256 KiB thread stack in a child process; visitors with (i) only entity hooks overridden (default per-instruction hooks run) and (ii) per-instruction hooks overridden. non-trivial = tree has >=3 nesting levels or an if/else, and >=5 entity operands; distinct by function body. Oracle: recording visitor log vs a reference recursive walk over LocalFunction::block with a hand-written operand table: dfs_in_order = same start/instr/end event sequence; both traversals = per visited instruction the multiset of reported entity ids (local, global, function, table, memory, data, element, type incl. the sequence-level type) equals the reference, each instruction exactly once.".into(),
        assumptions: vec!["the operand table (ids_of) is written by hand from the documented Instr fields, independently of the generated Visit impls".into()],
        level: "exploration",
        exhaustive: false,
    }
}

#[derive(Clone, Debug, PartialEq, Eq, PartialOrd, Ord)]
pub enum IdEv {
    Local(usize),
    Global(usize),
    Func(usize),
    Table(usize),
    Memory(usize),
    Data(usize),
    Elem(usize),
    Type(usize),
    /// a nested instruction sequence named by block / loop / if-else (branch
    /// targets are documented as not visited)
    Seq(usize),
}

#[derive(Clone, Debug, PartialEq, Eq)]
pub enum Ev {
    Start(usize),
    End(usize),
    Instr(String),
    Id(IdEv),
}

fn instr_key(i: &Instr) -> String {
    // a stable, content-based rendering (ids included)
    let s = format!("{:?}", i);
    if s.len() > 120 {
        s[..120].to_string()
    } else {
        s
    }
}

/// hand-written operand table
pub fn ids_of(i: &Instr) -> Vec<IdEv> {
    use IdEv::*;
    match i {
        Instr::Block(b) => vec![Seq(b.seq.index())],
        Instr::Loop(l) => vec![Seq(l.seq.index())],
        Instr::IfElse(ie) => vec![Seq(ie.consequent.index()), Seq(ie.alternative.index())],
        Instr::Call(c) => vec![Func(c.func.index())],
        Instr::CallIndirect(c) => vec![Type(c.ty.index()), Table(c.table.index())],
        Instr::LocalGet(l) => vec![Local(l.local.index())],
        Instr::LocalSet(l) => vec![Local(l.local.index())],
        Instr::LocalTee(l) => vec![Local(l.local.index())],
        Instr::GlobalGet(g) => vec![Global(g.global.index())],
        Instr::GlobalSet(g) => vec![Global(g.global.index())],
        Instr::MemorySize(m) => vec![Memory(m.memory.index())],
        Instr::MemoryGrow(m) => vec![Memory(m.memory.index())],
        Instr::MemoryInit(m) => vec![Memory(m.memory.index()), Data(m.data.index())],
        Instr::DataDrop(d) => vec![Data(d.data.index())],
        Instr::MemoryCopy(m) => vec![Memory(m.src.index()), Memory(m.dst.index())],
        Instr::MemoryFill(m) => vec![Memory(m.memory.index())],
        Instr::Load(m) => vec![Memory(m.memory.index())],
        Instr::Store(m) => vec![Memory(m.memory.index())],
        Instr::AtomicRmw(m) => vec![Memory(m.memory.index())],
        Instr::Cmpxchg(m) => vec![Memory(m.memory.index())],
        Instr::AtomicNotify(m) => vec![Memory(m.memory.index())],
        Instr::AtomicWait(m) => vec![Memory(m.memory.index())],
        Instr::LoadSimd(m) => vec![Memory(m.memory.index())],
        Instr::TableGet(t) => vec![Table(t.table.index())],
        Instr::TableSet(t) => vec![Table(t.table.index())],
        Instr::TableGrow(t) => vec![Table(t.table.index())],
        Instr::TableSize(t) => vec![Table(t.table.index())],
        Instr::TableFill(t) => vec![Table(t.table.index())],
        Instr::RefFunc(f) => vec![Func(f.func.index())],
        Instr::TableInit(t) => vec![Table(t.table.index()), Elem(t.elem.index())],
        Instr::ElemDrop(e) => vec![Elem(e.elem.index())],
        Instr::TableCopy(t) => vec![Table(t.src.index()), Table(t.dst.index())],
        Instr::ReturnCall(c) => vec![Func(c.func.index())],
        Instr::ReturnCallIndirect(c) => vec![Type(c.ty.index()), Table(c.table.index())],
        Instr::Block(_)
        | Instr::Loop(_)
        | Instr::Const(_)
        | Instr::TernOp(_)
        | Instr::Binop(_)
        | Instr::Unop(_)
        | Instr::Select(_)
        | Instr::Unreachable(_)
        | Instr::Br(_)
        | Instr::BrIf(_)
        | Instr::IfElse(_)
        | Instr::BrTable(_)
        | Instr::Drop(_)
        | Instr::Return(_)
        | Instr::AtomicFence(_)
        | Instr::RefNull(_)
        | Instr::RefIsNull(_)
        | Instr::V128Bitselect(_)
        | Instr::I8x16Swizzle(_)
        | Instr::I8x16Shuffle(_) => vec![],
    }
}

fn seq_type_id(s: &InstrSeq) -> Option<IdEv> {
    match s.ty {
        InstrSeqType::MultiValue(t) => Some(IdEv::Type(t.index())),
        _ => None,
    }
}

/// reference: recursive in-order walk
fn reference(f: &LocalFunction, seq: InstrSeqId, out: &mut Vec<Ev>, depth: usize, st: &mut TreeStats) {
    let s = f.block(seq);
    st.max_depth = st.max_depth.max(depth);
    out.push(Ev::Start(seq.index()));
    if let Some(t) = seq_type_id(s) {
        out.push(Ev::Id(t));
        st.ids += 1;
    }
    for (i, _) in s.instrs.iter() {
        out.push(Ev::Instr(instr_key(i)));
        st.instrs += 1;
        let mut ids = ids_of(i);
        ids.sort();
        st.ids += ids.len();
        for id in ids {
            out.push(Ev::Id(id));
        }
        match i {
            Instr::Block(b) => reference(f, b.seq, out, depth + 1, st),
            Instr::Loop(l) => reference(f, l.seq, out, depth + 1, st),
            Instr::IfElse(ie) => {
                st.if_else += 1;
                reference(f, ie.consequent, out, depth + 1, st);
                reference(f, ie.alternative, out, depth + 1, st);
            }
            _ => {}
        }
    }
    out.push(Ev::End(seq.index()));
}

#[derive(Default, Clone, Debug)]
pub struct TreeStats {
    pub instrs: usize,
    pub ids: usize,
    pub max_depth: usize,
    pub if_else: usize,
    pub nested_starts: usize,
}

// ---- recording visitors ----

#[derive(Default)]
struct RecDefault {
    ev: Vec<Ev>,
}
impl<'a> Visitor<'a> for RecDefault {
    fn start_instr_seq(&mut self, s: &'a InstrSeq) {
        self.ev.push(Ev::Start(s.id().index()));
    }
    fn end_instr_seq(&mut self, s: &'a InstrSeq) {
        self.ev.push(Ev::End(s.id().index()));
    }
    fn visit_instr(&mut self, i: &'a Instr, _l: &'a InstrLocId) {
        self.ev.push(Ev::Instr(instr_key(i)));
    }
    fn visit_local_id(&mut self, x: &LocalId) {
        self.ev.push(Ev::Id(IdEv::Local(x.index())));
    }
    fn visit_memory_id(&mut self, x: &MemoryId) {
        self.ev.push(Ev::Id(IdEv::Memory(x.index())));
    }
    fn visit_table_id(&mut self, x: &TableId) {
        self.ev.push(Ev::Id(IdEv::Table(x.index())));
    }
    fn visit_global_id(&mut self, x: &GlobalId) {
        self.ev.push(Ev::Id(IdEv::Global(x.index())));
    }
    fn visit_function_id(&mut self, x: &FunctionId) {
        self.ev.push(Ev::Id(IdEv::Func(x.index())));
    }
    fn visit_data_id(&mut self, x: &DataId) {
        self.ev.push(Ev::Id(IdEv::Data(x.index())));
    }
    fn visit_type_id(&mut self, x: &TypeId) {
        self.ev.push(Ev::Id(IdEv::Type(x.index())));
    }
    fn visit_element_id(&mut self, x: &ElementId) {
        self.ev.push(Ev::Id(IdEv::Elem(x.index())));
    }
    fn visit_instr_seq_id(&mut self, x: &InstrSeqId) {
        self.ev.push(Ev::Id(IdEv::Seq(x.index())));
    }
}

/// same, but a number of per-instruction hooks are overridden (so their
/// default bodies do not run)
#[derive(Default)]
struct RecOverride {
    inner: RecDefault,
    hooks: usize,
}
macro_rules! fwd {
    ($($m:ident : $t:ty),*) => {
        $( fn $m(&mut self, x: &$t) { <RecDefault as Visitor>::$m(&mut self.inner, x) } )*
    };
}
impl<'a> Visitor<'a> for RecOverride {
    fn start_instr_seq(&mut self, s: &'a InstrSeq) {
        self.inner.start_instr_seq(s)
    }
    fn end_instr_seq(&mut self, s: &'a InstrSeq) {
        self.inner.end_instr_seq(s)
    }
    fn visit_instr(&mut self, i: &'a Instr, l: &'a InstrLocId) {
        self.inner.visit_instr(i, l)
    }
    fwd!(visit_local_id: LocalId, visit_memory_id: MemoryId, visit_table_id: TableId, visit_global_id: GlobalId,
         visit_function_id: FunctionId, visit_data_id: DataId, visit_type_id: TypeId, visit_element_id: ElementId,
         visit_instr_seq_id: InstrSeqId);
    fn visit_call(&mut self, _: &Call) {
        self.hooks += 1;
    }
    fn visit_call_indirect(&mut self, _: &CallIndirect) {
        self.hooks += 1;
    }
    fn visit_local_get(&mut self, _: &LocalGet) {
        self.hooks += 1;
    }
    fn visit_local_set(&mut self, _: &LocalSet) {
        self.hooks += 1;
    }
    fn visit_global_get(&mut self, _: &GlobalGet) {
        self.hooks += 1;
    }
    fn visit_load(&mut self, _: &Load) {
        self.hooks += 1;
    }
    fn visit_store(&mut self, _: &Store) {
        self.hooks += 1;
    }
    fn visit_block(&mut self, _: &Block) {
        self.hooks += 1;
    }
    fn visit_if_else(&mut self, _: &IfElse) {
        self.hooks += 1;
    }
    fn visit_memory_copy(&mut self, _: &MemoryCopy) {
        self.hooks += 1;
    }
    fn visit_table_init(&mut self, _: &TableInit) {
        self.hooks += 1;
    }
}

#[derive(Default)]
struct RecMutDefault {
    ev: Vec<Ev>,
}
impl VisitorMut for RecMutDefault {
    fn start_instr_seq_mut(&mut self, s: &mut InstrSeq) {
        self.ev.push(Ev::Start(s.id().index()));
    }
    fn end_instr_seq_mut(&mut self, s: &mut InstrSeq) {
        self.ev.push(Ev::End(s.id().index()));
    }
    fn visit_instr_mut(&mut self, i: &mut Instr, _l: &mut InstrLocId) {
        self.ev.push(Ev::Instr(instr_key(i)));
    }
    fn visit_local_id_mut(&mut self, x: &mut LocalId) {
        self.ev.push(Ev::Id(IdEv::Local(x.index())));
    }
    fn visit_memory_id_mut(&mut self, x: &mut MemoryId) {
        self.ev.push(Ev::Id(IdEv::Memory(x.index())));
    }
    fn visit_table_id_mut(&mut self, x: &mut TableId) {
        self.ev.push(Ev::Id(IdEv::Table(x.index())));
    }
    fn visit_global_id_mut(&mut self, x: &mut GlobalId) {
        self.ev.push(Ev::Id(IdEv::Global(x.index())));
    }
    fn visit_function_id_mut(&mut self, x: &mut FunctionId) {
        self.ev.push(Ev::Id(IdEv::Func(x.index())));
    }
    fn visit_data_id_mut(&mut self, x: &mut DataId) {
        self.ev.push(Ev::Id(IdEv::Data(x.index())));
    }
    fn visit_type_id_mut(&mut self, x: &mut TypeId) {
        self.ev.push(Ev::Id(IdEv::Type(x.index())));
    }
    fn visit_element_id_mut(&mut self, x: &mut ElementId) {
        self.ev.push(Ev::Id(IdEv::Elem(x.index())));
    }
    fn visit_instr_seq_id_mut(&mut self, x: &mut InstrSeqId) {
        self.ev.push(Ev::Id(IdEv::Seq(x.index())));
    }
}

#[derive(Default)]
struct RecMutOverride {
    inner: RecMutDefault,
}
macro_rules! fwd_mut {
    ($($m:ident : $t:ty),*) => {
        $( fn $m(&mut self, x: &mut $t) { <RecMutDefault as VisitorMut>::$m(&mut self.inner, x) } )*
    };
}
impl VisitorMut for RecMutOverride {
    fn start_instr_seq_mut(&mut self, s: &mut InstrSeq) {
        self.inner.start_instr_seq_mut(s)
    }
    fn end_instr_seq_mut(&mut self, s: &mut InstrSeq) {
        self.inner.end_instr_seq_mut(s)
    }
    fn visit_instr_mut(&mut self, i: &mut Instr, l: &mut InstrLocId) {
        self.inner.visit_instr_mut(i, l)
    }
    fwd_mut!(visit_local_id_mut: LocalId, visit_memory_id_mut: MemoryId, visit_table_id_mut: TableId,
             visit_global_id_mut: GlobalId, visit_function_id_mut: FunctionId, visit_data_id_mut: DataId,
             visit_type_id_mut: TypeId, visit_element_id_mut: ElementId, visit_instr_seq_id_mut: InstrSeqId);
    fn visit_call_mut(&mut self, _: &mut Call) {}
    fn visit_local_get_mut(&mut self, _: &mut LocalGet) {}
    fn visit_local_set_mut(&mut self, _: &mut LocalSet) {}
    fn visit_global_get_mut(&mut self, _: &mut GlobalGet) {}
    fn visit_load_mut(&mut self, _: &mut Load) {}
    fn visit_store_mut(&mut self, _: &mut Store) {}
    fn visit_memory_copy_mut(&mut self, _: &mut MemoryCopy) {}
}

/// Split an event log into (structure events, per-instruction id multisets).
fn split(ev: &[Ev]) -> (Vec<Ev>, Vec<(String, Vec<IdEv>)>) {
    let mut structure = Vec::new();
    let mut per: Vec<(String, Vec<IdEv>)> = Vec::new();
    for e in ev {
        match e {
            Ev::Start(s) => {
                structure.push(e.clone());
                per.push((format!("<seq {}>", s), vec![]));
            }
            Ev::End(_) => {
                structure.push(e.clone());
                // ids after an End would be misplaced: attach to a marker
                per.push(("<end>".into(), vec![]));
            }
            Ev::Instr(k) => {
                structure.push(e.clone());
                per.push((k.clone(), vec![]));
            }
            Ev::Id(id) => {
                if let Some(last) = per.last_mut() {
                    last.1.push(id.clone());
                } else {
                    per.push(("<before-start>".into(), vec![id.clone()]));
                }
            }
        }
    }
    for p in per.iter_mut() {
        p.1.sort();
    }
    (structure, per)
}

pub fn check_function(f: &mut LocalFunction, origin: &str) -> Result<TreeStats, Failure> {
    let entry = f.entry_block();
    let mut st = check_from(f, entry, origin, "")?;
    // the traversals take the sequence to start from: started at a nested
    // sequence they must cover exactly that subtree
    let mut nested = Vec::new();
    nested_seqs(f, entry, &mut nested);
    if !nested.is_empty() {
        let mut picks = vec![nested[0], nested[nested.len() / 2], nested[nested.len() - 1]];
        picks.dedup();
        for id in picks {
            check_from(f, id, origin, ":nested-start")?;
            st.nested_starts += 1;
        }
    }
    // a traversal started from inside a visitor callback (analyses that walk
    // a callee when they meet a call do this) is a traversal like any other
    if st.instrs < 2000 {
        struct Reenter<'f> {
            f: &'f LocalFunction,
            done: bool,
            inner: Vec<Ev>,
        }
        impl<'a, 'f> Visitor<'a> for Reenter<'f> {
            fn start_instr_seq(&mut self, _s: &'a InstrSeq) {
                if !self.done {
                    self.done = true;
                    let mut v = RecDefault::default();
                    dfs_in_order(&mut v, self.f, self.f.entry_block());
                    self.inner = v.ev;
                }
            }
        }
        let mut refev = Vec::new();
        reference(f, entry, &mut refev, 1, &mut TreeStats::default());
        let inner = {
            let fr: &LocalFunction = f;
            let mut v = Reenter { f: fr, done: false, inner: vec![] };
            guard("dfs_in_order", || dfs_in_order(&mut v, fr, entry)).map_err(|e| {
                Failure::new("dfs_in_order:nested-traversal-panicked", format!("a traversal started from start_instr_seq of another traversal panicked: {} [{}]", e.detail, origin))
            })?;
            v.inner
        };
        if split(&inner).0 != split(&refev).0 {
            return Err(Failure::new(
                "dfs_in_order:nested-traversal-differs",
                format!("a traversal started from inside a visitor callback reports {} events, the reference walk {} [{}]", inner.len(), refev.len(), origin),
            ));
        }
    }
    // last, because it rewrites the function
    if st.instrs < 2000 {
        check_write_through(f, origin)?;
    }
    Ok(st)
}

/// The mutable traversal hands out the operands themselves: a visitor that
/// overwrites every operand of a kind with one fixed id of that kind must find
/// exactly that afterwards (read directly from the instruction fields).
fn check_write_through(f: &mut LocalFunction, origin: &str) -> Result<(), Failure> {
    let entry = f.entry_block();
    let mut before = Vec::new();
    reference(f, entry, &mut before, 1, &mut TreeStats::default());
    let mut first: std::collections::HashMap<u8, IdEv> = std::collections::HashMap::new();
    let kind = |e: &IdEv| -> u8 {
        match e {
            IdEv::Local(_) => 0,
            IdEv::Global(_) => 1,
            IdEv::Func(_) => 2,
            IdEv::Table(_) => 3,
            IdEv::Memory(_) => 4,
            IdEv::Data(_) => 5,
            IdEv::Elem(_) => 6,
            IdEv::Type(_) => 7,
            IdEv::Seq(_) => 8,
        }
    };
    for e in &before {
        if let Ev::Id(id) = e {
            first.entry(kind(id)).or_insert_with(|| id.clone());
        }
    }
    // the ids themselves, taken from the function, to write back
    #[derive(Default)]
    struct Collect {
        local: Option<LocalId>,
        global: Option<GlobalId>,
        func: Option<FunctionId>,
        table: Option<TableId>,
        memory: Option<MemoryId>,
        data: Option<DataId>,
        elem: Option<ElementId>,
        ty: Option<TypeId>,
        write: bool,
    }
    impl VisitorMut for Collect {
        fn visit_local_id_mut(&mut self, x: &mut LocalId) {
            match (self.write, self.local) {
                (true, Some(v)) => *x = v,
                (false, None) => self.local = Some(*x),
                _ => {}
            }
        }
        fn visit_global_id_mut(&mut self, x: &mut GlobalId) {
            match (self.write, self.global) {
                (true, Some(v)) => *x = v,
                (false, None) => self.global = Some(*x),
                _ => {}
            }
        }
        fn visit_function_id_mut(&mut self, x: &mut FunctionId) {
            match (self.write, self.func) {
                (true, Some(v)) => *x = v,
                (false, None) => self.func = Some(*x),
                _ => {}
            }
        }
        fn visit_table_id_mut(&mut self, x: &mut TableId) {
            match (self.write, self.table) {
                (true, Some(v)) => *x = v,
                (false, None) => self.table = Some(*x),
                _ => {}
            }
        }
        fn visit_memory_id_mut(&mut self, x: &mut MemoryId) {
            match (self.write, self.memory) {
                (true, Some(v)) => *x = v,
                (false, None) => self.memory = Some(*x),
                _ => {}
            }
        }
        fn visit_data_id_mut(&mut self, x: &mut DataId) {
            match (self.write, self.data) {
                (true, Some(v)) => *x = v,
                (false, None) => self.data = Some(*x),
                _ => {}
            }
        }
        fn visit_element_id_mut(&mut self, x: &mut ElementId) {
            match (self.write, self.elem) {
                (true, Some(v)) => *x = v,
                (false, None) => self.elem = Some(*x),
                _ => {}
            }
        }
        fn visit_type_id_mut(&mut self, x: &mut TypeId) {
            match (self.write, self.ty) {
                (true, Some(v)) => *x = v,
                (false, None) => self.ty = Some(*x),
                _ => {}
            }
        }
    }
    let mut col = Collect::default();
    guard("dfs_pre_order_mut", || dfs_pre_order_mut(&mut col, f, entry))?;
    col.write = true;
    guard("dfs_pre_order_mut", || dfs_pre_order_mut(&mut col, f, entry))?;
    let chosen: Vec<(u8, Option<usize>)> = vec![
        (0, col.local.map(|x| x.index())),
        (1, col.global.map(|x| x.index())),
        (2, col.func.map(|x| x.index())),
        (3, col.table.map(|x| x.index())),
        (4, col.memory.map(|x| x.index())),
        (5, col.data.map(|x| x.index())),
        (6, col.elem.map(|x| x.index())),
        (7, col.ty.map(|x| x.index())),
    ];
    let mut after = Vec::new();
    reference(f, entry, &mut after, 1, &mut TreeStats::default());
    for e in &after {
        if let Ev::Id(id) = e {
            let k = kind(id);
            if k == 8 {
                continue;
            }
            let idx = match id {
                IdEv::Local(i) | IdEv::Global(i) | IdEv::Func(i) | IdEv::Table(i) | IdEv::Memory(i) | IdEv::Data(i) | IdEv::Elem(i) | IdEv::Type(i) | IdEv::Seq(i) => *i,
            };
            if let Some((_, Some(want))) = chosen.iter().find(|(kk, _)| *kk == k) {
                if idx != *want {
                    return Err(Failure::new(
                        "dfs_pre_order_mut:write-through-lost",
                        format!("a visitor overwrote every operand of this kind with index {}, yet {:?} is still in the function afterwards: the traversal handed out a copy [{}]", want, id, origin),
                    ));
                }
            }
        }
    }
    Ok(())
}

fn nested_seqs(f: &LocalFunction, seq: InstrSeqId, out: &mut Vec<InstrSeqId>) {
    if out.len() > 4096 {
        return;
    }
    for (i, _) in f.block(seq).instrs.iter() {
        let subs: Vec<InstrSeqId> = match i {
            Instr::Block(b) => vec![b.seq],
            Instr::Loop(l) => vec![l.seq],
            Instr::IfElse(ie) => vec![ie.consequent, ie.alternative],
            _ => vec![],
        };
        for s in subs {
            out.push(s);
            nested_seqs(f, s, out);
        }
    }
}

fn check_from(f: &mut LocalFunction, entry: InstrSeqId, origin: &str, tag: &str) -> Result<TreeStats, Failure> {
    let mut st = TreeStats::default();
    let mut refev = Vec::new();
    reference(f, entry, &mut refev, 1, &mut st);
    let (ref_structure, ref_per) = split(&refev);

    // immutable traversal, both visitor styles
    for style in ["default-hooks", "overridden-hooks"] {
        let ev = if style == "default-hooks" {
            let mut v = RecDefault::default();
            guard("dfs_in_order", || dfs_in_order(&mut v, f, entry))?;
            v.ev
        } else {
            let mut v = RecOverride::default();
            guard("dfs_in_order", || dfs_in_order(&mut v, f, entry))?;
            v.inner.ev
        };
        let (structure, per) = split(&ev);
        if structure != ref_structure {
            let i = structure
                .iter()
                .zip(ref_structure.iter())
                .position(|(a, b)| a != b)
                .unwrap_or(structure.len().min(ref_structure.len()));
            return Err(Failure::new(
                format!("dfs_in_order:{}:event-sequence{}", style, tag),
                format!(
                    "event #{}: traversal {:?} vs reference {:?} ({} vs {} events) [{}]",
                    i,
                    structure.get(i),
                    ref_structure.get(i),
                    structure.len(),
                    ref_structure.len(),
                    origin
                ),
            ));
        }
        if per != ref_per {
            let i = per.iter().zip(ref_per.iter()).position(|(a, b)| a != b).unwrap_or(0);
            let (got, want) = (&per[i], &ref_per[i]);
            let kind = if got.1.len() > want.1.len() {
                "id-reported-more-than-once"
            } else if got.1.len() < want.1.len() {
                "id-not-reported"
            } else {
                "wrong-id-reported"
            };
            return Err(Failure::new(
                format!("dfs_in_order:{}:{}{}", style, kind, tag),
                format!("at {}: reported ids {:?}, reference {:?} [{}]", got.0, got.1, want.1, origin),
            ));
        }
    }

    // mutable traversal: multiset of (instruction, ids), and every sequence once
    let mut want: BTreeMap<(String, Vec<IdEv>), usize> = BTreeMap::new();
    for p in ref_per.iter().filter(|p| p.0 != "<end>") {
        *want.entry(p.clone()).or_insert(0) += 1;
    }
    for style in ["default-hooks", "overridden-hooks"] {
        let ev = if style == "default-hooks" {
            let mut v = RecMutDefault::default();
            guard("dfs_pre_order_mut", || dfs_pre_order_mut(&mut v, f, entry))?;
            v.ev
        } else {
            let mut v = RecMutOverride::default();
            guard("dfs_pre_order_mut", || dfs_pre_order_mut(&mut v, f, entry))?;
            v.inner.ev
        };
        let (_, per) = split(&ev);
        let mut got: BTreeMap<(String, Vec<IdEv>), usize> = BTreeMap::new();
        for p in per.iter().filter(|p| p.0 != "<end>") {
            *got.entry(p.clone()).or_insert(0) += 1;
        }
        if got != want {
            // find a differing key
            let mut detail = String::new();
            let mut kind = "mismatch";
            for (k, n) in want.iter() {
                let g = got.get(k).copied().unwrap_or(0);
                if g != *n {
                    // is there a got-key with the same instruction but other ids?
                    let alt: Vec<&(String, Vec<IdEv>)> = got.keys().filter(|x| x.0 == k.0 && !want.contains_key(*x)).collect();
                    if let Some(a) = alt.first() {
                        kind = if a.1.len() > k.1.len() {
                            "id-reported-more-than-once"
                        } else if a.1.len() < k.1.len() {
                            "id-not-reported"
                        } else {
                            "wrong-id-reported"
                        };
                        detail = format!("at {}: reported ids {:?}, reference {:?}", k.0, a.1, k.1);
                    } else {
                        kind = if g < *n { "instruction-not-visited" } else { "instruction-visited-twice" };
                        detail = format!("{} visited {} times, reference {}", k.0, g, n);
                    }
                    break;
                }
            }
            if detail.is_empty() {
                kind = "extra-visit";
                detail = "traversal reported instructions or sequences the reference walk does not reach".into();
            }
            return Err(Failure::new(
                format!("dfs_pre_order_mut:{}:{}{}", style, kind, tag),
                format!("{} [{}]", detail, origin),
            ));
        }
    }
    Ok(st)
}

pub fn check(_ctx: &Ctx, input: &Input) -> CaseResult {
    let mut out = CaseOut::default();
    if let Input::Json(v) = input {
        if let Some(k) = v.get("deep").and_then(|x| x.as_str()) {
            return deep_case(k);
        }
        return Ok(out);
    }
    if let Input::Choices { gen, bytes } = input {
        if gen == "builder" {
            // builder-made trees (generator shared with C15)
            let mut case = super::c15::build_case(bytes);
            out.hash = fnv(bytes);
            let fid = case.func;
            let lf = case.module.funcs.get_mut(fid).kind.unwrap_local_mut();
            let st = check_function(lf, "builder")?;
            out.nontrivial = (st.max_depth >= 3 || st.if_else > 0) && st.ids >= 5;
            out.label("source:builder");
            return Ok(out);
        }
    }
    let p = match prepare(input) {
        Some(p) => p,
        None => return Ok(out),
    };
    out.hash = fnv(&p.bytes);
    if validate_walrus(&p.bytes).is_err() {
        out.label("skip:input-invalid");
        return Ok(out);
    }
    let mut m = match wal::parse(&p.bytes, &wal::Cfg::plain().to_config()) {
        Ok(Ok(m)) => m,
        _ => {
            out.label("skip:walrus-rejected(C05)");
            return Ok(out);
        }
    };
    let mut total = TreeStats::default();
    let mut nt = false;
    for (id, lf) in m.funcs.iter_local_mut() {
        let st = check_function(lf, &format!("{} func {}", p.origin, id.index()))?;
        if (st.max_depth >= 3 || st.if_else > 0) && st.ids >= 5 {
            nt = true;
        }
        total.instrs += st.instrs;
        total.ids += st.ids;
        total.max_depth = total.max_depth.max(st.max_depth);
        total.if_else += st.if_else;
        total.nested_starts += st.nested_starts;
    }
    out.nontrivial = nt;
    out.label("source:parsed");
    if nt {
        out.sample = Some(json!({"origin": p.origin, "instructions": total.instrs, "entity_operands": total.ids, "max_depth": total.max_depth, "if_else": total.if_else, "traversals_started_at_nested_sequences": total.nested_starts}));
    }
    Ok(out)
}

// ---- depth 10^5 on a small stack, in a child process ----

#[derive(Default)]
struct Count(usize);
impl<'a> Visitor<'a> for Count {
    fn visit_instr(&mut self, _: &'a Instr, _: &'a InstrLocId) {
        self.0 += 1;
        if self.0 > 2_000_000 {
            // a traversal that re-reports instructions forever
            println!("runaway");
            std::process::exit(5);
        }
    }
}
#[derive(Default)]
struct CountMut(usize);
impl VisitorMut for CountMut {
    fn visit_instr_mut(&mut self, _: &mut Instr, _: &mut InstrLocId) {
        self.0 += 1;
        if self.0 > 2_000_000 {
            println!("runaway");
            std::process::exit(5);
        }
    }
}

pub fn child_main(kind: &str) -> i32 {
    let bytes = super::c05::deep_module_pub(kind);
    let mut m = match walrus::Module::from_buffer(&bytes) {
        Ok(m) => m,
        Err(_) => {
            println!("rejected");
            return 0;
        }
    };
    let r = std::thread::Builder::new()
        .stack_size(256 * 1024)
        .spawn(move || {
            let mut n_in = 0usize;
            let mut n_mut = 0usize;
            for (_, lf) in m.funcs.iter_local_mut() {
                let entry = lf.entry_block();
                let mut v = Count::default();
                dfs_in_order(&mut v, lf, entry);
                n_in += v.0;
                let mut v = CountMut::default();
                dfs_pre_order_mut(&mut v, lf, entry);
                n_mut += v.0;
            }
            // leak the module: dropping is not under test here
            std::mem::forget(m);
            (n_in, n_mut)
        })
        .unwrap()
        .join();
    match r {
        Ok((a, b)) => {
            println!("visited {} {}", a, b);
            0
        }
        Err(_) => 4,
    }
}

fn deep_case(kind: &str) -> CaseResult {
    use std::os::unix::process::ExitStatusExt;
    let mut out = CaseOut::default();
    out.hash = fnv(kind.as_bytes());
    let exe = match std::env::current_exe() {
        Ok(e) => e,
        Err(_) => return Ok(out),
    };
    let o = std::process::Command::new(exe).arg("traverse-child").arg(kind).output();
    let o = match o {
        Ok(o) => o,
        Err(_) => return Ok(out),
    };
    let stdout = String::from_utf8_lossy(&o.stdout).to_string();
    if let Some(sig) = o.status.signal() {
        return Err(Failure::new(
            format!("deep-traversal:{}:killed-by-signal", kind),
            format!("traversing the depth-10^5 '{}' tree on a 256 KiB stack died with signal {}", kind, sig),
        ));
    }
    if o.status.code() == Some(5) {
        return Err(Failure::new(
            format!("deep-traversal:{}:runaway", kind),
            format!("traversal of the '{}' tree reported more than 2*10^6 instructions (tree has far fewer): it re-reports instructions / does not terminate", kind),
        ));
    }
    if o.status.code() != Some(0) {
        return Err(Failure::new(
            format!("deep-traversal:{}:panicked", kind),
            format!("child exit {:?}, stdout {:?}", o.status.code(), stdout),
        ));
    }
    // expected instruction counts by construction
    let n = 100_000usize;
    let want = match kind {
        "blocks" | "loops" => n,
        "ifs" => 2 * n,
        "wide" => 70_005,
        _ => 0,
    };
    let nums: Vec<usize> = stdout.split_whitespace().filter_map(|x| x.parse().ok()).collect();
    if nums.len() == 2 && want > 0 && (nums[0] != want || nums[1] != want) {
        return Err(Failure::new(
            format!("deep-traversal:{}:count", kind),
            format!("visited {:?} instructions, expected {} in both traversals", nums, want),
        ));
    }
    out.nontrivial = true;
    out.label(format!("deep:{}", kind));
    out.sample = Some(json!({"deep": kind, "child": stdout.trim(), "thread_stack": "256KiB"}));
    Ok(out)
}

fn run(ctx: &Ctx) {
    let deep: Vec<Input> = ["blocks", "loops", "ifs", "wide"].iter().map(|k| Input::Json(json!({ "deep": k }))).collect();
    run_inputs(ctx, &deep, &check);
    let plans = [
        GenPlan {
            gen: "full-nobig",
            cases: ctx.tier.pick(80_000, 800_000),
            min_len: 0,
            max_len: ctx.tier.pick(1500, 3000),
        },
        GenPlan {
            gen: "builder",
            cases: ctx.tier.pick(60_000, 600_000),
            min_len: 0,
            max_len: 600,
        },
    ];
    standard_run(ctx, check, &plans, true);
}
