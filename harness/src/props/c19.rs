//! C19 — index maps exposed to extension code agree with the binaries.

use super::*;
use crate::decode::{decode, ImportKind, ModuleD};
use crate::iso::Iso;
use crate::ops::VT;
use crate::optable::validate_walrus;
use crate::spy;
use crate::wal;
use serde_json::json;
use walrus::*;

pub fn def() -> PropDef {
    PropDef {
        id: "C19",
        run,
        check,
        meta,
    }
}

fn meta(_ctx: &Ctx) -> EvidenceMeta {
    EvidenceMeta {
        rule: "accepted modules (generated full profile with tagged functions, fixtures, real corpus) x {plain, GC, synthetic names for anonymous items}; non-trivial = imports of >=2 kinds precede local entities and >=1 function changed index between input and output; distinct by module bytes. Oracle: (parse time, inside on_parse) for every index of every index space (functions, types, tables, memories, globals, elements, data, locals per function) the returned id is resolved through the public Module accessors and its content must equal what the independent decode finds at that index; out-of-range indices must be errors. (emit time, inside CustomSection::data) for every live id the index returned by IdsToIndices must be the image of its input index under the independently verified renumbering bijection (types: same signature at that index).".into(),
        assumptions: vec!["LocalFunction::original_range is used as the identity witness of a parsed body".into()],
        level: "exploration",
        exhaustive: false,
    }
}

fn vt(t: ValType) -> VT {
    match t {
        ValType::I32 => VT::I32,
        ValType::I64 => VT::I64,
        ValType::F32 => VT::F32,
        ValType::F64 => VT::F64,
        ValType::V128 => VT::V128,
        ValType::Ref(RefType::Funcref) => VT::FuncRef,
        ValType::Ref(_) => VT::ExternRef,
    }
}

fn bad(what: &str, detail: String) -> Failure {
    Failure::new(format!("parse-map:{}", what), detail)
}

fn check_parse_side(m: &Module, ids: &spy::ParseIds, d: &ModuleD, origin: &str) -> Result<(), Failure> {
    if let Some(b) = ids.out_of_range_ok.first() {
        return Err(bad("out-of-range-index-answered", format!("{} [{}]", b, origin)));
    }
    let counts = [
        ("functions", ids.funcs.len(), d.n_funcs() as usize),
        ("types", ids.types.len(), d.types.len()),
        ("tables", ids.tables.len(), d.n_tables() as usize),
        ("memories", ids.mems.len(), d.n_mems() as usize),
        ("globals", ids.globals.len(), d.n_globals() as usize),
        ("elements", ids.elems.len(), d.elems.len()),
        ("data", ids.datas.len(), d.datas.len()),
    ];
    for (what, got, want) in counts {
        if got != want {
            return Err(bad(
                &format!("{}-count", what),
                format!("the map answers {} {} indices, the input defines {} [{}]", got, what, want, origin),
            ));
        }
    }
    let cs = d.code_section_start.unwrap_or(0);
    // functions
    for (i, id) in ids.funcs.iter().enumerate() {
        let f = m.funcs.get(*id);
        let sig = d.func_sig(i as u32).cloned().unwrap();
        let ty = m.types.get(f.ty());
        let got = (
            ty.params().iter().map(|t| vt(*t)).collect::<Vec<_>>(),
            ty.results().iter().map(|t| vt(*t)).collect::<Vec<_>>(),
        );
        if got != (sig.params.clone(), sig.results.clone()) {
            return Err(bad(
                "function-signature",
                format!("function index {} resolves to a function of type {:?}, the input has {:?} [{}]", i, got, sig, origin),
            ));
        }
        match (&f.kind, d.body(i as u32)) {
            (FunctionKind::Import(imp), None) => {
                let want = &d.imports[d.imp_funcs[i]];
                let got = m.imports.get(imp.import);
                if got.module != want.module || got.name != want.name {
                    return Err(bad(
                        "function-import",
                        format!("function index {} resolves to import {}.{}, the input has {}.{} [{}]", i, got.module, got.name, want.module, want.name, origin),
                    ));
                }
            }
            (FunctionKind::Local(lf), Some(body)) => {
                let want = (body.entry_range.start - cs)..(body.entry_range.end - cs);
                // identity witness: the recorded source range must be this
                // body's (it may or may not include the size LEB)
                let ok = match &lf.original_range {
                    Some(r) => r.end == want.end && r.start >= want.start && r.start <= body.body_range.start - cs,
                    None => true,
                };
                if !ok {
                    return Err(bad(
                        "function-body",
                        format!("function index {} resolves to a function parsed from code range {:?}, the input's body {} is at {:?} [{}]", i, lf.original_range, i, want, origin),
                    ));
                }
                // locals
                let np = sig.params.len();
                let all: Vec<VT> = sig.params.iter().copied().chain(body.locals.iter().copied()).collect();
                let ls = &ids.locals[i];
                if ls.len() != all.len() {
                    return Err(bad(
                        "locals-count",
                        format!("function {}: the map answers {} local indices, the input declares {} [{}]", i, ls.len(), all.len(), origin),
                    ));
                }
                for (l, lid) in ls.iter().enumerate() {
                    if vt(m.locals.get(*lid).ty()) != all[l] {
                        return Err(bad(
                            "local-type",
                            format!("function {} local {}: id has type {:?}, the input declares {:?} [{}]", i, l, m.locals.get(*lid).ty(), all[l], origin),
                        ));
                    }
                    if l < np && lf.args.get(l) != Some(lid) {
                        return Err(bad(
                            "local-param-position",
                            format!("function {} local index {} is parameter {}, but the id is not args[{}] [{}]", i, l, l, l, origin),
                        ));
                    }
                }
                let mut uniq: Vec<LocalId> = ls.clone();
                uniq.sort();
                uniq.dedup();
                if uniq.len() != ls.len() {
                    return Err(bad("local-ids-not-distinct", format!("function {} [{}]", i, origin)));
                }
            }
            _ => {
                return Err(bad(
                    "function-kind",
                    format!("function index {}: imported/local kind differs from the input [{}]", i, origin),
                ))
            }
        }
    }
    // types
    for (i, id) in ids.types.iter().enumerate() {
        let t = m.types.get(*id);
        let got = (
            t.params().iter().map(|t| vt(*t)).collect::<Vec<_>>(),
            t.results().iter().map(|t| vt(*t)).collect::<Vec<_>>(),
        );
        let want = &d.types[i];
        if got != (want.params.clone(), want.results.clone()) {
            return Err(bad("type", format!("type index {} resolves to {:?}, the input has {:?} [{}]", i, got, want, origin)));
        }
    }
    // tables
    for (i, id) in ids.tables.iter().enumerate() {
        let t = m.tables.get(*id);
        let want = d.table_ty(i as u32).unwrap();
        let elem = if t.element_ty == RefType::Funcref { VT::FuncRef } else { VT::ExternRef };
        let imported = i < d.imp_tables.len();
        if (elem, t.table64, t.initial, t.maximum, t.import.is_some()) != (want.elem, want.table64, want.initial, want.maximum, imported) {
            return Err(bad("table", format!("table index {} resolves to {:?}, the input has {:?} [{}]", i, t, want, origin)));
        }
        if imported {
            let wi = &d.imports[d.imp_tables[i]];
            let gi = m.imports.get(t.import.unwrap());
            if gi.module != wi.module || gi.name != wi.name {
                return Err(bad("table-import", format!("table index {} [{}]", i, origin)));
            }
        }
    }
    for (i, id) in ids.mems.iter().enumerate() {
        let t = m.memories.get(*id);
        let want = d.mem_ty(i as u32).unwrap();
        let imported = i < d.imp_mems.len();
        if (t.shared, t.memory64, t.initial, t.maximum, t.import.is_some()) != (want.shared, want.memory64, want.initial, want.maximum, imported) {
            return Err(bad("memory", format!("memory index {} resolves to {:?}, the input has {:?} [{}]", i, t, want, origin)));
        }
        if imported {
            let wi = &d.imports[d.imp_mems[i]];
            let gi = m.imports.get(t.import.unwrap());
            if gi.module != wi.module || gi.name != wi.name {
                return Err(bad("memory-import", format!("memory index {} [{}]", i, origin)));
            }
        }
    }
    for (i, id) in ids.globals.iter().enumerate() {
        let g = m.globals.get(*id);
        let want = d.global_ty(i as u32).unwrap();
        let imported = i < d.imp_globals.len();
        let is_imp = matches!(g.kind, GlobalKind::Import(_));
        if (vt(g.ty), g.mutable, is_imp) != (want.ty, want.mutable, imported) {
            return Err(bad("global", format!("global index {} resolves to {:?}, the input has {:?} [{}]", i, g, want, origin)));
        }
        match &g.kind {
            GlobalKind::Import(imp) => {
                let wi = &d.imports[d.imp_globals[i]];
                let gi = m.imports.get(*imp);
                if gi.module != wi.module || gi.name != wi.name || !matches!(wi.kind, ImportKind::Global(_)) {
                    return Err(bad("global-import", format!("global index {} [{}]", i, origin)));
                }
            }
            GlobalKind::Local(init) => {
                let want_init = &d.globals[i - d.imp_globals.len()].init;
                let opname = want_init.first().map(|o| o.name).unwrap_or("");
                let ok = match init {
                    ConstExpr::Value(ir::Value::I32(_)) => opname == "I32Const",
                    ConstExpr::Value(ir::Value::I64(_)) => opname == "I64Const",
                    ConstExpr::Value(ir::Value::F32(_)) => opname == "F32Const",
                    ConstExpr::Value(ir::Value::F64(_)) => opname == "F64Const",
                    ConstExpr::Value(ir::Value::V128(_)) => opname == "V128Const",
                    ConstExpr::Global(_) => opname == "GlobalGet",
                    ConstExpr::RefNull(_) => opname == "RefNull",
                    ConstExpr::RefFunc(_) => opname == "RefFunc",
                };
                if !ok {
                    return Err(bad("global-init", format!("global index {}: {:?} vs {:?} [{}]", i, init, want_init, origin)));
                }
            }
        }
    }
    for (i, id) in ids.elems.iter().enumerate() {
        let e = m.elements.get(*id);
        let want = &d.elems[i];
        let n = match &e.items {
            ElementItems::Functions(v) => v.len(),
            ElementItems::Expressions(_, v) => v.len(),
        };
        let kind_ok = matches!(
            (&e.kind, &want.mode),
            (ElementKind::Passive, crate::decode::ElemMode::Passive)
                | (ElementKind::Declared, crate::decode::ElemMode::Declared)
                | (ElementKind::Active { .. }, crate::decode::ElemMode::Active { .. })
        );
        if n != want.len() || !kind_ok {
            return Err(bad("element", format!("element index {} resolves to {:?}, the input has {:?} [{}]", i, e, want, origin)));
        }
    }
    for (i, id) in ids.datas.iter().enumerate() {
        let x = m.data.get(*id);
        let want = &d.datas[i];
        let kind_ok = matches!(
            (&x.kind, &want.mode),
            (DataKind::Passive, crate::decode::DataMode::Passive) | (DataKind::Active { .. }, crate::decode::DataMode::Active { .. })
        );
        if x.value != want.bytes || !kind_ok {
            return Err(bad("data", format!("data index {} resolves to a segment of {} bytes, the input has {} bytes [{}]", i, x.value.len(), want.bytes.len(), origin)));
        }
    }
    Ok(())
}

pub fn check(_ctx: &Ctx, input: &Input) -> CaseResult {
    let mut out = CaseOut::default();
    let p = match prepare(input) {
        Some(p) => p,
        None => return Ok(out),
    };
    out.hash = fnv(&p.bytes);
    if validate_walrus(&p.bytes).is_err() {
        out.label("skip:input-invalid");
        return Ok(out);
    }
    let da = match decode(&p.bytes) {
        Ok(d) => d,
        Err(_) => return Ok(out),
    };
    let hint: Vec<usize> = (0..da.n_funcs())
        .map(|f| da.func_sig(f).map(|s| s.params.len()).unwrap_or(0) + da.body(f).map(|b| b.locals.len()).unwrap_or(0))
        .collect();
    if hint.iter().any(|n| *n > 5000) {
        out.label("skip:huge-local-count");
        return Ok(out);
    }
    let mut moved = false;
    // the maps must not depend on configuration switches either: the third
    // pass names anonymous items synthetically
    // the fourth pass replaces the first imported function by a local body
    // before emitting (its id stays, its index moves behind the imports)
    // the fifth pass adds a module-defined memory and then an imported one
    // through the API (the imported one is emitted first)
    // the sixth pass gives the observing section a tool-convention name
    for (do_gc, synthetic, replace, add_mems, spy_name) in [
        (false, false, false, false, "verif-spy"),
        (true, false, false, false, "verif-spy"),
        (false, true, false, false, "verif-spy"),
        (false, false, true, false, "verif-spy"),
        (false, false, false, true, "verif-spy"),
        (false, false, false, false, "dylink.0"),
    ] {
        if replace && da.imp_funcs.is_empty() {
            continue;
        }
        let mut cfg = wal::Cfg { synthetic_names: synthetic, ..wal::Cfg::plain() }.to_config();
        let shared = spy::install_named(&mut cfg, hint.clone(), spy_name);
        let mut m = match wal::parse(&p.bytes, &cfg) {
            Ok(Ok(m)) => m,
            Ok(Err(_)) => {
                out.label("skip:walrus-rejected(C05)");
                return Ok(out);
            }
            Err(f) => {
                // a panic inside on_parse's own queries is a map defect
                return Err(Failure::new(format!("parse-map:{}", f.signature), format!("{} [{}]", f.detail, p.origin)));
            }
        };
        let ids = match shared.parse_ids.lock().unwrap().clone() {
            Some(i) => i,
            None => return Err(Failure::new("on_parse-not-invoked", p.origin.clone())),
        };
        if !do_gc || synthetic {
            guard("accessors", || check_parse_side(&m, &ids, &da, &p.origin)).map_err(|f| {
                Failure::new(format!("parse-map:dead-or-foreign-id:{}", f.signature), format!("{} [{}]", f.detail, p.origin))
            })??;
        }
        if do_gc && wal::gc(&mut m).is_err() {
            out.label("skip:gc-panic(C02)");
            continue;
        }
        if replace {
            let fid = ids.funcs[0];
            let r = guard("replace_imported_func", || {
                m.replace_imported_func(fid, |(b, _)| {
                    b.unreachable();
                })
                .is_ok()
            });
            if !matches!(r, Ok(true)) {
                continue; // C18's business
            }
        }
        let mut added: Option<(MemoryId, MemoryId)> = None;
        if add_mems {
            let r = guard("edit", || {
                let a = m.memories.add_local(false, false, 7, None, None);
                let (b, _) = m.add_import_memory("edit", "verif_mem", false, false, 5, None, None);
                (a, b)
            });
            match r {
                Ok(x) => added = Some(x),
                Err(_) => continue,
            }
        }
        spy::ask_about_live(&shared, &m);
        if let Some((a, b)) = added {
            if let Some(ask) = shared.ask.lock().unwrap().as_mut() {
                ask.mems.push((a, 0));
                ask.mems.push((b, 0));
            }
        }
        let b = match wal::emit(&mut m) {
            Ok(b) => b,
            Err(f) => {
                if f.detail.contains("get_") && f.detail.contains("_index") && *shared.data_calls.lock().unwrap() > 0 {
                    return Err(Failure::new(
                        "emit-map:live-id-has-no-index",
                        format!("asking the emit-time map about a live id panicked: {} [{}]", f.detail, p.origin),
                    ));
                }
                out.label("skip:emit-panic(C02)");
                continue;
            }
        };
        let ans = match shared.answers.lock().unwrap().clone() {
            Some(a) => a,
            None => {
                return Err(Failure::new(
                    "emit-map:custom-section-data-not-called",
                    format!("CustomSection::data was not invoked for a registered section [{}]", p.origin),
                ))
            }
        };
        let db = match decode(&b) {
            Ok(d) => d,
            Err(_) => {
                out.label("skip:output-undecodable(C02)");
                continue;
            }
        };
        // in the plain passes every entity of the input is alive: the map must
        // cover exactly the entities of the emitted binary, space by space
        if !do_gc && !replace && !add_mems {
            for (space, answered, emitted) in [
                ("function", ans.funcs.len(), db.n_funcs() as usize),
                ("table", ans.tables.len(), db.n_tables() as usize),
                ("memory", ans.mems.len(), db.n_mems() as usize),
                ("global", ans.globals.len(), db.n_globals() as usize),
                ("element", ans.elems.len(), db.elems.len()),
                ("data", ans.datas.len(), db.datas.len()),
            ] {
                if answered != emitted {
                    return Err(Failure::new(
                        format!("emit-map:{}:count", space),
                        format!(
                            "[plain] the input has {} {} entities, all alive and all answered by the emit-time map, but the emitted binary has {} [{}]",
                            answered, space, emitted, p.origin
                        ),
                    ));
                }
            }
        }
        // types need no bijection either: the signature at the reported index
        // of the emitted type section must be the signature of the input type
        for (id, got) in ans.types.iter() {
            let inputs: Vec<usize> = ids.types.iter().enumerate().filter(|(_, x)| *x == id).map(|(i, _)| i).collect();
            if inputs.is_empty() {
                continue;
            }
            let want = &da.types[inputs[0]];
            if db.types.get(*got as usize) != Some(want) {
                return Err(Failure::new(
                    "emit-map:type",
                    format!("the emit-time map puts type of input index {:?} at {}, the emitted type section has {:?} there, expected {:?} [{}]", inputs, got, db.types.get(*got as usize), want, p.origin),
                ));
            }
        }
        // functions of the generated profile start with a unique tag
        // (`i64.const 0x7a6000+k; drop`): a witness of identity that needs no
        // bijection, so it still decides when the structural comparison fails
        {
            let tag = |d: &ModuleD, idx: u32| -> Option<i64> {
                let b = d.body(idx)?;
                match (b.ops.first(), b.ops.get(1)) {
                    (Some(o), Some(p)) if o.name == "I64Const" && p.name == "Drop" => match o.imms.first() {
                        Some(crate::ops::Imm::I64(v)) if (0x7a6000..0x7a6000 + 100_000).contains(v) => Some(*v),
                        _ => None,
                    },
                    _ => None,
                }
            };
            let in_tags: Vec<Option<i64>> = (0..da.n_funcs()).map(|i| tag(&da, i)).collect();
            let mut seen = std::collections::HashSet::new();
            let unique = in_tags.iter().flatten().all(|t| seen.insert(*t));
            if unique {
                let mut judged = 0;
                for (id, got) in ans.funcs.iter() {
                    for (i, x) in ids.funcs.iter().enumerate() {
                        if x != id {
                            continue;
                        }
                        if let Some(t) = in_tags[i] {
                            judged += 1;
                            if tag(&db, *got) != Some(t) {
                                return Err(Failure::new(
                                    "emit-map:function",
                                    format!(
                                        "[{}] the emit-time map says the function of input index {} (tag {:#x}) is at index {}, the body emitted there is tagged {:?} [{}]",
                                        if do_gc { "gc" } else { "plain" }, i, t, got, tag(&db, *got).map(|t| format!("{:#x}", t)), p.origin
                                    ),
                                ));
                            }
                        }
                    }
                }
                if judged > 0 {
                    out.label("function-tags-judged");
                }
                if replace {
                    // the replaced function: a local, untagged body at the index the map reports
                    if let Some((_, got)) = ans.funcs.iter().find(|(id, _)| *id == ids.funcs[0]) {
                        let ok = db.body(*got).map(|b| b.ops.first().map(|o| o.name) == Some("Unreachable")).unwrap_or(false);
                        if !ok {
                            return Err(Failure::new(
                                "emit-map:function",
                                format!("[import-replaced] the emit-time map says the replaced import is at index {}, which is not the replacement body in the emitted binary [{}]", got, p.origin),
                            ));
                        }
                    }
                    out.label("mode:import-replaced");
                }
            }
        }
        // likewise data segments with pairwise distinct, non-empty payloads
        {
            let mut seen = std::collections::HashSet::new();
            let unique = da.datas.iter().all(|d| !d.bytes.is_empty() && seen.insert(d.bytes.clone()));
            if unique && !da.datas.is_empty() {
                for (id, got) in ans.datas.iter() {
                    for (i, x) in ids.datas.iter().enumerate() {
                        if x != id {
                            continue;
                        }
                        if db.datas.get(*got as usize).map(|d| &d.bytes) != Some(&da.datas[i].bytes) {
                            return Err(Failure::new(
                                "emit-map:data",
                                format!(
                                    "[{}] the emit-time map says the data segment of input index {} ({} bytes) is at index {}, the segment emitted there has {:?} bytes [{}]",
                                    if do_gc { "gc" } else { "plain" }, i, da.datas[i].bytes.len(), got,
                                    db.datas.get(*got as usize).map(|d| d.bytes.len()), p.origin
                                ),
                            ));
                        }
                    }
                }
                out.label("data-payloads-judged");
            }
        }
        if let Some((a, b)) = added {
            for (id, want_initial, want_imported) in [(a, 7u64, false), (b, 5u64, true)] {
                if let Some((_, got)) = ans.mems.iter().find(|(x, _)| *x == id) {
                    let ty = db.mem_ty(*got);
                    let imported = (*got as usize) < db.imp_mems.len();
                    if ty.map(|t| t.initial) != Some(want_initial) || imported != want_imported {
                        return Err(Failure::new(
                            "emit-map:memory",
                            format!(
                                "[memories-added] the emit-time map puts the {} memory added through the API ({} pages) at index {}; the emitted binary has {:?} (imported: {}) there [{}]",
                                if want_imported { "imported" } else { "module-defined" }, want_initial, got, ty, imported, p.origin
                            ),
                        ));
                    }
                }
            }
            out.label("mode:memories-added");
        }
        if replace || add_mems {
            // the structure changed on purpose: only the witnesses above apply
            continue;
        }
        let mut iso = Iso::new(&da, &db);
        iso.tolerate = vec!["memarg-offset-truncated-to-u32".into()];
        let r = if do_gc { iso.run_gc() } else { iso.run_full() };
        if let Err(mm) = r {
            out.label(format!("skip:structure-mismatch(C03/C04):{}", mm.signature));
            continue;
        }
        let mode = if do_gc { "gc" } else if synthetic { "synthetic-names" } else { "plain" };
        macro_rules! space {
            ($name:literal, $ans:expr, $ids:expr, $bij:expr) => {
                for (id, got) in $ans.iter() {
                    // all input indices this id was handed out for
                    let inputs: Vec<u32> = $ids.iter().enumerate().filter(|(_, x)| *x == id).map(|(i, _)| i as u32).collect();
                    if $name == "function" && inputs.iter().any(|i| iso.ambiguous_funcs.contains(i)) {
                        continue;
                    }
                    if inputs.iter().any(|i| iso.ambiguous.contains(&($name, *i))) {
                        continue;
                    }
                    let want: Vec<u32> = inputs.iter().filter_map(|i| $bij.fwd.get(i).copied()).collect();
                    if !want.is_empty() && !want.contains(got) {
                        return Err(Failure::new(
                            format!("emit-map:{}", $name),
                            format!(
                                "[{}] the emit-time map says {} id of input index {:?} is at index {}, the emitted binary has that entity at {:?} [{}]",
                                mode, $name, inputs, got, want, p.origin
                            ),
                        ));
                    }
                    if inputs.iter().zip(want.iter()).any(|(a, b)| a != b) && $name == "function" {
                        moved = true;
                    }
                }
            };
        }
        space!("function", ans.funcs, ids.funcs, iso.funcs);
        space!("table", ans.tables, ids.tables, iso.tables);
        space!("memory", ans.mems, ids.mems, iso.mems);
        space!("global", ans.globals, ids.globals, iso.globals);
        space!("element", ans.elems, ids.elems, iso.elems);
        space!("data", ans.datas, ids.datas, iso.datas);
        out.label(format!("mode:{}", mode));
    }
    let kinds = [
        !da.imp_funcs.is_empty(),
        !da.imp_tables.is_empty(),
        !da.imp_mems.is_empty(),
        !da.imp_globals.is_empty(),
    ]
    .iter()
    .filter(|x| **x)
    .count();
    if moved {
        out.label("function-index-changed");
    }
    out.nontrivial = kinds >= 2 && moved;
    if out.nontrivial {
        out.sample = Some(json!({"origin": p.origin, "bytes": p.bytes.len(), "import_kinds": kinds, "functions": da.n_funcs()}));
    }
    Ok(out)
}

fn run(ctx: &Ctx) {
    let plans = [
        GenPlan {
            gen: "full-nobig",
            cases: ctx.tier.pick(9_000, 220_000),
            min_len: 0,
            max_len: ctx.tier.pick(1500, 3000),
        },
        GenPlan {
            gen: "full-nobig-x",
            cases: ctx.tier.pick(3_000, 80_000),
            min_len: 0,
            max_len: ctx.tier.pick(1500, 3000),
        },
    ];
    standard_run(ctx, check, &plans, true);
}
