//! C18 — function replacement edits rewire exactly one thing.

use super::*;
use crate::ch::Ch;
use crate::decode::{decode, ExtKind, ImportKind};
use crate::exec::{self, Cmp, Step};
use crate::interp::{RModel, Val};
use crate::optable::validate_walrus;
use crate::wal;
use serde_json::json;
use walrus::ir::Value;
use walrus::*;

pub fn def() -> PropDef {
    PropDef {
        id: "C18",
        run,
        check,
        meta,
    }
}

fn meta(_ctx: &Ctx) -> EvidenceMeta {
    EvidenceMeta {
        rule: "exec-profile generated modules, fixtures, real corpus; (a) every choice of an imported function is replaced through replace_imported_func by a generated body from a family with a closed-form model (each result = constant, or a same-typed integer parameter plus a constant; the body reads its parameters); (b) every choice of a function export of a local function is replaced through replace_exported_func likewise. non-trivial = (a) the replaced function was invoked >= 2 times in the call script (direct calls, table entries, re-exports) / (b) the script calls the replaced export and at least one other export; distinct by (module bytes, target, script). Oracle (metamorphic): (a) interpreter(original, with the host function := the model) == interpreter(edited) on results, traps, host-call trace and visible state; the edited import list = original minus exactly that import (by position); the id is unchanged; (b) calls to that export return the model's results and change no state, every other call behaves as in the original run (which skips the calls to that export); exports are otherwise unchanged. Output must validate.".into(),
        assumptions: vec!["replacement bodies have no side effects, so the original and edited runs stay in lock step".into()],
        level: "exploration",
        exhaustive: false,
    }
}

fn vt(t: wasmparser::ValType) -> ValType {
    match t {
        wasmparser::ValType::I32 => ValType::I32,
        wasmparser::ValType::I64 => ValType::I64,
        wasmparser::ValType::F32 => ValType::F32,
        wasmparser::ValType::F64 => ValType::F64,
        wasmparser::ValType::V128 => ValType::V128,
        wasmparser::ValType::Ref(r) if r == wasmparser::RefType::EXTERNREF => ValType::Ref(RefType::Externref),
        wasmparser::ValType::Ref(_) => ValType::Ref(RefType::Funcref),
    }
}

/// Choose a model for a signature and return it.
fn gen_model(ch: &mut Ch, params: &[wasmparser::ValType], results: &[wasmparser::ValType]) -> Vec<RModel> {
    results
        .iter()
        .map(|r| {
            let same: Vec<usize> = params.iter().enumerate().filter(|(_, p)| *p == r).map(|(i, _)| i).collect();
            let k = ch.below(200) as i64 - 50;
            match r {
                wasmparser::ValType::I32 | wasmparser::ValType::I64 if !same.is_empty() && ch.chance(2, 3) => {
                    RModel::ParamPlus(*ch.pick(&same), k)
                }
                wasmparser::ValType::I32 => RModel::Const(Val::I32(k as i32 * 3 + 1)),
                wasmparser::ValType::I64 => RModel::Const(Val::I64(k * 5 + 2)),
                wasmparser::ValType::F32 => RModel::Const(Val::F32((k as f32 * 0.5).to_bits())),
                wasmparser::ValType::F64 => RModel::Const(Val::F64((k as f64 * 0.25).to_bits())),
                wasmparser::ValType::V128 => RModel::Const(Val::V128((k as i128 as u128).wrapping_mul(0x0101_0101))),
                wasmparser::ValType::Ref(rt) if *rt == wasmparser::RefType::EXTERNREF => RModel::Const(Val::ExternRef(None)),
                wasmparser::ValType::Ref(_) => RModel::Const(Val::FuncRef(None)),
            }
        })
        .collect()
}

/// Emit the body for `model` through the builder.
fn build_body(body: &mut InstrSeqBuilder, args: &[LocalId], model: &[RModel], param_types: &[ValType], read_mask: u64, scratch: Option<LocalId>, drop_data: Option<DataId>, typed: Option<(ir::InstrSeqType, usize)>) {
    // a block whose type has parameters and one result (made with
    // `InstrSeqType::new` before the replacement): p constants go in, their
    // sum comes out and is dropped
    if let Some((ty, p)) = typed {
        for k in 0..p {
            body.i32_const(k as i32 + 2);
        }
        body.block(ty, |b| {
            for _ in 1..p {
                b.binop(ir::BinaryOp::I32Add);
            }
            b.i32_const(1).binop(ir::BinaryOp::I32Add);
        });
        body.drop();
    }
    // dropping an active data segment is a no-op at run time (it was dropped
    // at instantiation) but makes the body one that needs a data-count section
    if let Some(d) = drop_data {
        body.data_drop(d);
    }
    // a scratch local allocated before the replacement (its id is smaller
    // than those of the fresh argument locals)
    if let Some(s) = scratch {
        body.i32_const(5).local_set(s).local_get(s).drop();
    }
    // read the parameters selected by `read_mask` once (a replacement that
    // mixes up its argument locals must not validate / behave); half of the
    // bodies read all of them, the others leave some parameters unused
    for (i, a) in args.iter().enumerate() {
        if read_mask >> (i % 64) & 1 == 1 {
            body.local_get(*a).drop();
        }
    }
    for m in model {
        match m {
            RModel::Const(v) => match v {
                Val::I32(x) => {
                    body.i32_const(*x);
                }
                Val::I64(x) => {
                    body.i64_const(*x);
                }
                Val::F32(x) => {
                    body.f32_const(f32::from_bits(*x));
                }
                Val::F64(x) => {
                    body.f64_const(f64::from_bits(*x));
                }
                Val::V128(x) => {
                    body.const_(Value::V128(*x));
                }
                Val::FuncRef(_) => {
                    body.ref_null(RefType::Funcref);
                }
                Val::ExternRef(_) => {
                    body.ref_null(RefType::Externref);
                }
            },
            RModel::ParamPlus(i, k) => {
                body.local_get(args[*i]);
                if param_types[*i] == ValType::I64 {
                    body.i64_const(*k).binop(ir::BinaryOp::I64Add);
                } else {
                    body.i32_const(*k as i32).binop(ir::BinaryOp::I32Add);
                }
            }
        }
    }
}

fn strip_trace(steps: &[Step]) -> Vec<Step> {
    steps.to_vec()
}

pub fn check(ctx: &Ctx, input: &Input) -> CaseResult {
    let mut out = CaseOut::default();
    let (bytes, origin, sb) = match input {
        Input::Choices { gen, bytes } => {
            let sb: Vec<u8> = bytes.iter().take(80).copied().collect();
            let rest: Vec<u8> = bytes.iter().skip(80).copied().collect();
            let p = prepare(&Input::Choices {
                gen: gen.clone(),
                bytes: rest,
            })
            .unwrap();
            (p.bytes, p.origin, sb)
        }
        Input::Wasm { origin, bytes } => {
            let h = fnv(bytes);
            (bytes.clone(), origin.clone(), (0..80).map(|i| (mix(h, i) >> 9) as u8).collect())
        }
        _ => return Ok(out),
    };
    out.hash = mix(fnv(&bytes), fnv(&sb));
    if validate_walrus(&bytes).is_err() {
        out.label("skip:input-invalid");
        return Ok(out);
    }
    let da = match decode(&bytes) {
        Ok(d) => d,
        Err(_) => return Ok(out),
    };
    let im = match crate::interp::load(&bytes) {
        Ok(m) => m,
        Err(_) => return Ok(out),
    };
    let mut ch = Ch::new(&sb);
    let host_seed = ch.u64();
    let script = exec::gen_script(&im, &mut ch, 12);
    let want_import = !da.imp_funcs.is_empty() && (ch.bool() || da.exports.iter().all(|e| e.kind != ExtKind::Func));

    // ---- (c) a replacement that is refused (returns Err) changes nothing:
    // replace_imported_func on a local function, replace_exported_func on a
    // function that is not exported or on a re-exported import
    {
        let n_imp = da.imp_funcs.len() as u32;
        let exported: std::collections::HashSet<u32> = da.exports.iter().filter(|e| e.kind == ExtKind::Func).map(|e| e.index).collect();
        let local_target = (n_imp..da.n_funcs()).next();
        let unexported = (0..da.n_funcs()).find(|f| !exported.contains(f));
        let reexported_import = (0..n_imp).find(|f| exported.contains(f));
        let targets = [local_target, unexported, reexported_import];
        let ids = std::sync::Arc::new(std::sync::Mutex::new(Vec::new()));
        let ids2 = ids.clone();
        let mut cfg = wal::Cfg::plain().to_config();
        cfg.on_parse(move |_m, map| {
            let mut v = Vec::new();
            for t in targets {
                v.push(match t {
                    Some(i) => Some(map.get_func(i)?),
                    None => None,
                });
            }
            *ids2.lock().unwrap() = v;
            Ok(())
        });
        if let (Ok(Ok(mut m)), Ok(Some(base))) = (wal::parse(&bytes, &cfg), wal::roundtrip(&bytes, wal::Cfg::plain(), false)) {
            let v = ids.lock().unwrap().clone();
            let mut refused = 0;
            for (k, id) in v.iter().enumerate() {
                let id = match id {
                    Some(i) => *i,
                    None => continue,
                };
                let what = ["replace_imported_func on a local function", "replace_exported_func on a function that is not exported", "replace_exported_func on a re-exported import"][k];
                let r = guard("replace-refused", || {
                    if k == 0 {
                        m.replace_imported_func(id, |(b, _)| {
                            b.unreachable();
                        })
                        .is_ok()
                    } else {
                        m.replace_exported_func(id, |(b, _)| {
                            b.unreachable();
                        })
                        .is_ok()
                    }
                })?;
                if r {
                    // the property does not say these must be refused; a walrus
                    // that performs them is not judged here
                    let _ = what;
                    out.label("inapplicable-replacement-accepted(not judged)");
                    refused = 0;
                    break;
                }
                refused += 1;
            }
            if refused > 0 {
                let after = wal::emit(&mut m)?;
                if after != base {
                    return Err(Failure::new(
                        "refused-replacement-changed-the-module",
                        format!("after {} refused replacement(s) the module emits {} bytes, {} before [{}]", refused, after.len(), base.len(), origin),
                    ));
                }
                out.label("refused-replacements-change-nothing");
            }
        }
    }

    if want_import {
        // ---- (a) replace an imported function ----
        let pos = ch.below(da.imp_funcs.len()) as u32;
        let ft = &im.types[im.func_types[pos as usize] as usize];
        let model = gen_model(&mut ch, &ft.params, &ft.results);
        let read_mask = if ch.bool() { u64::MAX } else { ch.u64() };
        let param_types: Vec<ValType> = ft.params.iter().map(|t| vt(*t)).collect();
        let shared_id = std::sync::Arc::new(std::sync::Mutex::new(None));
        let sid = shared_id.clone();
        // a quarter of the cases ask for DWARF generation (the module has no
        // debug sections; the replacement has no original code range)
        let want_dwarf = read_mask != u64::MAX && read_mask & 64 != 0;
        if want_dwarf {
            out.label("config:dwarf-generation-on");
        }
        let mut cfg = wal::Cfg { dwarf: want_dwarf, ..wal::Cfg::plain() }.to_config();
        cfg.on_parse(move |_m, ids| {
            *sid.lock().unwrap() = Some(ids.get_func(pos)?);
            Ok(())
        });
        let mut m = match wal::parse(&bytes, &cfg) {
            Ok(Ok(m)) => m,
            _ => {
                out.label("skip:walrus-rejected(C05)");
                return Ok(out);
            }
        };
        let fid = shared_id.lock().unwrap().unwrap();
        let scratch = if read_mask & 4 != 0 { Some(m.locals.add(ValType::I32)) } else { None };
        // only active segments: dropping a passive one would change later memory.init
        let drop_data: Option<DataId> = if read_mask & 32 != 0 {
            m.data.iter().find(|d| matches!(d.kind, DataKind::Active { .. })).map(|d| d.id())
        } else {
            None
        };
        let model2 = model.clone();
        let pt = param_types.clone();
        // a quarter of the cases re-home the import first (delete it, add it
        // again under the same names): it then sits at the end of the list
        if read_mask & 24 == 24 {
            let rehomed = guard("re-home import", || {
                let old = m.imports.get_imported_func(fid).map(|i| (i.id(), i.module.clone(), i.name.clone()));
                if let Some((id, module, name)) = old {
                    m.imports.delete(id);
                    m.imports.add(&module, &name, fid);
                    true
                } else {
                    false
                }
            })?;
            if rehomed {
                out.label("import-re-homed-before-replacement");
            }
        }
        let typed = if read_mask & 256 != 0 {
            let p = 1 + (read_mask >> 9 & 1) as usize;
            out.label("replacement-has-typed-block");
            Some((ir::InstrSeqType::new(&mut m.types, &vec![ValType::I32; p], &[ValType::I32]), p))
        } else {
            None
        };
        let r = guard("replace_imported_func", || {
            m.replace_imported_func(fid, |(body, args)| build_body(body, args, &model2, &pt, read_mask, scratch, drop_data, typed))
        })?;
        let new_id = match r {
            Ok(id) => id,
            Err(e) => {
                return Err(Failure::new(
                    "replace_imported_func-refused",
                    format!("replace_imported_func on function import {} failed: {} [{}]", pos, e, origin),
                ))
            }
        };
        if new_id != fid {
            return Err(Failure::new(
                "import-replacement:id-changed",
                format!("replace_imported_func returned {:?} for {:?} [{}]", new_id, fid, origin),
            ));
        }
        let edited = wal::emit(&mut m).map_err(|f| {
            Failure::new(format!("import-replacement:{}", f.signature), format!("{} [{}]", f.detail, origin))
        })?;
        if let Err(e) = validate_walrus(&edited) {
            return Err(Failure::new(
                format!("import-replacement:invalid-output:{}", super::c02::normalise_msg(&e)),
                format!("after replacing function import {}: {} [{}]", pos, e, origin),
            ));
        }
        let db = decode(&edited).map_err(|e| Failure::new("import-replacement:undecodable", e.to_string()))?;
        // import list = original minus exactly that import
        let removed_at = da.imp_funcs[pos as usize];
        let mut want: Vec<_> = da.imports.iter().map(|i| (i.module.clone(), i.name.clone(), std::mem::discriminant(&i.kind))).collect();
        want.remove(removed_at);
        let got: Vec<_> = db.imports.iter().map(|i| (i.module.clone(), i.name.clone(), std::mem::discriminant(&i.kind))).collect();
        if want != got {
            return Err(Failure::new(
                "import-replacement:import-list",
                format!(
                    "after replacing function import #{} ({}.{}), imports are {:?}; expected the original list minus exactly that entry [{}]",
                    pos,
                    da.imports[removed_at].module,
                    da.imports[removed_at].name,
                    db.imports.iter().map(|i| format!("{}.{}", i.module, i.name)).collect::<Vec<_>>(),
                    origin
                ),
            ));
        }
        let _ = ImportKind::Tag;
        let ea: Vec<(String, ExtKind)> = da.exports.iter().map(|e| (e.name.clone(), e.kind)).collect();
        let eb: Vec<(String, ExtKind)> = db.exports.iter().map(|e| (e.name.clone(), e.kind)).collect();
        if ea != eb {
            return Err(Failure::new("import-replacement:exports-changed", format!("{:?} vs {:?} [{}]", ea, eb, origin)));
        }
        // behaviour
        let (a, calls) = match exec::observe_with(&bytes, &script, host_seed, true, Some((pos, model.clone()))) {
            Ok(x) => x,
            Err(_) => return Ok(out),
        };
        let b = match exec::observe(&edited, &script, host_seed, true) {
            Ok(x) => x,
            Err(e) if e.starts_with("interpreter-panic") => {
                out.label("skip:interpreter-panic");
                return Ok(out);
            }
            Err(e) => return Err(Failure::new("import-replacement:output-not-loadable", format!("{} [{}]", e, origin))),
        };
        match exec::compare(&strip_trace(&a), &b) {
            Cmp::Same { completed_calls, .. } => {
                out.label("import-replacement:same");
                out.nontrivial = calls >= 2 && completed_calls >= 1;
                if calls >= 1 {
                    out.label("replaced-import-was-called");
                }
                if out.nontrivial && out.hash % 8 == 0 {
                    out.sample = Some(json!({"origin": origin, "kind": "import", "import": format!("{}.{}", da.imports[removed_at].module, da.imports[removed_at].name), "model": format!("{:?}", model), "calls_reaching_replacement": calls}));
                }
            }
            Cmp::Inconclusive { .. } => out.label("inconclusive"),
            Cmp::Differ { at, what, detail } => {
                return Err(Failure::new(
                    format!("import-replacement:behaviour:{}", what),
                    format!("step {}: {} (replaced import #{} with model {:?}) [{}]", at, detail, pos, model, origin),
                ));
            }
        }
    } else {
        // ---- (b) replace an exported function (a re-exported import is
        // refused today; if it is ever accepted it is judged like any other) ----
        let cands: Vec<usize> = da
            .exports
            .iter()
            .enumerate()
            .filter(|(_, e)| e.kind == ExtKind::Func)
            .map(|(i, _)| i)
            .collect();
        if cands.is_empty() {
            out.label("skip:no-replaceable-function");
            return Ok(out);
        }
        let ei = *ch.pick(&cands);
        let target = da.exports[ei].index;
        // replace_exported_func retargets the FIRST export of that function
        let first_export = da.exports.iter().position(|e| e.kind == ExtKind::Func && e.index == target).unwrap();
        let ename = da.exports[first_export].name.clone();
        let ft = &im.types[im.func_types[target as usize] as usize];
        let model = gen_model(&mut ch, &ft.params, &ft.results);
        let read_mask = if ch.bool() { u64::MAX } else { ch.u64() };
        let param_types: Vec<ValType> = ft.params.iter().map(|t| vt(*t)).collect();
        let shared_id = std::sync::Arc::new(std::sync::Mutex::new(None));
        let sid = shared_id.clone();
        let want_dwarf = read_mask != u64::MAX && read_mask & 64 != 0;
        if want_dwarf {
            out.label("config:dwarf-generation-on");
        }
        let mut cfg = wal::Cfg { dwarf: want_dwarf, ..wal::Cfg::plain() }.to_config();
        cfg.on_parse(move |_m, ids| {
            *sid.lock().unwrap() = Some(ids.get_func(target)?);
            Ok(())
        });
        let mut m = match wal::parse(&bytes, &cfg) {
            Ok(Ok(m)) => m,
            _ => {
                out.label("skip:walrus-rejected(C05)");
                return Ok(out);
            }
        };
        let fid = shared_id.lock().unwrap().unwrap();
        let scratch = if read_mask & 4 != 0 { Some(m.locals.add(ValType::I32)) } else { None };
        // only active segments: dropping a passive one would change later memory.init
        let drop_data: Option<DataId> = if read_mask & 32 != 0 {
            m.data.iter().find(|d| matches!(d.kind, DataKind::Active { .. })).map(|d| d.id())
        } else {
            None
        };
        let model2 = model.clone();
        let pt = param_types.clone();
        let export_is_sole_declaration = crate::edits::sole_declaring_exports(&m).contains(&fid);
        let typed = if read_mask & 256 != 0 {
            let p = 1 + (read_mask >> 9 & 1) as usize;
            out.label("replacement-has-typed-block");
            Some((ir::InstrSeqType::new(&mut m.types, &vec![ValType::I32; p], &[ValType::I32]), p))
        } else {
            None
        };
        let r = guard("replace_exported_func", || {
            m.replace_exported_func(fid, |(body, args)| build_body(body, args, &model2, &pt, read_mask, scratch, drop_data, typed))
        })?;
        if r.is_err() && target < da.imp_funcs.len() as u32 {
            out.label("re-exported-import:replacement-refused");
            return Ok(out);
        }
        if target < da.imp_funcs.len() as u32 {
            out.label("re-exported-import:replacement-accepted");
        }
        if let Err(e) = r {
            return Err(Failure::new(
                "replace_exported_func-refused",
                format!("replace_exported_func on exported local function {} failed: {} [{}]", target, e, origin),
            ));
        }
        let edited = wal::emit(&mut m).map_err(|f| {
            Failure::new(format!("export-replacement:{}", f.signature), format!("{} [{}]", f.detail, origin))
        })?;
        if let Err(e) = validate_walrus(&edited) {
            if export_is_sole_declaration && e.contains("undeclared function reference") {
                // the retargeted export was what declared the original function
                // for a `ref.func` in code: walrus does not re-declare it
                ctx.known_or(
                    &mut out,
                    Failure::new(
                        "export-replacement:invalid-output:undeclared function reference:export-was-the-only-declaration",
                        format!("after replacing export {:?}: {} [{}]", ename, e, origin),
                    ),
                )?;
                return Ok(out);
            }
            return Err(Failure::new(
                format!("export-replacement:invalid-output:{}", super::c02::normalise_msg(&e)),
                format!("after replacing export {:?}: {} [{}]", ename, e, origin),
            ));
        }
        let db = decode(&edited).map_err(|e| Failure::new("export-replacement:undecodable", e.to_string()))?;
        let ea: Vec<(String, ExtKind)> = da.exports.iter().map(|e| (e.name.clone(), e.kind)).collect();
        let eb: Vec<(String, ExtKind)> = db.exports.iter().map(|e| (e.name.clone(), e.kind)).collect();
        if ea != eb {
            return Err(Failure::new("export-replacement:exports-changed", format!("{:?} vs {:?} [{}]", ea, eb, origin)));
        }
        if da.imports.len() != db.imports.len() {
            return Err(Failure::new("export-replacement:imports-changed", origin));
        }
        if da.start.is_some() != db.start.is_some() {
            return Err(Failure::new("export-replacement:start-changed", origin));
        }
        // the original function is still emitted: its debug name stays with it
        if let (Ok(na), Ok(nb)) = (crate::names::decode_names(&bytes), crate::names::decode_names(&edited)) {
            if let Some(n) = na.funcs.get(&target) {
                let unique = na.funcs.values().filter(|x| *x == n).count() == 1;
                let new_target = db.exports.iter().find(|e| e.kind == ExtKind::Func && e.name == ename).map(|e| e.index);
                if unique {
                    if let Some(j) = new_target {
                        if nb.funcs.get(&j) == Some(n) {
                            return Err(Failure::new(
                                "export-replacement:name-moved-to-the-replacement",
                                format!("input function {} is named {:?}; after replacing export {:?} that name sits on the new function {} [{}]", target, n, ename, j, origin),
                            ));
                        }
                    }
                    if !nb.funcs.values().any(|x| x == n) {
                        return Err(Failure::new(
                            "export-replacement:original-function-lost-its-name",
                            format!("input function {} is named {:?}; it is still emitted after replacing export {:?} but no function carries that name [{}]", target, n, ename, origin),
                        ));
                    }
                    out.label("replaced-function-had-a-name");
                }
            }
        }
        // original run skips the calls to the replaced export
        let script_a: Vec<exec::Call> = script.iter().filter(|c| c.export != ename).cloned().collect();
        let a = match exec::observe(&bytes, &script_a, host_seed, false) {
            Ok(x) => x,
            Err(_) => return Ok(out),
        };
        let b = match exec::observe(&edited, &script, host_seed, false) {
            Ok(x) => x,
            Err(e) if e.starts_with("interpreter-panic") => {
                out.label("skip:interpreter-panic");
                return Ok(out);
            }
            Err(e) => return Err(Failure::new("export-replacement:output-not-loadable", format!("{} [{}]", e, origin))),
        };
        // split the edited run: calls to the replaced export are judged against
        // the model, the rest must equal the original run
        let mut b_rest: Vec<Step> = Vec::new();
        let mut replaced_calls = 0;
        let mut prev_state: Option<Vec<(String, String)>> = None;
        let mut ci = 0usize; // index into script for call steps
        for (i, s) in b.iter().enumerate() {
            if i == 0 {
                prev_state = Some(s.state.clone());
                b_rest.push(s.clone());
                if s.result.is_err() {
                    break;
                }
                continue;
            }
            let call = match script.get(ci) {
                Some(c) => c,
                None => break,
            };
            ci += 1;
            if call.export == ename {
                replaced_calls += 1;
                let want: Vec<String> = crate::interp::eval_model(&model, &call.args).iter().map(|v| v.observable()).collect();
                if s.inconclusive {
                    break;
                }
                if s.result != Ok(want.clone()) {
                    return Err(Failure::new(
                        "export-replacement:replaced-export-does-not-run-new-body",
                        format!("{}: got {:?}, the replacement body's model gives {:?} [{}]", s.what, s.result, want, origin),
                    ));
                }
                if !s.trace.is_empty() || Some(&s.state) != prev_state.as_ref() {
                    return Err(Failure::new(
                        "export-replacement:replaced-export-has-side-effects",
                        format!("{}: the replacement body has no side effects, yet state or host trace changed [{}]", s.what, origin),
                    ));
                }
            } else {
                prev_state = Some(s.state.clone());
                b_rest.push(s.clone());
                if s.inconclusive {
                    break;
                }
            }
        }
        match exec::compare(&a, &b_rest) {
            Cmp::Same { completed_calls, .. } => {
                out.label("export-replacement:same");
                out.nontrivial = replaced_calls >= 1 && completed_calls >= 1;
                if replaced_calls >= 1 {
                    out.label("replaced-export-was-called");
                }
                if da.exports.iter().filter(|e| e.kind == ExtKind::Func && e.index == target).count() > 1 {
                    out.label("function-exported-twice");
                }
                if da.start == Some(target) {
                    out.label("replaced-function-is-start");
                }
                if out.nontrivial && out.hash % 8 == 0 {
                    out.sample = Some(json!({"origin": origin, "kind": "export", "export": ename, "model": format!("{:?}", model), "calls_to_replaced_export": replaced_calls}));
                }
            }
            Cmp::Inconclusive { .. } => out.label("inconclusive"),
            Cmp::Differ { at, what, detail } => {
                return Err(Failure::new(
                    format!("export-replacement:other-behaviour-changed:{}", what),
                    format!("step {}: {} (replaced export {:?}) [{}]", at, detail, ename, origin),
                ));
            }
        }
        // a function exported under several names: the same call once more
        // retargets one more of its exports (and only that)
        let k = da.exports.iter().filter(|e| e.kind == ExtKind::Func && e.index == target).count();
        if k >= 2 && target >= da.imp_funcs.len() as u32 {
            let group_sizes = |d: &crate::decode::ModuleD| -> Vec<usize> {
                let names: Vec<&String> = da.exports.iter().filter(|e| e.kind == ExtKind::Func && e.index == target).map(|e| &e.name).collect();
                let mut by_index: std::collections::HashMap<u32, usize> = std::collections::HashMap::new();
                for e in d.exports.iter().filter(|e| e.kind == ExtKind::Func && names.contains(&&e.name)) {
                    *by_index.entry(e.index).or_insert(0) += 1;
                }
                let mut v: Vec<usize> = by_index.values().copied().collect();
                v.sort();
                v
            };
            let mut want1 = vec![1, k - 1];
            want1.sort();
            if group_sizes(&db) == want1 {
                let model3 = model.clone();
                let pt3 = param_types.clone();
                let r2 = guard("replace_exported_func", || {
                    m.replace_exported_func(fid, |(body, args)| build_body(body, args, &model3, &pt3, u64::MAX, None, None, None))
                })?;
                if let Err(e) = r2 {
                    return Err(Failure::new(
                        "export-replacement:second-replacement-refused",
                        format!("function {} is exported under {} names; after one of them was retargeted, replace_exported_func on the same function failed: {} [{}]", target, k, e, origin),
                    ));
                }
                let edited2 = wal::emit(&mut m).map_err(|f| Failure::new(format!("export-replacement:second:{}", f.signature), format!("{} [{}]", f.detail, origin)))?;
                if validate_walrus(&edited2).is_ok() {
                    if let Ok(d2) = decode(&edited2) {
                        let mut want2 = if k == 2 { vec![1, 1] } else { vec![1, 1, k - 2] };
                        want2.sort();
                        let got2 = group_sizes(&d2);
                        if got2 != want2 {
                            return Err(Failure::new(
                                "export-replacement:second-replacement-retargets-wrong-exports",
                                format!("function {} exported under {} names; after two replacements its exports group by target as {:?}, expected {:?} [{}]", target, k, got2, want2, origin),
                            ));
                        }
                        out.label("second-replacement-of-a-twice-exported-function");
                    }
                }
            }
        }
    }
    Ok(out)
}

fn run(ctx: &Ctx) {
    let plans = [GenPlan {
        gen: "exec-dup",
        cases: ctx.tier.pick(25_000, 400_000),
        min_len: 80,
        max_len: ctx.tier.pick(1500, 3000),
    }];
    standard_run(ctx, check, &plans, true);
}
