//! C20 — the round trip never escalates the features a module needs.

use super::*;
use crate::gen::{feat, feat_to_wasmparser};
use crate::optable::{validate_walrus, validate_with};
use crate::wal;
use serde_json::json;

pub fn def() -> PropDef {
    PropDef {
        id: "C20",
        run,
        check,
        meta,
    }
}

fn meta(_ctx: &Ctx) -> EvidenceMeta {
    EvidenceMeta {
        rule: "(beyond the round trip, the same judgement is applied to three feature-neutral transformations: the GC pass; the only table / memory, when imported, replaced by a module-defined one; a `block (result i32)` inserted through the builder API with InstrSeqType::new; an empty active data segment added with ModuleData::add) modules generated under every feature profile (MVP, all, random subsets), fixtures, real corpus; per module the candidate feature sets S = {generating set, greedy-minimal set, MVP, full set minus each single proposal, 6 derived subsets}; non-trivial = the input's greedy-minimal set is a strict subset of walrus's full set and the module has a data/element segment, a block with result, a call_indirect or a memory access; distinct by module bytes. Oracle: Validator(S) accepts input => Validator(S) accepts output.".into(),
        assumptions: vec!["wasmparser's feature gating is the definition of 'needs proposal p'".into()],
        level: "exploration",
        exhaustive: false,
    }
}

fn names_of(f: u32) -> String {
    let v: Vec<&str> = (0..12).filter(|i| f & (1 << i) != 0).map(|i| feat::NAMES[i]).collect();
    if v.is_empty() {
        "mvp".into()
    } else {
        v.join("+")
    }
}

/// Replace the only table / the only memory of the module, when it is
/// imported, by an equivalent module-defined one (a transformation that needs
/// no feature the module did not need before). Returns how many were replaced.
fn localise_imports(m: &mut walrus::Module) -> usize {
    use walrus::ir::VisitorMut;
    use walrus::*;
    let mut n = 0;
    let tables: Vec<TableId> = m.tables.iter().map(|t| t.id()).collect();
    if tables.len() == 1 {
        let old = tables[0];
        if let Some(imp) = m.tables.get(old).import {
            let (t64, init, max, ety, segs) = {
                let t = m.tables.get(old);
                (t.table64, t.initial, t.maximum, t.element_ty, t.elem_segments.iter().copied().collect::<Vec<_>>())
            };
            let new = m.tables.add_local(t64, init, max, ety);
            for s in segs {
                m.tables.get_mut(new).elem_segments.insert(s);
            }
            let elems: Vec<ElementId> = m.elements.iter().map(|e| e.id()).collect();
            for e in elems {
                if let ElementKind::Active { table, .. } = &mut m.elements.get_mut(e).kind {
                    if *table == old {
                        *table = new;
                    }
                }
            }
            for e in m.exports.iter_mut() {
                if let ExportItem::Table(t) = &mut e.item {
                    if *t == old {
                        *t = new;
                    }
                }
            }
            struct T(TableId, TableId);
            impl VisitorMut for T {
                fn visit_table_id_mut(&mut self, t: &mut TableId) {
                    if *t == self.0 {
                        *t = self.1;
                    }
                }
            }
            for (_, f) in m.funcs.iter_local_mut() {
                let entry = f.entry_block();
                walrus::ir::dfs_pre_order_mut(&mut T(old, new), f, entry);
            }
            m.imports.delete(imp);
            m.tables.delete(old);
            n += 1;
        }
    }
    let mems: Vec<MemoryId> = m.memories.iter().map(|t| t.id()).collect();
    if mems.len() == 1 {
        let old = mems[0];
        if let Some(imp) = m.memories.get(old).import {
            let (sh, m64, init, max, ps, segs) = {
                let t = m.memories.get(old);
                (t.shared, t.memory64, t.initial, t.maximum, t.page_size_log2, t.data_segments.iter().copied().collect::<Vec<_>>())
            };
            let new = m.memories.add_local(sh, m64, init, max, ps);
            for s in segs {
                m.memories.get_mut(new).data_segments.insert(s);
            }
            let datas: Vec<DataId> = m.data.iter().map(|e| e.id()).collect();
            for d in datas {
                if let DataKind::Active { memory, .. } = &mut m.data.get_mut(d).kind {
                    if *memory == old {
                        *memory = new;
                    }
                }
            }
            for e in m.exports.iter_mut() {
                if let ExportItem::Memory(t) = &mut e.item {
                    if *t == old {
                        *t = new;
                    }
                }
            }
            struct M(MemoryId, MemoryId);
            impl VisitorMut for M {
                fn visit_memory_id_mut(&mut self, t: &mut MemoryId) {
                    if *t == self.0 {
                        *t = self.1;
                    }
                }
            }
            for (_, f) in m.funcs.iter_local_mut() {
                let entry = f.entry_block();
                walrus::ir::dfs_pre_order_mut(&mut M(old, new), f, entry);
            }
            m.imports.delete(imp);
            m.memories.delete(old);
            n += 1;
        }
    }
    n
}

pub fn check(_ctx: &Ctx, input: &Input) -> CaseResult {
    let mut out = CaseOut::default();
    let p = match prepare(input) {
        Some(p) => p,
        None => return Ok(out),
    };
    out.hash = fnv(&p.bytes);
    if validate_walrus(&p.bytes).is_err() {
        out.label("skip:input-invalid");
        return Ok(out);
    }
    let b = match wal::roundtrip(&p.bytes, wal::Cfg::plain(), false) {
        Ok(Some(b)) => b,
        Ok(None) => {
            out.label("skip:walrus-rejected(C05)");
            return Ok(out);
        }
        Err(_) => {
            out.label("skip:emit-panic(C02)");
            return Ok(out);
        }
    };
    judge(&p.bytes, &b, "", &p, &mut out, true)?;
    // Beyond the plain round trip: transformations that cannot need a new
    // feature must not escalate either. (1) the GC pass only removes things;
    // (2) the only table / memory, when imported, becomes module-defined.
    if let Ok(Some(g)) = wal::roundtrip(&p.bytes, wal::Cfg::plain(), true) {
        judge(&p.bytes, &g, "after-gc:", &p, &mut out, false)?;
        out.label("mode:gc");
    }
    let cfg = wal::Cfg::plain().to_config();
    if let Ok(Ok(mut m)) = wal::parse(&p.bytes, &cfg) {
        if let Ok(n) = guard("edit", || localise_imports(&mut m)) {
            if n > 0 {
                if let Ok(e) = wal::emit(&mut m) {
                    judge(&p.bytes, &e, "after-localising-imported-table-or-memory:", &p, &mut out, false)?;
                    out.label("mode:imports-localised");
                }
            }
        }
    }
    // (3) a `block (result i32)` made through the builder API, its type
    // computed by InstrSeqType::new: MVP needs the inline block type
    if let Ok(Ok(mut m)) = wal::parse(&p.bytes, &cfg) {
        let done = guard("edit", || {
            use walrus::*;
            let fid = match m.funcs.iter_local().next() {
                Some((id, _)) => id,
                None => return false,
            };
            let ty = ir::InstrSeqType::new(&mut m.types, &[], &[ValType::I32]);
            let f = m.funcs.get_mut(fid).kind.unwrap_local_mut();
            let mut b = f.builder_mut().func_body();
            b.block_at(0, ty, |bb| {
                bb.i32_const(0x5eed);
            });
            b.drop_at(1);
            true
        });
        if let Ok(true) = done {
            if let Ok(e) = wal::emit(&mut m) {
                judge(&p.bytes, &e, "after-inserting-a-builder-made-block:", &p, &mut out, false)?;
                out.label("mode:builder-made-block");
            }
        }
    }
    // (4) an active data segment added through the API (MVP has active
    // segments; no data-count section is needed for one)
    if let Ok(Ok(mut m)) = wal::parse(&p.bytes, &cfg) {
        let register = out.hash & 2 == 0;
        let done = guard("edit", || {
            use walrus::*;
            let mem = match m.memories.iter().next() {
                Some(mem) => (mem.id(), mem.memory64),
                None => return false,
            };
            let offset = if mem.1 {
                ConstExpr::Value(ir::Value::I64(0))
            } else {
                ConstExpr::Value(ir::Value::I32(0))
            };
            let id = m.data.add(DataKind::Active { memory: mem.0, offset }, vec![]);
            // registering the segment with its memory is optional bookkeeping
            // (nothing documents it as required): do it for half of the cases
            if register {
                m.memories.get_mut(mem.0).data_segments.insert(id);
            }
            true
        });
        if let Ok(true) = done {
            if let Ok(e) = wal::emit(&mut m) {
                judge(&p.bytes, &e, "after-adding-an-active-data-segment:", &p, &mut out, false)?;
                out.label("mode:active-data-added");
            }
        }
    }
    Ok(out)
}

/// the escalation judgement of `b` (output) against `a` (input)
fn judge(a_bytes: &[u8], b: &[u8], tag: &str, p: &Prepared, out: &mut CaseOut, primary: bool) -> Result<(), Failure> {
    let b: Vec<u8> = b.to_vec();
    struct P<'a> {
        bytes: &'a [u8],
        origin: &'a str,
        spec: &'a Option<crate::gen::Spec>,
    }
    let p = P { bytes: a_bytes, origin: &p.origin, spec: &p.spec };
    let ok_in = |s: u32| validate_with(&p.bytes, feat_to_wasmparser(s)).is_ok();
    // greedy minimal set
    let mut minimal = feat::ALL;
    for i in 0..12 {
        let t = minimal & !(1 << i);
        if ok_in(t) {
            minimal = t;
        }
    }
    let mut sets: Vec<u32> = vec![minimal, 0];
    if let Some(s) = p.spec {
        sets.push(s.feats);
    }
    for i in 0..12 {
        sets.push(feat::ALL & !(1 << i));
    }
    let h = fnv(&p.bytes);
    for k in 0..6 {
        sets.push((mix(h, k) as u32 & feat::ALL) | minimal);
    }
    sets.sort();
    sets.dedup();
    let mut tested = 0;
    for s in sets {
        if !ok_in(s) {
            continue;
        }
        tested += 1;
        if let Err(e) = validate_with(&b, feat_to_wasmparser(s)) {
            return Err(Failure::new(
                format!("{}escalation:{}", tag, super::c02::normalise_msg(&e)),
                format!(
                    "input validates under {{{}}} but the output does not: {} [{}]",
                    names_of(s),
                    e,
                    p.origin
                ),
            ));
        }
    }
    // witness checks for escalations the validator does not gate (named in
    // the property statement)
    if let (Ok(di), Ok(do_)) = (crate::decode::decode(&p.bytes), crate::decode::decode(&b)) {
        let lacks = |f: u32| minimal & f == 0;
        if lacks(feat::BULK_MEMORY) && lacks(feat::REF_TYPES) {
            let input_needs_count = di.datas.iter().any(|d| matches!(d.mode, crate::decode::DataMode::Passive))
                || di.funcs.iter().any(|f| f.ops.iter().any(|o| o.name == "MemoryInit" || o.name == "DataDrop"));
            if do_.data_count.is_some() && di.data_count.is_none() && !input_needs_count {
                return Err(Failure::new(
                    format!("{}witness:data-count-section-added", tag),
                    format!("input has no passive data segment, no memory.init/data.drop and no data-count section; the output has a data-count section [{}]", p.origin),
                ));
            }
            if let Some((i, e)) = do_.elems.iter().enumerate().find(|(_, e)| e.flag != 0) {
                if di.elems.iter().all(|e| e.flag == 0) {
                    return Err(Failure::new(
                        format!("{}witness:element-segment-encoding", tag),
                        format!("output element segment {} uses flag {} although every input segment used the MVP encoding (flag 0) [{}]", i, e.flag, p.origin),
                    ));
                }
            }
            if let Some((i, d)) = do_.datas.iter().enumerate().find(|(_, d)| d.flag != 0) {
                if di.datas.iter().all(|d| d.flag == 0) {
                    return Err(Failure::new(
                        format!("{}witness:data-segment-encoding", tag),
                        format!("output data segment {} uses flag {} although every input segment used flag 0 [{}]", i, d.flag, p.origin),
                    ));
                }
            }
        }
        if lacks(feat::MULTI_VALUE) {
            let in_has = di.funcs.iter().any(|f| f.ops.iter().any(|o| matches!(o.imms.first(), Some(crate::ops::Imm::Block(crate::ops::BlockTy::Func(_))))));
            if !in_has {
                for (fi, f) in do_.funcs.iter().enumerate() {
                    if let Some(o) = f.ops.iter().find(|o| matches!(o.imms.first(), Some(crate::ops::Imm::Block(crate::ops::BlockTy::Func(_))))) {
                        return Err(Failure::new(
                            format!("{}witness:block-type-through-type-section", tag),
                            format!("output function {} has {} although the input uses only inline block types [{}]", fi, o.short(), p.origin),
                        ));
                    }
                }
            }
        }
        // immediates must keep their minimal (single-byte where MVP demands) encoding
        if lacks(feat::REF_TYPES) && lacks(feat::MULTI_MEMORY) {
            for (fi, f) in do_.funcs.iter().enumerate() {
                for w in f.ops.windows(2) {
                    let (o, next) = (&w[0], &w[1]);
                    let len = next.offset - o.offset;
                    let bytes_of = &b[o.offset..next.offset];
                    let bad = match o.name {
                        "MemorySize" | "MemoryGrow" => len != 2 || bytes_of[1] != 0,
                        "CallIndirect" => *bytes_of.last().unwrap() != 0 || bytes_of[len - 2] & 0x80 != 0 && len < 3,
                        _ => false,
                    };
                    if bad {
                        return Err(Failure::new(
                            format!("{}witness:multi-byte-table-or-memory-immediate", tag),
                            format!("output function {}: {} is encoded as {:02x?} [{}]", fi, o.short(), bytes_of, p.origin),
                        ));
                    }
                }
            }
        }
    }
    if !primary {
        return Ok(());
    }
    out.label(format!("minimal-set-size:{}", minimal.count_ones()));
    if minimal == 0 {
        out.label("input-is-mvp");
    }
    let d = crate::decode::decode(&p.bytes).ok();
    let interesting = d
        .map(|d| {
            !d.datas.is_empty()
                || !d.elems.is_empty()
                || d.funcs.iter().any(|f| {
                    f.ops.iter().any(|o| {
                        o.name == "CallIndirect"
                            || o.imms.iter().any(|i| matches!(i, crate::ops::Imm::MemArg { .. }))
                            || (o.opens_block() && !matches!(o.imms.first(), Some(crate::ops::Imm::Block(crate::ops::BlockTy::Empty))))
                    })
                })
        })
        .unwrap_or(false);
    out.nontrivial = minimal != feat::ALL && interesting && tested >= 2;
    if out.nontrivial {
        out.sample = Some(json!({"origin": p.origin, "bytes": p.bytes.len(), "minimal_set": names_of(minimal), "sets_tested": tested}));
    }
    Ok(())
}


fn run(ctx: &Ctx) {
    let plans = [GenPlan {
        gen: "full-nobig",
        cases: ctx.tier.pick(60_000, 600_000),
        min_len: 0,
        max_len: ctx.tier.pick(1200, 3000),
    }];
    standard_run(ctx, check, &plans, true);
}
