//! Independent reachability analysis on a decoded binary (DESIGN §3.4),
//! written from the property text; no walrus types.

use crate::decode::*;
use crate::ops::{BlockTy, Imm, Op};

#[derive(Clone, Debug, Default)]
pub struct Reach {
    pub funcs: Vec<bool>,
    pub globals: Vec<bool>,
    pub tables: Vec<bool>,
    pub mems: Vec<bool>,
    pub datas: Vec<bool>,
    pub elems: Vec<bool>,
    pub types: Vec<bool>,
}

#[derive(Clone, Copy, Debug)]
enum Item {
    Func(u32),
    Global(u32),
    Table(u32),
    Mem(u32),
    Data(u32),
    Elem(u32),
}

struct W<'a> {
    m: &'a ModuleD,
    r: Reach,
    work: Vec<Item>,
}

impl<'a> W<'a> {
    fn push(&mut self, it: Item) {
        let (v, i) = match it {
            Item::Func(i) => (&mut self.r.funcs, i),
            Item::Global(i) => (&mut self.r.globals, i),
            Item::Table(i) => (&mut self.r.tables, i),
            Item::Mem(i) => (&mut self.r.mems, i),
            Item::Data(i) => (&mut self.r.datas, i),
            Item::Elem(i) => (&mut self.r.elems, i),
        };
        if let Some(slot) = v.get_mut(i as usize) {
            if !*slot {
                *slot = true;
                self.work.push(it);
            }
        }
    }
    fn ty(&mut self, t: u32) {
        if let Some(s) = self.r.types.get_mut(t as usize) {
            *s = true;
        }
    }
    fn ops(&mut self, ops: &[Op]) {
        for o in ops {
            for imm in &o.imms {
                match imm {
                    Imm::Func(i) => self.push(Item::Func(*i)),
                    Imm::Global(i) => self.push(Item::Global(*i)),
                    Imm::Table(i) => self.push(Item::Table(*i)),
                    Imm::Mem(i) => self.push(Item::Mem(*i)),
                    Imm::Data(i) => self.push(Item::Data(*i)),
                    Imm::Elem(i) => self.push(Item::Elem(*i)),
                    Imm::Type(i) => self.ty(*i),
                    Imm::MemArg { memory, .. } => self.push(Item::Mem(*memory)),
                    Imm::Block(BlockTy::Func(i)) => self.ty(*i),
                    _ => {}
                }
            }
        }
    }
}

pub fn reach(m: &ModuleD) -> Reach {
    let mut w = W {
        m,
        r: Reach {
            funcs: vec![false; m.n_funcs() as usize],
            globals: vec![false; m.n_globals() as usize],
            tables: vec![false; m.n_tables() as usize],
            mems: vec![false; m.n_mems() as usize],
            datas: vec![false; m.datas.len()],
            elems: vec![false; m.elems.len()],
            types: vec![false; m.types.len()],
        },
        work: vec![],
    };
    // roots
    for e in &m.exports {
        match e.kind {
            ExtKind::Func => w.push(Item::Func(e.index)),
            ExtKind::Table => w.push(Item::Table(e.index)),
            ExtKind::Memory => w.push(Item::Mem(e.index)),
            ExtKind::Global => w.push(Item::Global(e.index)),
            ExtKind::Tag => {}
        }
    }
    if let Some(s) = m.start {
        w.push(Item::Func(s));
    }
    for (i, d) in m.datas.iter().enumerate() {
        if let DataMode::Active { .. } = d.mode {
            w.push(Item::Data(i as u32));
        }
    }
    let n_imp_tables = m.imp_tables.len() as u32;
    for (i, e) in m.elems.iter().enumerate() {
        match &e.mode {
            ElemMode::Active { table, .. } if *table < n_imp_tables => w.push(Item::Elem(i as u32)),
            ElemMode::Declared => w.push(Item::Elem(i as u32)),
            _ => {}
        }
    }
    // closure
    while let Some(it) = w.work.pop() {
        match it {
            Item::Func(f) => {
                if let Some(t) = m.func_type_index(f) {
                    w.ty(t);
                }
                if let Some(b) = m.body(f) {
                    let ops = b.ops.clone();
                    w.ops(&ops);
                }
            }
            Item::Global(g) => {
                let ni = m.imp_globals.len() as u32;
                if g >= ni {
                    let ops = m.globals[(g - ni) as usize].init.clone();
                    w.ops(&ops);
                }
            }
            Item::Table(t) => {
                for (i, e) in m.elems.iter().enumerate() {
                    if let ElemMode::Active { table, .. } = &e.mode {
                        if *table == t {
                            w.push(Item::Elem(i as u32));
                        }
                    }
                }
                let ni = m.imp_tables.len() as u32;
                if t >= ni {
                    if let Some(Some(init)) = m.tables.get((t - ni) as usize).map(|t| t.init.clone()) {
                        w.ops(&init);
                    }
                }
            }
            Item::Mem(mm) => {
                for (i, d) in m.datas.iter().enumerate() {
                    if let DataMode::Active { memory, .. } = &d.mode {
                        if *memory == mm {
                            w.push(Item::Data(i as u32));
                        }
                    }
                }
            }
            Item::Data(d) => {
                if let DataMode::Active { memory, offset } = &m.datas[d as usize].mode {
                    w.push(Item::Mem(*memory));
                    let o = offset.clone();
                    w.ops(&o);
                }
            }
            Item::Elem(e) => {
                let e = m.elems[e as usize].clone();
                if let ElemMode::Active { table, offset, .. } = &e.mode {
                    w.push(Item::Table(*table));
                    w.ops(offset);
                }
                match &e.items {
                    ElemItems::Funcs(fs) => {
                        for f in fs {
                            w.push(Item::Func(*f));
                        }
                    }
                    ElemItems::Exprs(_, xs) => {
                        for x in xs {
                            w.ops(x);
                        }
                    }
                }
            }
        }
    }
    let _ = w.m;
    w.r
}

/// (kind, index) of everything not reachable.
pub fn unreachable_items(m: &ModuleD, r: &Reach) -> Vec<(String, usize)> {
    let mut v = Vec::new();
    for (name, vec) in [
        ("func", &r.funcs),
        ("global", &r.globals),
        ("table", &r.tables),
        ("memory", &r.mems),
        ("data", &r.datas),
        ("elem", &r.elems),
        ("type", &r.types),
    ] {
        for (i, b) in vec.iter().enumerate() {
            if !*b {
                v.push((name.to_string(), i));
            }
        }
    }
    let _ = m;
    v
}
