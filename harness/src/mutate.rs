//! Byte- and structure-level mutators (DESIGN §2.3). Output is *not* assumed
//! valid. All choices come from the choice stream.

use crate::ch::Ch;
use crate::decode::raw_sections;

const INTERESTING: &[u8] = &[
    0x00, 0x01, 0x02, 0x0b, 0x05, 0x40, 0x7f, 0x7e, 0x7d, 0x7c, 0x7b, 0x70, 0x6f, 0x6e, 0x64, 0x63, 0x69, 0x60, 0x80,
    0xff, 0xfb, 0xfc, 0xfd, 0xfe, 0x06, 0x07, 0x08, 0x09, 0x0a, 0x12, 0x13, 0x14, 0x15, 0x18, 0x19, 0x1f, 0xd0, 0xd1,
    0xd2, 0xd3, 0xd4, 0xd5, 0xd6, 0x0d, 0x0e, 0x10, 0x11, 0x1c, 0x25, 0x26, 0x3f, 0x40,
];

fn leb(mut v: u32) -> Vec<u8> {
    let mut out = Vec::new();
    loop {
        let b = (v & 0x7f) as u8;
        v >>= 7;
        if v == 0 {
            out.push(b);
            break;
        }
        out.push(b | 0x80);
    }
    out
}

fn section(id: u8, payload: &[u8]) -> Vec<u8> {
    let mut v = vec![id];
    v.extend(leb(payload.len() as u32));
    v.extend_from_slice(payload);
    v
}

pub fn mutate_once(bytes: &mut Vec<u8>, ch: &mut Ch) -> &'static str {
    if bytes.len() < 8 {
        bytes.extend_from_slice(&[0, 0x61, 0x73, 0x6d, 1, 0, 0, 0]);
        return "grow-header";
    }
    let k = ch.below(16);
    match k {
        0 => {
            let i = ch.below(bytes.len());
            bytes[i] ^= 1 << ch.below(8);
            "bit-flip"
        }
        1 => {
            let i = ch.below(bytes.len());
            bytes[i] = *ch.pick(INTERESTING);
            "interesting-byte"
        }
        2 => {
            let i = ch.below(bytes.len());
            bytes[i] = ch.byte();
            "random-byte"
        }
        3 => {
            let i = 8 + ch.below(bytes.len() - 7);
            bytes.truncate(i.min(bytes.len()));
            "truncate"
        }
        4 => {
            let i = ch.below(bytes.len());
            let n = 1 + ch.below(4);
            let e = (i + n).min(bytes.len());
            bytes.drain(i..e);
            "delete-range"
        }
        5 => {
            let i = ch.below(bytes.len());
            let n = 1 + ch.below(6);
            let e = (i + n).min(bytes.len());
            let chunk: Vec<u8> = bytes[i..e].to_vec();
            let at = ch.below(bytes.len() + 1);
            for (k, b) in chunk.into_iter().enumerate() {
                bytes.insert(at + k, b);
            }
            "duplicate-range"
        }
        6 => {
            // over-long LEB: b -> b|0x80, 0x00
            let i = 8 + ch.below(bytes.len() - 8 + 1).min(bytes.len() - 9.min(bytes.len() - 1));
            let i = i.min(bytes.len() - 1);
            if bytes[i] < 0x80 {
                bytes[i] |= 0x80;
                bytes.insert(i + 1, 0);
            }
            "overlong-leb"
        }
        7..=12 => {
            let secs = match raw_sections(bytes) {
                Ok(s) if !s.is_empty() => s,
                _ => {
                    let i = ch.below(bytes.len());
                    bytes[i] = ch.byte();
                    return "random-byte";
                }
            };
            match k {
                7 => {
                    let a = ch.below(secs.len());
                    let b = ch.below(secs.len());
                    if a != b {
                        let (a, b) = (a.min(b), a.max(b));
                        let sa = bytes[secs[a].whole.clone()].to_vec();
                        let sb = bytes[secs[b].whole.clone()].to_vec();
                        let mut out = bytes[..secs[a].whole.start].to_vec();
                        out.extend(&sb);
                        out.extend(&bytes[secs[a].whole.end..secs[b].whole.start]);
                        out.extend(&sa);
                        out.extend(&bytes[secs[b].whole.end..]);
                        *bytes = out;
                    }
                    "swap-sections"
                }
                8 => {
                    let a = ch.below(secs.len());
                    let s = bytes[secs[a].whole.clone()].to_vec();
                    let at = secs[ch.below(secs.len())].whole.end;
                    let tail = bytes.split_off(at);
                    bytes.extend(s);
                    bytes.extend(tail);
                    "duplicate-section"
                }
                9 => {
                    let a = ch.below(secs.len());
                    bytes.drain(secs[a].whole.clone());
                    "drop-section"
                }
                10 => {
                    let a = ch.below(secs.len());
                    bytes[secs[a].whole.start] = ch.below(16) as u8;
                    "change-section-id"
                }
                11 => {
                    // insert a section walrus does not implement / know
                    let which = ch.below(5);
                    let new = match which {
                        0 => section(13, &[1, 0, 0]),                // tag section: one tag of type 0
                        1 => section(14 + ch.below(20) as u8, &[0]), // unknown id
                        2 => section(0, &[4, b'n', b'a', b'm', b'e', 1, 2, 0xff]), // malformed name section
                        3 => section(0, &[9, b'p', b'r', b'o', b'd', b'u', b'c', b'e', b'r', b's', 0xff, 0xff]),
                        _ => section(0, &[11, b'.', b'd', b'e', b'b', b'u', b'g', b'_', b'i', b'n', b'f', b'o', 1, 2, 3]),
                    };
                    let at = if ch.bool() {
                        secs[ch.below(secs.len())].whole.end
                    } else {
                        8
                    };
                    let tail = bytes.split_off(at);
                    bytes.extend(new);
                    bytes.extend(tail);
                    "insert-foreign-section"
                }
                _ => {
                    // mutate inside the code section, where opcodes live
                    if let Some(code) = secs.iter().find(|s| s.id == 10) {
                        if code.payload.len() > 0 {
                            let i = code.payload.start + ch.below(code.payload.len());
                            bytes[i] = *ch.pick(INTERESTING);
                            return "code-byte";
                        }
                    }
                    let i = ch.below(bytes.len());
                    bytes[i] = ch.byte();
                    "random-byte"
                }
            }
        }
        13 => {
            // version / layer
            let i = 4 + ch.below(4);
            bytes[i] = ch.below(3) as u8 * 13 % 14;
            "version-bytes"
        }
        14 => {
            // section size off by one
            if let Ok(secs) = raw_sections(bytes) {
                if !secs.is_empty() {
                    let a = ch.below(secs.len());
                    let i = secs[a].whole.start + 1;
                    if bytes[i] < 0x7f && bytes[i] > 0 {
                        if ch.bool() {
                            bytes[i] += 1;
                        } else {
                            bytes[i] -= 1;
                        }
                    }
                }
            }
            "section-size-off-by-one"
        }
        _ => {
            // replace a value-type byte by a type walrus does not support
            let cands: Vec<usize> = (8..bytes.len()).filter(|i| (0x7b..=0x7f).contains(&bytes[*i]) || bytes[*i] == 0x70 || bytes[*i] == 0x6f).collect();
            if !cands.is_empty() {
                let i = *ch.pick(&cands);
                bytes[i] = *ch.pick(&[0x6e, 0x6d, 0x6c, 0x6b, 0x6a, 0x69, 0x71, 0x72, 0x73, 0x74, 0x64, 0x63, 0x7b, 0x70, 0x6f]);
            }
            "foreign-valtype"
        }
    }
}
