//! Choice-stream module generator (DESIGN §2.1). Construction, not rejection:
//! every module is valid by construction and asserted valid by the caller.

use crate::ch::*;
use crate::decode::FuncTy;
use crate::ops::VT;
use crate::optable::{self, SimpleOp};
use wasm_encoder as we;
use wasmparser::{BlockType, MemArg, Operator};

pub mod feat {
    pub const MUTABLE_GLOBAL: u32 = 1 << 0;
    pub const SIGN_EXT: u32 = 1 << 1;
    pub const SAT_FLOAT: u32 = 1 << 2;
    pub const MULTI_VALUE: u32 = 1 << 3;
    pub const BULK_MEMORY: u32 = 1 << 4;
    pub const REF_TYPES: u32 = 1 << 5;
    pub const SIMD: u32 = 1 << 6;
    pub const RELAXED_SIMD: u32 = 1 << 7;
    pub const TAIL_CALL: u32 = 1 << 8;
    pub const MULTI_MEMORY: u32 = 1 << 9;
    pub const MEMORY64: u32 = 1 << 10;
    pub const THREADS: u32 = 1 << 11;
    pub const ALL: u32 = (1 << 12) - 1;
    pub const NAMES: [&str; 12] = [
        "mutable-global",
        "sign-ext",
        "sat-float",
        "multi-value",
        "bulk-memory",
        "reference-types",
        "simd",
        "relaxed-simd",
        "tail-call",
        "multi-memory",
        "memory64",
        "threads",
    ];
}

pub fn feat_to_wasmparser(f: u32) -> wasmparser::WasmFeatures {
    use wasmparser::WasmFeatures as W;
    let mut w = W::empty();
    w.insert(W::FLOATS);
    let map = [
        (feat::MUTABLE_GLOBAL, W::MUTABLE_GLOBAL),
        (feat::SIGN_EXT, W::SIGN_EXTENSION),
        (feat::SAT_FLOAT, W::SATURATING_FLOAT_TO_INT),
        (feat::MULTI_VALUE, W::MULTI_VALUE),
        (feat::BULK_MEMORY, W::BULK_MEMORY),
        (feat::REF_TYPES, W::REFERENCE_TYPES),
        (feat::SIMD, W::SIMD),
        (feat::RELAXED_SIMD, W::RELAXED_SIMD),
        (feat::TAIL_CALL, W::TAIL_CALL),
        (feat::MULTI_MEMORY, W::MULTI_MEMORY),
        (feat::MEMORY64, W::MEMORY64),
        (feat::THREADS, W::THREADS),
    ];
    for (b, x) in map {
        if f & b != 0 {
            w.insert(x);
        }
    }
    w
}

#[derive(Clone)]
pub struct GenCfg {
    /// only operators the reference interpreter implements; loops terminate
    /// by construction; addresses mostly in bounds
    pub exec: bool,
    pub max_funcs: usize,
    pub min_funcs: usize,
    pub max_ops: usize,
    /// 0 never, 1 by choice, 2 always
    pub names: u8,
    pub customs: u8,
    pub producers: u8,
    /// add entities nothing refers to (GC fodder)
    pub garbage: bool,
    /// start each function with `i64.const TAG; drop`
    pub tags: bool,
    pub force_features: Option<u32>,
    /// exec profile: which operator names the interpreter supports
    pub supported: Option<fn(&str) -> bool>,
    /// allow memarg offsets >= 2^32 on 64-bit memories (known finding C03)
    pub big_offsets: bool,
    /// export every function (so call sequences reach everything)
    pub export_all_funcs: bool,
    /// allow two imports with the same (module, field)
    pub dup_import_names: bool,
    /// `ref.func` targets of code may be declared by an export alone (instead
    /// of a declared element segment)
    pub export_declares: bool,
}

impl GenCfg {
    pub fn full() -> GenCfg {
        GenCfg {
            exec: false,
            max_funcs: 12,
            min_funcs: 0,
            max_ops: 40,
            names: 1,
            customs: 1,
            producers: 1,
            garbage: true,
            tags: true,
            force_features: None,
            supported: None,
            big_offsets: true,
            export_all_funcs: false,
            dup_import_names: true,
            export_declares: false,
        }
    }
    pub fn exec() -> GenCfg {
        GenCfg {
            exec: true,
            max_funcs: 8,
            min_funcs: 0,
            max_ops: 40,
            names: 1,
            customs: 1,
            producers: 0,
            garbage: true,
            tags: true,
            force_features: None,
            supported: Some(crate::interp::supports),
            big_offsets: false,
            export_all_funcs: true,
            dup_import_names: false,
            export_declares: false,
        }
    }
}

#[derive(Clone, Debug)]
pub struct TableInfo {
    pub elem: VT,
    pub t64: bool,
    pub imported: bool,
    pub initial: u64,
    pub max: Option<u64>,
}
#[derive(Clone, Debug)]
pub struct MemInfo {
    pub m64: bool,
    pub shared: bool,
    pub imported: bool,
    pub initial: u64,
    pub max: Option<u64>,
}
#[derive(Clone, Debug)]
pub struct GlobalInfo {
    pub ty: VT,
    pub mutable: bool,
    pub imported: bool,
}

#[derive(Clone, Debug, Default)]
pub struct Env {
    pub feats: u32,
    pub types: Vec<FuncTy>,
    /// function index space: type index of each function, imports first
    pub funcs: Vec<u32>,
    pub n_imp_funcs: usize,
    pub tables: Vec<TableInfo>,
    pub mems: Vec<MemInfo>,
    pub globals: Vec<GlobalInfo>,
    pub n_data: u32,
    /// element type of each element segment
    pub elems: Vec<VT>,
}

impl Env {
    pub fn has(&self, f: u32) -> bool {
        self.feats & f != 0
    }
    pub fn val_types(&self) -> Vec<VT> {
        let mut v = vec![VT::I32, VT::I64, VT::F32, VT::F64];
        if self.has(feat::SIMD) {
            v.push(VT::V128);
        }
        if self.has(feat::REF_TYPES) {
            v.push(VT::FuncRef);
            v.push(VT::ExternRef);
        }
        v
    }
    pub fn sig(&self, f: u32) -> &FuncTy {
        &self.types[self.funcs[f as usize] as usize]
    }
}

#[derive(Clone, Debug)]
pub enum Item {
    Op(Operator<'static>),
    BrTable(Vec<u32>, u32),
}

#[derive(Clone, Debug, Default)]
pub struct BodyStats {
    pub ops: usize,
    pub dead_code: bool,
    pub nops: usize,
    pub if_no_else: usize,
    pub loops: usize,
    pub max_depth: usize,
    pub calls: usize,
    pub mem_ops: usize,
    pub nonzero_mem: bool,
    pub nonzero_table: bool,
    pub multi_value_blocks: usize,
    pub br_tables: usize,
    pub ref_funcs: Vec<u32>,
    pub uses_data_ops: bool,
    pub simd: usize,
    pub atomics: usize,
    pub big_offset: bool,
}

struct Frame {
    kind: FrameKind,
    params: Vec<VT>,
    results: Vec<VT>,
    height: usize,
    dead: bool,
}

#[derive(Clone, Copy, PartialEq, Eq, Debug)]
enum FrameKind {
    Func,
    Block,
    Loop,
    If,
    Else,
}

impl Frame {
    fn label_types(&self) -> &[VT] {
        if self.kind == FrameKind::Loop {
            &self.params
        } else {
            &self.results
        }
    }
}

pub struct BodyGen<'e, 'c, 'd> {
    env: &'e Env,
    cfg: &'e GenCfg,
    ch: &'c mut Ch<'d>,
    simple: &'e [usize],
    /// all locals incl. params
    pub locals: Vec<VT>,
    n_params: usize,
    pub out: Vec<Item>,
    stack: Vec<VT>,
    frames: Vec<Frame>,
    budget: usize,
    pub stats: BodyStats,
    self_index: u32,
}

fn memarg(align: u8, offset: u64, memory: u32) -> MemArg {
    MemArg {
        align,
        max_align: align,
        offset,
        memory,
    }
}

impl<'e, 'c, 'd> BodyGen<'e, 'c, 'd> {
    fn emit(&mut self, op: Operator<'static>) {
        self.out.push(Item::Op(op));
        self.stats.ops += 1;
    }

    fn cur_height(&self) -> usize {
        self.frames.last().unwrap().height
    }

    fn avail(&self) -> &[VT] {
        &self.stack[self.cur_height()..]
    }

    fn new_local(&mut self, t: VT) -> u32 {
        self.locals.push(t);
        (self.locals.len() - 1) as u32
    }

    fn locals_of(&self, t: VT) -> Vec<u32> {
        self.locals
            .iter()
            .enumerate()
            .filter(|(_, x)| **x == t)
            .map(|(i, _)| i as u32)
            .collect()
    }

    fn globals_of(&self, t: VT, need_mut: bool) -> Vec<u32> {
        self.env
            .globals
            .iter()
            .enumerate()
            .filter(|(_, g)| g.ty == t && (!need_mut || g.mutable))
            .map(|(i, _)| i as u32)
            .collect()
    }

    fn emit_const(&mut self, t: VT) {
        match t {
            VT::I32 => {
                let v = if self.ch.chance(3, 4) {
                    *self.ch.pick(I32_POOL)
                } else {
                    self.ch.u32() as i32
                };
                self.emit(Operator::I32Const { value: v })
            }
            VT::I64 => {
                let v = if self.ch.chance(3, 4) {
                    *self.ch.pick(I64_POOL)
                } else {
                    self.ch.u64() as i64
                };
                self.emit(Operator::I64Const { value: v })
            }
            VT::F32 => {
                let v = if self.ch.chance(3, 4) {
                    *self.ch.pick(F32_POOL)
                } else {
                    self.ch.u32()
                };
                self.emit(Operator::F32Const {
                    value: wasmparser::Ieee32::from(f32::from_bits(v)),
                })
            }
            VT::F64 => {
                let v = if self.ch.chance(3, 4) {
                    *self.ch.pick(F64_POOL)
                } else {
                    self.ch.u64()
                };
                self.emit(Operator::F64Const {
                    value: wasmparser::Ieee64::from(f64::from_bits(v)),
                })
            }
            VT::V128 => {
                let v = (self.ch.u64() as u128) | ((self.ch.u64() as u128) << 64);
                self.stats.simd += 1;
                self.emit(Operator::V128Const {
                    value: crate::ops::v128(v),
                })
            }
            VT::FuncRef => {
                if !self.env.funcs.is_empty() && self.ch.chance(1, 2) {
                    let f = self.ch.below(self.env.funcs.len()) as u32;
                    self.stats.ref_funcs.push(f);
                    self.emit(Operator::RefFunc { function_index: f })
                } else {
                    self.emit(Operator::RefNull {
                        hty: wasmparser::HeapType::FUNC,
                    })
                }
            }
            VT::ExternRef => self.emit(Operator::RefNull {
                hty: wasmparser::HeapType::EXTERN,
            }),
            VT::Other(_) => unreachable!(),
        }
        self.stack.push(t);
    }

    /// Push one value of type `t` (const, local.get or global.get).
    fn produce(&mut self, t: VT) {
        let ls = self.locals_of(t);
        let gs = self.globals_of(t, false);
        let k = self.ch.below(4);
        if k >= 1 && k <= 2 && !ls.is_empty() {
            let l = *self.ch.pick(&ls);
            self.emit(Operator::LocalGet { local_index: l });
            self.stack.push(t);
        } else if k == 3 && !gs.is_empty() {
            let g = *self.ch.pick(&gs);
            self.emit(Operator::GlobalGet { global_index: g });
            self.stack.push(t);
        } else {
            self.emit_const(t);
        }
    }

    /// Make the top of the stack equal `want` (reusing a matching prefix that
    /// is already there).
    fn materialise(&mut self, want: &[VT]) {
        let avail = self.avail().to_vec();
        let mut j = want.len().min(avail.len());
        loop {
            if avail[avail.len() - j..] == want[..j] {
                break;
            }
            j -= 1;
        }
        for t in &want[j..] {
            self.produce(*t);
        }
    }

    fn pop_n(&mut self, n: usize) {
        let l = self.stack.len();
        assert!(l >= n + self.cur_height(), "pop_n underflow: last op {:?} stack {:?} n {}", self.out.last(), self.stack, n);
        self.stack.truncate(l - n);
    }

    /// An address operand for memory `m`: in the exec profile mostly small and
    /// in bounds.
    fn produce_addr(&mut self, m: u32) {
        let m64 = self.env.mems[m as usize].m64;
        let t = if m64 { VT::I64 } else { VT::I32 };
        if self.cfg.exec {
            let k = self.ch.below(8);
            let base: i64 = match k {
                0..=4 => self.ch.below(256) as i64,
                5 => 65536 - self.ch.below(20) as i64,
                6 => (self.ch.below(4) as i64) * 65536 - 8 + self.ch.below(16) as i64,
                _ => -1,
            };
            if k == 7 {
                // dynamic, masked
                self.produce(t);
                if m64 {
                    self.emit(Operator::I64Const { value: 0x1ff });
                    self.emit(Operator::I64And);
                } else {
                    self.emit(Operator::I32Const { value: 0x1ff });
                    self.emit(Operator::I32And);
                }
            } else if m64 {
                self.emit(Operator::I64Const { value: base });
                self.stack.push(t);
            } else {
                self.emit(Operator::I32Const { value: base as i32 });
                self.stack.push(t);
            }
        } else {
            self.produce(t);
        }
    }

    fn pick_mem(&mut self) -> Option<u32> {
        if self.env.mems.is_empty() {
            None
        } else {
            let m = self.ch.below(self.env.mems.len()) as u32;
            if m != 0 {
                self.stats.nonzero_mem = true;
            }
            Some(m)
        }
    }

    fn pick_offset(&mut self, m64: bool) -> u64 {
        if self.cfg.exec {
            match self.ch.below(8) {
                0..=5 => self.ch.below(64) as u64,
                6 => 65530 + self.ch.below(12) as u64,
                _ => u32::MAX as u64 - self.ch.below(4) as u64,
            }
        } else {
            let pool: &[u64] = &[0, 1, 2, 4, 8, 127, 128, 255, 16383, 16384, 65535, 65536, 0x7fff_ffff, 0xffff_ffff];
            let k = self.ch.below(pool.len() + 3);
            if k < pool.len() {
                pool[k]
            } else if m64 && self.cfg.big_offsets {
                self.stats.big_offset = true;
                match k - pool.len() {
                    0 => 1u64 << 32,
                    1 => (1u64 << 32) + 7,
                    _ => u64::MAX,
                }
            } else {
                self.ch.u32() as u64
            }
        }
    }

    fn simple_op(&mut self, sop: &SimpleOp) {
        let mut params = sop.params.clone();
        let mut ma = memarg(0, 0, 0);
        let mut lane = 0u8;
        if sop.has_memarg() {
            let m = match self.pick_mem() {
                Some(m) => m,
                None => return,
            };
            let m64 = self.env.mems[m as usize].m64;
            let align = *self.ch.pick(&sop.aligns);
            let offset = self.pick_offset(m64);
            ma = memarg(align, offset, m);
            if m64 {
                params[0] = VT::I64;
            }
            self.stats.mem_ops += 1;
        }
        if sop.has_lane() {
            lane = self.ch.below(sop.max_lane as usize + 1) as u8;
        }
        if sop.proposal == "simd" || sop.proposal == "relaxed_simd" {
            self.stats.simd += 1;
        }
        if sop.proposal == "threads" {
            self.stats.atomics += 1;
        }
        if sop.has_memarg() {
            // address first, then the remaining operands
            self.produce_addr(ma.memory);
            for t in &params[1..] {
                self.produce(*t);
            }
        } else {
            self.materialise(&params);
        }
        self.pop_n(params.len());
        self.emit(sop.build(ma, lane));
        for r in &sop.results {
            self.stack.push(*r);
        }
    }

    fn block_type(&mut self) -> (BlockType, Vec<VT>, Vec<VT>) {
        let vts = self.env.val_types();
        let k = self.ch.below(6);
        match k {
            0 | 1 => (BlockType::Empty, vec![], vec![]),
            2 | 3 => {
                let t = *self.ch.pick(&vts);
                (BlockType::Type(t.to_wp()), vec![], vec![t])
            }
            _ => {
                if self.env.has(feat::MULTI_VALUE) && !self.env.types.is_empty() {
                    let cands: Vec<usize> = (0..self.env.types.len())
                        .filter(|i| self.env.types[*i].params.len() <= 3)
                        .collect();
                    if cands.is_empty() {
                        return (BlockType::Empty, vec![], vec![]);
                    }
                    let i = *self.ch.pick(&cands);
                    let t = self.env.types[i].clone();
                    self.stats.multi_value_blocks += 1;
                    (BlockType::FuncType(i as u32), t.params, t.results)
                } else {
                    (BlockType::Empty, vec![], vec![])
                }
            }
        }
    }

    /// Close the current frame: bring the stack to exactly `results`.
    fn fixup_to(&mut self, results: &[VT]) {
        let h = self.cur_height();
        if self.stack[h..] == *results {
            return;
        }
        // try to keep the top value flowing out when there is a single result
        if results.len() == 1 && self.stack.len() > h && self.stack.last() == Some(&results[0]) {
            let n = self.stack.len() - h;
            if n > 1 {
                let tmp = self.new_local(results[0]);
                self.emit(Operator::LocalSet { local_index: tmp });
                self.stack.pop();
                while self.stack.len() > h {
                    self.emit(Operator::Drop);
                    self.stack.pop();
                }
                self.emit(Operator::LocalGet { local_index: tmp });
                self.stack.push(results[0]);
            }
            return;
        }
        while self.stack.len() > h {
            self.emit(Operator::Drop);
            self.stack.pop();
        }
        for t in results {
            self.produce(*t);
        }
    }

    fn depth(&self) -> usize {
        self.frames.len()
    }

    fn open(&mut self, kind: FrameKind, params: Vec<VT>, results: Vec<VT>) {
        let height = self.stack.len() - params.len();
        self.frames.push(Frame {
            kind,
            params,
            results,
            height,
            dead: false,
        });
        if self.depth() > self.stats.max_depth {
            self.stats.max_depth = self.depth();
        }
    }

    fn close(&mut self) {
        let f = self.frames.pop().unwrap();
        self.stack.truncate(f.height);
        self.stack.extend(f.results.iter().copied());
    }

    fn mark_dead(&mut self) {
        // after a terminator the rest of the frame is dead; generation simply
        // continues from an empty frame-local stack (valid: polymorphic stack)
        let h = self.cur_height();
        self.stack.truncate(h);
        self.frames.last_mut().unwrap().dead = true;
    }

    fn gen_block(&mut self, kind: FrameKind) {
        let (bt, params, results) = self.block_type();
        self.materialise(&params);
        match kind {
            FrameKind::Block => {
                self.emit(Operator::Block { blockty: bt });
                self.open(FrameKind::Block, params, results.clone());
                self.gen_seq();
                self.fixup_to(&results);
                self.emit(Operator::End);
                self.close();
            }
            FrameKind::Loop => {
                self.stats.loops += 1;
                let counter = if self.cfg.exec {
                    let c = self.new_local(VT::I32);
                    // counter initialised *before* the params are consumed:
                    // initialise before materialising would be cleaner, but a
                    // const;set pair is stack-neutral so it is fine here.
                    let n = 1 + self.ch.below(3) as i32;
                    self.emit(Operator::I32Const { value: n });
                    self.emit(Operator::LocalSet { local_index: c });
                    Some(c)
                } else {
                    None
                };
                self.emit(Operator::Loop { blockty: bt });
                self.open(FrameKind::Loop, params.clone(), results.clone());
                self.gen_seq();
                if let Some(c) = counter {
                    // conditional back-edge: loop params must be on top
                    let dead = self.frames.last().unwrap().dead;
                    if !dead || self.ch.bool() {
                        self.materialise(&params);
                        self.emit(Operator::LocalGet { local_index: c });
                        self.emit(Operator::I32Const { value: 1 });
                        self.emit(Operator::I32Sub);
                        self.emit(Operator::LocalTee { local_index: c });
                        self.emit(Operator::BrIf { relative_depth: 0 });
                    }
                }
                self.fixup_to(&results);
                self.emit(Operator::End);
                self.close();
            }
            FrameKind::If => {
                self.produce(VT::I32);
                self.stack.pop();
                self.emit(Operator::If { blockty: bt });
                self.open(FrameKind::If, params.clone(), results.clone());
                self.gen_seq();
                self.fixup_to(&results);
                let want_else = params != results || self.ch.chance(2, 3);
                if want_else {
                    self.emit(Operator::Else);
                    // restart the frame as Else with params on the stack
                    let f = self.frames.last_mut().unwrap();
                    f.kind = FrameKind::Else;
                    f.dead = false;
                    let h = f.height;
                    self.stack.truncate(h);
                    self.stack.extend(params.iter().copied());
                    self.gen_seq();
                    self.fixup_to(&results);
                } else {
                    self.stats.if_no_else += 1;
                }
                self.emit(Operator::End);
                self.close();
            }
            _ => unreachable!(),
        }
    }

    fn br_targets(&self) -> Vec<u32> {
        // in the exec profile, never branch backwards except through the
        // counter pattern
        (0..self.frames.len() as u32)
            .filter(|d| {
                let f = &self.frames[self.frames.len() - 1 - *d as usize];
                !(self.cfg.exec && f.kind == FrameKind::Loop)
            })
            .collect()
    }

    fn gen_branch(&mut self, which: usize) {
        let targets = self.br_targets();
        match which {
            0 => {
                // br_if
                if targets.is_empty() {
                    return;
                }
                let d = *self.ch.pick(&targets);
                let lt = self.frames[self.frames.len() - 1 - d as usize].label_types().to_vec();
                self.materialise(&lt);
                self.produce(VT::I32);
                self.stack.pop();
                self.emit(Operator::BrIf { relative_depth: d });
            }
            1 => {
                if targets.is_empty() {
                    return;
                }
                let d = *self.ch.pick(&targets);
                let lt = self.frames[self.frames.len() - 1 - d as usize].label_types().to_vec();
                self.materialise(&lt);
                self.emit(Operator::Br { relative_depth: d });
                self.mark_dead();
            }
            2 => {
                if targets.is_empty() {
                    return;
                }
                let d = *self.ch.pick(&targets);
                let lt = self.frames[self.frames.len() - 1 - d as usize].label_types().to_vec();
                let same: Vec<u32> = targets
                    .iter()
                    .copied()
                    .filter(|t| self.frames[self.frames.len() - 1 - *t as usize].label_types() == &lt[..])
                    .collect();
                let n = self.ch.below(5);
                let ts: Vec<u32> = (0..n).map(|_| *self.ch.pick(&same)).collect();
                self.materialise(&lt);
                self.produce(VT::I32);
                self.stack.pop();
                self.out.push(Item::BrTable(ts, d));
                self.stats.ops += 1;
                self.stats.br_tables += 1;
                self.mark_dead();
            }
            3 => {
                let r = self.frames[0].results.clone();
                self.materialise(&r);
                self.emit(Operator::Return);
                self.mark_dead();
            }
            _ => {
                self.emit(Operator::Unreachable);
                self.mark_dead();
            }
        }
    }

    fn funcref_tables(&self) -> Vec<u32> {
        self.env
            .tables
            .iter()
            .enumerate()
            .filter(|(_, t)| t.elem == VT::FuncRef)
            .map(|(i, _)| i as u32)
            .collect()
    }

    fn table_index_ty(&self, t: u32) -> VT {
        if self.env.tables[t as usize].t64 {
            VT::I64
        } else {
            VT::I32
        }
    }

    fn produce_table_index(&mut self, t: u32) {
        let ty = self.table_index_ty(t);
        if self.cfg.exec {
            let v = self.ch.below(10) as i64;
            if ty == VT::I64 {
                self.emit(Operator::I64Const { value: v });
            } else {
                self.emit(Operator::I32Const { value: v as i32 });
            }
            self.stack.push(ty);
        } else {
            self.produce(ty);
        }
    }

    fn gen_call(&mut self, which: usize) {
        let env = self.env;
        match which {
            0 => {
                if env.funcs.is_empty() {
                    return;
                }
                let f = if self.cfg.exec && self.ch.chance(3, 4) {
                    // mostly call "forward" so that recursion is uncommon
                    let lo = (self.self_index + 1) as usize;
                    if lo < env.funcs.len() {
                        lo + self.ch.below(env.funcs.len() - lo)
                    } else {
                        self.ch.below(env.funcs.len())
                    }
                } else {
                    self.ch.below(env.funcs.len())
                } as u32;
                let sig = env.sig(f).clone();
                self.materialise(&sig.params);
                self.pop_n(sig.params.len());
                self.emit(Operator::Call { function_index: f });
                self.stack.extend(sig.results);
                self.stats.calls += 1;
            }
            1 => {
                let tabs = self.funcref_tables();
                if tabs.is_empty() || env.types.is_empty() {
                    return;
                }
                let t = if env.has(feat::REF_TYPES) {
                    *self.ch.pick(&tabs)
                } else if tabs.contains(&0) {
                    0
                } else {
                    return;
                };
                if t != 0 {
                    self.stats.nonzero_table = true;
                }
                let ti = self.ch.below(env.types.len()) as u32;
                let sig = env.types[ti as usize].clone();
                self.materialise(&sig.params);
                self.produce_table_index(t);
                self.pop_n(sig.params.len() + 1);
                self.emit(Operator::CallIndirect {
                    type_index: ti,
                    table_index: t,
                });
                self.stack.extend(sig.results);
                self.stats.calls += 1;
            }
            2 => {
                if !env.has(feat::TAIL_CALL) {
                    return;
                }
                let my = self.frames[0].results.clone();
                let cands: Vec<u32> = (0..env.funcs.len() as u32)
                    .filter(|f| env.sig(*f).results == my)
                    .filter(|f| !self.cfg.exec || *f > self.self_index)
                    .collect();
                if cands.is_empty() {
                    return;
                }
                let f = *self.ch.pick(&cands);
                let sig = env.sig(f).clone();
                self.materialise(&sig.params);
                self.emit(Operator::ReturnCall { function_index: f });
                self.stats.calls += 1;
                self.mark_dead();
            }
            _ => {
                if !env.has(feat::TAIL_CALL) {
                    return;
                }
                let tabs = self.funcref_tables();
                let my = self.frames[0].results.clone();
                let cands: Vec<u32> = (0..env.types.len() as u32)
                    .filter(|t| env.types[*t as usize].results == my)
                    .collect();
                if tabs.is_empty() || cands.is_empty() {
                    return;
                }
                let t = if env.has(feat::REF_TYPES) {
                    *self.ch.pick(&tabs)
                } else if tabs.contains(&0) {
                    0
                } else {
                    return;
                };
                let ti = *self.ch.pick(&cands);
                let sig = env.types[ti as usize].clone();
                self.materialise(&sig.params);
                self.produce_table_index(t);
                self.emit(Operator::ReturnCallIndirect {
                    type_index: ti,
                    table_index: t,
                });
                self.stats.calls += 1;
                self.mark_dead();
            }
        }
    }

    fn small_len(&mut self, m64: bool) {
        // a length / count operand
        let v = if self.cfg.exec {
            self.ch.below(12) as i64
        } else {
            *self.ch.pick(I32_POOL) as i64
        };
        if m64 {
            self.emit(Operator::I64Const { value: v });
            self.stack.push(VT::I64);
        } else {
            self.emit(Operator::I32Const { value: v as i32 });
            self.stack.push(VT::I32);
        }
    }

    fn gen_memory_misc(&mut self) {
        let env = self.env;
        let m = match self.pick_mem() {
            Some(m) => m,
            None => return,
        };
        let m64 = env.mems[m as usize].m64;
        let at = if m64 { VT::I64 } else { VT::I32 };
        let bulk = env.has(feat::BULK_MEMORY);
        let k = self.ch.below(if bulk { 6 } else { 2 });
        self.stats.mem_ops += 1;
        match k {
            0 => {
                self.emit(Operator::MemorySize { mem: m });
                self.stack.push(at);
            }
            1 => {
                let v = self.ch.below(3) as i64;
                if m64 {
                    self.emit(Operator::I64Const { value: v });
                } else {
                    self.emit(Operator::I32Const { value: v as i32 });
                }
                self.emit(Operator::MemoryGrow { mem: m });
                self.stack.push(at);
            }
            2 => {
                self.produce_addr(m);
                self.produce(VT::I32);
                self.small_len(m64);
                self.pop_n(3);
                self.emit(Operator::MemoryFill { mem: m });
            }
            3 => {
                let src = self.pick_mem().unwrap();
                let s64 = env.mems[src as usize].m64;
                self.produce_addr(m);
                self.produce_addr(src);
                self.small_len(m64 && s64);
                self.pop_n(3);
                self.emit(Operator::MemoryCopy {
                    dst_mem: m,
                    src_mem: src,
                });
            }
            4 => {
                if env.n_data == 0 {
                    return;
                }
                let d = self.ch.below(env.n_data as usize) as u32;
                self.produce_addr(m);
                let off = self.ch.below(6) as i32;
                self.emit(Operator::I32Const { value: off });
                self.stack.push(VT::I32);
                self.small_len(false);
                self.pop_n(3);
                self.emit(Operator::MemoryInit {
                    data_index: d,
                    mem: m,
                });
                self.stats.uses_data_ops = true;
            }
            _ => {
                if env.n_data == 0 {
                    return;
                }
                let d = self.ch.below(env.n_data as usize) as u32;
                self.emit(Operator::DataDrop { data_index: d });
                self.stats.uses_data_ops = true;
            }
        }
    }

    fn gen_table_misc(&mut self) {
        let env = self.env;
        if env.tables.is_empty() || !env.has(feat::REF_TYPES) {
            // without reference types only call_indirect and (with bulk
            // memory) table.copy/init/elem.drop on table 0 exist
            return self.gen_table_bulk();
        }
        let t = self.ch.below(env.tables.len()) as u32;
        if t != 0 {
            self.stats.nonzero_table = true;
        }
        let et = env.tables[t as usize].elem;
        let it = self.table_index_ty(t);
        match self.ch.below(6) {
            0 => {
                self.produce_table_index(t);
                self.pop_n(1);
                self.emit(Operator::TableGet { table: t });
                self.stack.push(et);
            }
            1 => {
                self.produce_table_index(t);
                self.produce(et);
                self.pop_n(2);
                self.emit(Operator::TableSet { table: t });
            }
            2 => {
                self.emit(Operator::TableSize { table: t });
                self.stack.push(it);
            }
            3 => {
                self.produce(et);
                let n = self.ch.below(3) as i64;
                if it == VT::I64 {
                    self.emit(Operator::I64Const { value: n });
                } else {
                    self.emit(Operator::I32Const { value: n as i32 });
                }
                self.pop_n(1);
                self.emit(Operator::TableGrow { table: t });
                self.stack.push(it);
            }
            4 => {
                self.produce_table_index(t);
                self.produce(et);
                self.small_len(it == VT::I64);
                self.pop_n(3);
                self.emit(Operator::TableFill { table: t });
            }
            _ => self.gen_table_bulk(),
        }
    }

    fn gen_table_bulk(&mut self) {
        let env = self.env;
        if env.tables.is_empty() || !env.has(feat::BULK_MEMORY) {
            return;
        }
        let multi = env.has(feat::REF_TYPES);
        let t = if multi {
            self.ch.below(env.tables.len()) as u32
        } else {
            0
        };
        let et = env.tables[t as usize].elem;
        let it = self.table_index_ty(t);
        match self.ch.below(3) {
            0 => {
                let cands: Vec<u32> = (0..env.tables.len() as u32)
                    .filter(|s| env.tables[*s as usize].elem == et && (multi || *s == 0))
                    .collect();
                let s = *self.ch.pick(&cands);
                let st = self.table_index_ty(s);
                self.produce_table_index(t);
                self.produce_table_index(s);
                self.small_len(it == VT::I64 && st == VT::I64);
                self.pop_n(3);
                self.emit(Operator::TableCopy {
                    dst_table: t,
                    src_table: s,
                });
                if t != 0 || s != 0 {
                    self.stats.nonzero_table = true;
                }
            }
            1 => {
                let cands: Vec<u32> = (0..env.elems.len() as u32)
                    .filter(|e| env.elems[*e as usize] == et)
                    .collect();
                if cands.is_empty() {
                    return;
                }
                let e = *self.ch.pick(&cands);
                self.produce_table_index(t);
                let off = self.ch.below(4) as i32;
                self.emit(Operator::I32Const { value: off });
                self.stack.push(VT::I32);
                self.small_len(false);
                self.pop_n(3);
                self.emit(Operator::TableInit {
                    elem_index: e,
                    table: t,
                });
            }
            _ => {
                if env.elems.is_empty() {
                    return;
                }
                let e = self.ch.below(env.elems.len()) as u32;
                self.emit(Operator::ElemDrop { elem_index: e });
            }
        }
    }

    fn gen_ref_misc(&mut self) {
        if !self.env.has(feat::REF_TYPES) {
            return;
        }
        match self.ch.below(4) {
            0 => {
                let t = if self.ch.bool() { VT::FuncRef } else { VT::ExternRef };
                self.emit_const(t);
            }
            1 => {
                let t = if self.ch.bool() { VT::FuncRef } else { VT::ExternRef };
                let a = self.avail();
                if a.last() != Some(&VT::FuncRef) && a.last() != Some(&VT::ExternRef) {
                    self.produce(t);
                }
                self.stack.pop();
                self.emit(Operator::RefIsNull);
                self.stack.push(VT::I32);
            }
            2 => {
                // typed select
                let vts = self.env.val_types();
                let t = *self.ch.pick(&vts);
                self.materialise(&[t, t]);
                self.produce(VT::I32);
                self.pop_n(3);
                self.emit(Operator::TypedSelect { ty: t.to_wp() });
                self.stack.push(t);
            }
            _ => {
                if self.env.funcs.is_empty() {
                    return;
                }
                let f = self.ch.below(self.env.funcs.len()) as u32;
                self.stats.ref_funcs.push(f);
                self.emit(Operator::RefFunc { function_index: f });
                self.stack.push(VT::FuncRef);
            }
        }
    }

    fn gen_var(&mut self) {
        let vts = self.env.val_types();
        match self.ch.below(5) {
            0 => {
                if self.locals.is_empty() {
                    return;
                }
                let l = self.ch.below(self.locals.len());
                self.emit(Operator::LocalGet { local_index: l as u32 });
                self.stack.push(self.locals[l]);
            }
            1 | 2 => {
                // set / tee: prefer a local whose type is on top
                let top = self.avail().last().copied();
                let t = match top {
                    Some(t) if !self.locals_of(t).is_empty() => t,
                    _ => {
                        if self.locals.is_empty() {
                            return;
                        }
                        let l = self.ch.below(self.locals.len());
                        let t = self.locals[l];
                        self.produce(t);
                        t
                    }
                };
                let ls = self.locals_of(t);
                let l = *self.ch.pick(&ls);
                if self.ch.bool() {
                    self.emit(Operator::LocalSet { local_index: l });
                    self.stack.pop();
                } else {
                    self.emit(Operator::LocalTee { local_index: l });
                }
            }
            3 => {
                if self.env.globals.is_empty() {
                    return;
                }
                let g = self.ch.below(self.env.globals.len());
                self.emit(Operator::GlobalGet { global_index: g as u32 });
                self.stack.push(self.env.globals[g].ty);
            }
            _ => {
                let muts: Vec<u32> = (0..self.env.globals.len() as u32)
                    .filter(|g| self.env.globals[*g as usize].mutable)
                    .collect();
                if muts.is_empty() {
                    return;
                }
                let g = *self.ch.pick(&muts);
                let t = self.env.globals[g as usize].ty;
                let _ = &vts;
                self.materialise(&[t]);
                self.pop_n(1);
                self.emit(Operator::GlobalSet { global_index: g });
            }
        }
    }

    fn gen_parametric(&mut self) {
        match self.ch.below(3) {
            0 => {
                self.emit(Operator::Nop);
                self.stats.nops += 1;
            }
            1 => {
                if self.avail().is_empty() {
                    let vts = self.env.val_types();
                    let t = *self.ch.pick(&vts);
                    self.produce(t);
                }
                self.emit(Operator::Drop);
                self.stack.pop();
            }
            _ => {
                // untyped select: numeric / vector operands only
                let mut vts = vec![VT::I32, VT::I64, VT::F32, VT::F64];
                if self.env.has(feat::SIMD) {
                    vts.push(VT::V128);
                }
                let t = *self.ch.pick(&vts);
                self.materialise(&[t, t]);
                self.produce(VT::I32);
                self.pop_n(3);
                self.emit(Operator::Select);
                self.stack.push(t);
            }
        }
    }

    fn gen_simd_special(&mut self) {
        if !self.env.has(feat::SIMD) {
            return;
        }
        if self.ch.bool() {
            self.emit_const(VT::V128);
        } else {
            self.materialise(&[VT::V128, VT::V128]);
            self.pop_n(2);
            let mut lanes = [0u8; 16];
            for l in lanes.iter_mut() {
                *l = self.ch.below(32) as u8;
            }
            self.emit(Operator::I8x16Shuffle { lanes });
            self.stack.push(VT::V128);
            self.stats.simd += 1;
        }
    }

    fn gen_seq(&mut self) {
        let table = optable::table();
        loop {
            if self.budget == 0 || self.ch.exhausted() {
                return;
            }
            self.budget -= 1;
            // too much on the stack: consume
            if self.avail().len() > 5 {
                self.emit(Operator::Drop);
                self.stack.pop();
                continue;
            }
            let dead = self.frames.last().unwrap().dead;
            if dead && self.ch.chance(1, 2) {
                return; // keep dead code short
            }
            let k = self.ch.below(32);
            match k {
                0 => return,
                1..=12 => {
                    if self.simple.is_empty() {
                        continue;
                    }
                    let i = self.simple[self.ch.below(self.simple.len())];
                    let sop = table[i].clone();
                    self.simple_op(&sop);
                }
                13 | 14 => {
                    let vts = self.env.val_types();
                    let t = *self.ch.pick(&vts);
                    self.emit_const(t);
                }
                15..=17 => self.gen_var(),
                18 => self.gen_parametric(),
                19 | 20 => {
                    if self.depth() < 6 {
                        let kind = match self.ch.below(3) {
                            0 => FrameKind::Block,
                            1 => FrameKind::If,
                            _ => FrameKind::Loop,
                        };
                        self.gen_block(kind);
                    }
                }
                21 | 22 => {
                    let w = self.ch.below(7);
                    self.gen_branch(if w >= 5 { 0 } else { w })
                }
                23 | 24 => {
                    let w = self.ch.below(6);
                    self.gen_call(if w >= 4 { 0 } else { w })
                }
                25 | 26 => self.gen_memory_misc(),
                27 => self.gen_table_misc(),
                28 => self.gen_ref_misc(),
                29 => self.gen_simd_special(),
                30 => {
                    self.emit(Operator::Nop);
                    self.stats.nops += 1;
                }
                _ => self.gen_parametric(),
            }
        }
    }
}

/// Generate one function body. Returns (declared local groups, items, stats).
pub fn gen_body(
    env: &Env,
    cfg: &GenCfg,
    ch: &mut Ch,
    simple: &[usize],
    self_index: u32,
    tag: Option<i64>,
) -> (Vec<(u32, VT)>, Vec<Item>, BodyStats) {
    let sig = env.sig(self_index).clone();
    let vts = env.val_types();
    let mut locals: Vec<VT> = sig.params.clone();
    // declared locals, in split groups
    let n_groups = ch.below(5);
    let mut groups: Vec<(u32, VT)> = Vec::new();
    for _ in 0..n_groups {
        let t = *ch.pick(&vts);
        let n = if !cfg.exec && ch.chance(1, 40) {
            130 + ch.below(10) as u32
        } else if ch.chance(1, 10) {
            // a declaration group may be empty
            0
        } else {
            1 + ch.below(3) as u32
        };
        groups.push((n, t));
        for _ in 0..n {
            locals.push(t);
        }
    }
    // when a group has 128 or more locals, half of the bodies use every one
    // of them (so that the emitted run count needs a two-byte LEB too)
    let big_use: Option<(usize, usize)> = {
        let mut at = sig.params.len();
        let mut found = None;
        for (n, _) in &groups {
            if *n >= 128 {
                found = Some((at, *n as usize));
            }
            at += *n as usize;
        }
        if found.is_some() && ch.bool() {
            found
        } else {
            None
        }
    };
    let declared_from_groups = locals.len();
    let mut g = BodyGen {
        env,
        cfg,
        ch,
        simple,
        locals,
        n_params: sig.params.len(),
        out: Vec::new(),
        stack: Vec::new(),
        frames: vec![Frame {
            kind: FrameKind::Func,
            params: vec![],
            results: sig.results.clone(),
            height: 0,
            dead: false,
        }],
        budget: cfg.max_ops,
        stats: BodyStats::default(),
        self_index,
    };
    if let Some(t) = tag {
        g.emit(Operator::I64Const { value: t });
        g.emit(Operator::Drop);
    }
    if let Some((first, n)) = big_use {
        for k in 0..n {
            g.emit(Operator::LocalGet { local_index: (first + k) as u32 });
            g.emit(Operator::Drop);
        }
    }
    g.budget = 1 + g.ch.below(cfg.max_ops);
    g.gen_seq();
    g.fixup_to(&sig.results);
    g.emit(Operator::End);
    g.stats.dead_code = g.stats.dead_code || g.out.iter().any(|_| false);
    // extra locals created on the fly become one more group each
    let extra: Vec<VT> = g.locals[declared_from_groups..].to_vec();
    for t in extra {
        groups.push((1, t));
    }
    let _ = g.n_params;
    let stats = g.stats.clone();
    (groups, g.out, stats)
}

/// A custom section; a name starting with U+0001 is written without that
/// character and with its length as a padded two-byte LEB.
fn emit_custom(m: &mut we::Module, name: &str, data: &[u8]) {
    if let Some(real) = name.strip_prefix('\u{1}') {
        let nb = real.as_bytes();
        if nb.len() < 128 {
            let mut payload = vec![nb.len() as u8 | 0x80, 0x00];
            payload.extend_from_slice(nb);
            payload.extend_from_slice(data);
            m.section(&we::RawSection { id: 0, data: &payload });
            return;
        }
    }
    let name = name.strip_prefix('\u{1}').unwrap_or(name);
    m.section(&we::CustomSection {
        name: name.into(),
        data: data.into(),
    });
}

pub fn encode_items(f: &mut we::Function, items: &[Item]) {
    use we::reencode::Reencode;
    let mut r = we::reencode::RoundtripReencoder;
    for it in items {
        match it {
            Item::Op(op) => {
                let i = r.instruction(op.clone()).expect("reencode generated operator");
                f.instruction(&i);
            }
            Item::BrTable(ts, d) => {
                f.instruction(&we::Instruction::BrTable(ts.clone().into(), *d));
            }
        }
    }
}

// ---------------------------------------------------------------------------
// module level

#[derive(Clone, Debug, Default)]
pub struct Spec {
    pub feats: u32,
    pub n_types: usize,
    pub n_imports: usize,
    pub n_funcs: usize,
    pub n_local_funcs: usize,
    pub n_tables: usize,
    pub n_mems: usize,
    pub n_globals: usize,
    pub n_elems: usize,
    pub n_data: usize,
    pub n_exports: usize,
    pub n_customs: usize,
    pub has_start: bool,
    pub has_names: bool,
    pub has_producers: bool,
    pub labels: Vec<String>,
    pub body: BodyStats,
    pub total_ops: usize,
    pub tags: Vec<i64>,
    pub export_names: Vec<String>,
}

#[derive(Clone, Debug)]
enum ConstInit {
    I32(i32),
    I64(i64),
    F32(u32),
    F64(u64),
    V128(u128),
    GlobalGet(u32),
    RefFunc(u32),
    RefNull(VT),
}

impl ConstInit {
    fn to_we(&self) -> we::ConstExpr {
        match self {
            ConstInit::I32(v) => we::ConstExpr::i32_const(*v),
            ConstInit::I64(v) => we::ConstExpr::i64_const(*v),
            ConstInit::F32(v) => we::ConstExpr::f32_const(f32::from_bits(*v)),
            ConstInit::F64(v) => we::ConstExpr::f64_const(f64::from_bits(*v)),
            ConstInit::V128(v) => we::ConstExpr::v128_const(*v as i128),
            ConstInit::GlobalGet(g) => we::ConstExpr::global_get(*g),
            ConstInit::RefFunc(f) => we::ConstExpr::ref_func(*f),
            ConstInit::RefNull(t) => we::ConstExpr::ref_null(match t {
                VT::ExternRef => we::HeapType::Abstract {
                    shared: false,
                    ty: we::AbstractHeapType::Extern,
                },
                _ => we::HeapType::Abstract {
                    shared: false,
                    ty: we::AbstractHeapType::Func,
                },
            }),
        }
    }
}

fn gen_const_init(ch: &mut Ch, env: &Env, t: VT, n_funcs_total: usize, ref_funcs: &mut Vec<u32>) -> ConstInit {
    // global.get of an imported immutable global of the same type
    let cands: Vec<u32> = env
        .globals
        .iter()
        .enumerate()
        .filter(|(_, g)| g.imported && !g.mutable && g.ty == t)
        .map(|(i, _)| i as u32)
        .collect();
    if !cands.is_empty() && ch.chance(1, 3) {
        return ConstInit::GlobalGet(*ch.pick(&cands));
    }
    match t {
        VT::I32 => ConstInit::I32(if ch.chance(3, 4) { *ch.pick(I32_POOL) } else { ch.u32() as i32 }),
        VT::I64 => ConstInit::I64(if ch.chance(3, 4) { *ch.pick(I64_POOL) } else { ch.u64() as i64 }),
        VT::F32 => ConstInit::F32(if ch.chance(3, 4) { *ch.pick(F32_POOL) } else { ch.u32() }),
        VT::F64 => ConstInit::F64(if ch.chance(3, 4) { *ch.pick(F64_POOL) } else { ch.u64() }),
        VT::V128 => ConstInit::V128((ch.u64() as u128) | ((ch.u64() as u128) << 64)),
        VT::FuncRef => {
            if n_funcs_total > 0 && ch.chance(2, 3) {
                let f = ch.below(n_funcs_total) as u32;
                ref_funcs.push(f);
                ConstInit::RefFunc(f)
            } else {
                ConstInit::RefNull(VT::FuncRef)
            }
        }
        VT::ExternRef => ConstInit::RefNull(VT::ExternRef),
        VT::Other(_) => unreachable!(),
    }
}

enum ImportG {
    Func(u32),
    Table(TableInfo),
    Mem(MemInfo),
    Global(GlobalInfo),
}

#[derive(Clone, Debug)]
enum ElemModeG {
    Active { table: Option<u32>, offset: ConstInit },
    Passive,
    Declared,
}
#[derive(Clone, Debug)]
enum ElemItemsG {
    Funcs(Vec<u32>),
    Exprs(VT, Vec<ConstInit>),
}
#[derive(Clone, Debug)]
struct ElemG {
    mode: ElemModeG,
    items: ElemItemsG,
}
#[derive(Clone, Debug)]
enum DataModeG {
    Active { mem: u32, offset: ConstInit },
    Passive,
}
#[derive(Clone, Debug)]
struct DataG {
    mode: DataModeG,
    bytes: Vec<u8>,
}

fn table_type(t: &TableInfo) -> we::TableType {
    we::TableType {
        element_type: if t.elem == VT::ExternRef {
            we::RefType::EXTERNREF
        } else {
            we::RefType::FUNCREF
        },
        table64: t.t64,
        minimum: t.initial,
        maximum: t.max,
        shared: false,
    }
}
fn mem_type(m: &MemInfo) -> we::MemoryType {
    we::MemoryType {
        minimum: m.initial,
        maximum: m.max,
        memory64: m.m64,
        shared: m.shared,
        page_size_log2: None,
    }
}

fn gen_table(ch: &mut Ch, feats: u32, imported: bool, exec: bool) -> TableInfo {
    let elem = if feats & feat::REF_TYPES != 0 && ch.chance(1, 3) {
        VT::ExternRef
    } else {
        VT::FuncRef
    };
    let t64 = feats & feat::MEMORY64 != 0 && ch.chance(1, 5);
    let _ = exec;
    let initial = ch.below(9) as u64;
    let mut max = if ch.bool() {
        Some(initial + ch.below(6) as u64)
    } else {
        None
    };
    if !exec && max.is_some() && ch.chance(1, 6) {
        max = Some(if t64 {
            *ch.pick(&[0xffff_ffffu64, 1 << 32, 1 << 40])
        } else {
            *ch.pick(&[0xffff_fffeu64, 0xffff_ffff])
        });
    }
    TableInfo {
        elem,
        t64,
        imported,
        initial,
        max,
    }
}

fn gen_mem(ch: &mut Ch, feats: u32, imported: bool, exec: bool) -> MemInfo {
    let m64 = feats & feat::MEMORY64 != 0 && ch.chance(1, 3);
    let shared = feats & feat::THREADS != 0 && ch.chance(1, 3);
    let mut initial = ch.below(3) as u64;
    if exec && initial == 0 && ch.chance(7, 8) {
        initial = 1;
    }
    let mut max = if shared || ch.bool() {
        Some(initial + ch.below(3) as u64)
    } else {
        None
    };
    // limits at and beyond the 32-bit boundaries (the exec profile's
    // interpreter caps every memory at a few pages on both sides of the
    // comparison, so a large declared maximum costs nothing there)
    if max.is_some() && ch.chance(1, 6) {
        max = Some(if m64 {
            *ch.pick(&[65536u64, 65537, 1 << 32, (1 << 48) - 1, 1 << 48])
        } else {
            *ch.pick(&[65535u64, 65536])
        });
    }
    MemInfo {
        m64,
        shared,
        imported,
        initial,
        max,
    }
}

fn gen_name(ch: &mut Ch, prefix: &str, n: usize) -> String {
    match ch.below(8) {
        0 => format!("{}{}", prefix, n),
        1 => format!("{}_{}_é", prefix, n),
        2 => format!("{}.{}.long_name_with_many_characters_{}", prefix, n, "x".repeat(ch.below(40))),
        3 => format!("{} {}", prefix, n),
        // the same name on several entities of a kind is legal
        // (debug names only: import names stay unique where the profile needs that)
        4 if prefix != "imp" => format!("{}_dup", prefix),
        _ => format!("{}{}", prefix, n),
    }
}

pub struct Generated {
    pub bytes: Vec<u8>,
    pub spec: Spec,
}

/// Indices (into optable::table()) of simple ops usable under `feats`.
pub fn simple_candidates(feats: u32, cfg: &GenCfg, have_mem: bool) -> Vec<usize> {
    optable::table()
        .iter()
        .enumerate()
        .filter(|(_, s)| {
            let ok = match s.proposal {
                "mvp" => true,
                "sign_extension" => feats & feat::SIGN_EXT != 0,
                "saturating_float_to_int" => feats & feat::SAT_FLOAT != 0,
                "simd" => feats & feat::SIMD != 0,
                "relaxed_simd" => feats & feat::RELAXED_SIMD != 0 && feats & feat::SIMD != 0,
                "threads" => feats & feat::THREADS != 0,
                "reference_types" => feats & feat::REF_TYPES != 0,
                "bulk_memory" => feats & feat::BULK_MEMORY != 0,
                _ => false,
            };
            ok && (!s.has_memarg() || have_mem)
                && s.params.iter().chain(s.results.iter()).all(|t| match t {
                    VT::V128 => feats & feat::SIMD != 0,
                    VT::FuncRef | VT::ExternRef => feats & feat::REF_TYPES != 0,
                    _ => true,
                })
                && cfg.supported.map(|f| f(s.name)).unwrap_or(true)
        })
        .map(|(i, _)| i)
        .collect()
}

pub fn generate(data: &[u8], cfg: &GenCfg) -> Generated {
    let mut chv = Ch::new(data);
    let ch = &mut chv;
    let mut spec = Spec::default();

    // 1. features
    let feats = match cfg.force_features {
        Some(f) => f,
        None => match ch.below(8) {
            0 => 0,
            1..=3 => feat::ALL,
            4 => feat::ALL & !(feat::MULTI_MEMORY | feat::MEMORY64 | feat::THREADS),
            _ => {
                let mut f = (ch.byte() as u32) | ((ch.byte() as u32) << 8);
                f &= feat::ALL;
                if f & feat::RELAXED_SIMD != 0 {
                    f |= feat::SIMD;
                }
                if f & feat::REF_TYPES != 0 {
                    // wasmparser: reference types imply bulk-memory style encodings are accepted
                    f |= feat::BULK_MEMORY;
                }
                f
            }
        },
    };
    let mut env = Env {
        feats,
        ..Env::default()
    };
    spec.feats = feats;
    let vts = env.val_types();
    let multi_value = env.has(feat::MULTI_VALUE);

    // 2. types
    let n_types = 1 + ch.below(6);
    env.types.push(FuncTy {
        params: vec![],
        results: vec![],
    });
    for _ in 1..n_types {
        let np = ch.below(4);
        let nr = if multi_value { ch.below(3) } else { ch.below(2) };
        env.types.push(FuncTy {
            params: (0..np).map(|_| *ch.pick(&vts)).collect(),
            results: (0..nr).map(|_| *ch.pick(&vts)).collect(),
        });
    }

    // 3. imports
    let mut imports: Vec<(String, String, ImportG)> = Vec::new();
    let n_imports = ch.below(6);
    for i in 0..n_imports {
        let mut module = if ch.bool() { "env".to_string() } else { "host".to_string() };
        let mut name = gen_name(ch, "imp", i);
        // duplicate (module, field) pairs are legal and do occur
        if cfg.dup_import_names && !imports.is_empty() && ch.chance(1, 6) {
            let k = ch.below(imports.len());
            module = imports[k].0.clone();
            name = imports[k].1.clone();
        }
        let kind = ch.below(4);
        match kind {
            0 => {
                let t = ch.below(env.types.len()) as u32;
                env.funcs.push(t);
                imports.push((module, name, ImportG::Func(t)));
            }
            1 => {
                if !env.tables.is_empty() && !env.has(feat::REF_TYPES) {
                    continue;
                }
                let t = gen_table(ch, feats, true, cfg.exec);
                env.tables.push(t.clone());
                imports.push((module, name, ImportG::Table(t)));
            }
            2 => {
                if !env.mems.is_empty() && !env.has(feat::MULTI_MEMORY) {
                    continue;
                }
                let m = gen_mem(ch, feats, true, cfg.exec);
                env.mems.push(m.clone());
                imports.push((module, name, ImportG::Mem(m)));
            }
            _ => {
                let ty = *ch.pick(&vts);
                let mutable = env.has(feat::MUTABLE_GLOBAL) && ch.chance(1, 3);
                let g = GlobalInfo {
                    ty,
                    mutable,
                    imported: true,
                };
                env.globals.push(g.clone());
                imports.push((module, name, ImportG::Global(g)));
            }
        }
    }
    env.n_imp_funcs = env.funcs.len();
    let n_imp_globals = env.globals.len();

    // 4. local entity declarations
    let n_local_funcs = cfg.min_funcs + ch.below(cfg.max_funcs + 1 - cfg.min_funcs);
    for _ in 0..n_local_funcs {
        env.funcs.push(ch.below(env.types.len()) as u32);
    }
    let n_funcs_total = env.funcs.len();
    let n_local_tables = if env.has(feat::REF_TYPES) {
        ch.below(3)
    } else if env.tables.is_empty() {
        ch.below(2)
    } else {
        0
    };
    for _ in 0..n_local_tables {
        env.tables.push(gen_table(ch, feats, false, cfg.exec));
    }
    let n_local_mems = if env.has(feat::MULTI_MEMORY) {
        ch.below(3)
    } else if env.mems.is_empty() {
        ch.below(2)
    } else {
        0
    };
    for _ in 0..n_local_mems {
        env.mems.push(gen_mem(ch, feats, false, cfg.exec));
    }
    let mut ref_funcs: Vec<u32> = Vec::new();
    let mut body_refs: Vec<u32> = Vec::new();
    let n_local_globals = ch.below(6);
    let mut global_inits: Vec<ConstInit> = Vec::new();
    for _ in 0..n_local_globals {
        let ty = *ch.pick(&vts);
        let mutable = ch.bool();
        let init = gen_const_init(ch, &env, ty, n_funcs_total, &mut ref_funcs);
        global_inits.push(init);
        env.globals.push(GlobalInfo {
            ty,
            mutable,
            imported: false,
        });
    }

    // 5. element segments
    let bulk = env.has(feat::BULK_MEMORY);
    let reft = env.has(feat::REF_TYPES);
    let mut elems: Vec<ElemG> = Vec::new();
    let n_elems = if env.tables.is_empty() && !bulk { 0 } else { ch.below(5) };
    for _ in 0..n_elems {
        // kind
        let kind = if bulk { ch.below(4) } else { 0 };
        let use_exprs = reft && ch.chance(1, 2);
        let ety = if use_exprs && ch.chance(1, 3) { VT::ExternRef } else { VT::FuncRef };
        let n_items = ch.below(5);
        let items = if use_exprs {
            let mut v = Vec::new();
            for _ in 0..n_items {
                // items: ref.func / ref.null / global.get of an imported immutable global
                let cands: Vec<u32> = env
                    .globals
                    .iter()
                    .enumerate()
                    .filter(|(_, g)| g.imported && !g.mutable && g.ty == ety)
                    .map(|(i, _)| i as u32)
                    .collect();
                if !cands.is_empty() && ch.chance(1, 2) {
                    v.push(ConstInit::GlobalGet(*ch.pick(&cands)));
                } else if ety == VT::FuncRef && n_funcs_total > 0 && ch.chance(2, 3) {
                    let f = ch.below(n_funcs_total) as u32;
                    v.push(ConstInit::RefFunc(f));
                } else {
                    v.push(ConstInit::RefNull(ety));
                }
            }
            ElemItemsG::Exprs(ety, v)
        } else {
            if n_funcs_total == 0 {
                ElemItemsG::Funcs(vec![])
            } else {
                ElemItemsG::Funcs((0..n_items).map(|_| ch.below(n_funcs_total) as u32).collect())
            }
        };
        let item_ty = match &items {
            ElemItemsG::Funcs(_) => VT::FuncRef,
            ElemItemsG::Exprs(t, _) => *t,
        };
        let mode = match kind {
            0 | 1 => {
                // active: need a table of that element type
                let cands: Vec<u32> = env
                    .tables
                    .iter()
                    .enumerate()
                    .filter(|(_, t)| t.elem == item_ty)
                    .map(|(i, _)| i as u32)
                    .filter(|i| reft || *i == 0)
                    .collect();
                if cands.is_empty() {
                    if bulk {
                        ElemModeG::Passive
                    } else {
                        continue;
                    }
                } else {
                    let t = *ch.pick(&cands);
                    let tinfo = &env.tables[t as usize];
                    let oty = if tinfo.t64 { VT::I64 } else { VT::I32 };
                    let gc: Vec<u32> = env
                        .globals
                        .iter()
                        .enumerate()
                        .filter(|(_, g)| g.imported && !g.mutable && g.ty == oty)
                        .map(|(i, _)| i as u32)
                        .collect();
                    let off = if !gc.is_empty() && ch.chance(1, 3) {
                        ConstInit::GlobalGet(*ch.pick(&gc))
                    } else {
                        // mostly in bounds so that instantiation usually succeeds
                        let room = tinfo.initial.saturating_sub(n_items as u64);
                        let o = if ch.chance(7, 8) {
                            ch.below(room as usize + 1) as i64
                        } else {
                            ch.below(12) as i64
                        };
                        if tinfo.t64 {
                            ConstInit::I64(o)
                        } else {
                            ConstInit::I32(o as i32)
                        }
                    };
                    // explicit table index encoding even for table 0, by choice
                    let explicit = t != 0 || (reft && ch.chance(1, 4)) || (item_ty == VT::ExternRef);
                    ElemModeG::Active {
                        table: if explicit { Some(t) } else { None },
                        offset: off,
                    }
                }
            }
            2 => ElemModeG::Passive,
            _ => {
                if reft {
                    ElemModeG::Declared
                } else {
                    ElemModeG::Passive
                }
            }
        };
        env.elems.push(item_ty);
        elems.push(ElemG { mode, items });
    }

    // 6. data segments
    let mut datas: Vec<DataG> = Vec::new();
    let n_data = if env.mems.is_empty() && !bulk { 0 } else { ch.below(5) };
    for _ in 0..n_data {
        let len = ch.below(12);
        let mut bytes = ch.bytes(len);
        if ch.chance(1, 8) {
            // a long run of zero bytes inside the payload
            let n = 16 + ch.below(24);
            let mut b = vec![ch.byte() | 1];
            b.extend(std::iter::repeat(0).take(n));
            b.push(ch.byte() | 1);
            bytes = b;
        }
        let passive = bulk && (env.mems.is_empty() || ch.chance(1, 3));
        let mode = if passive {
            DataModeG::Passive
        } else if env.mems.is_empty() {
            continue;
        } else {
            let m = ch.below(env.mems.len()) as u32;
            let mi = &env.mems[m as usize];
            let oty = if mi.m64 { VT::I64 } else { VT::I32 };
            let gc: Vec<u32> = env
                .globals
                .iter()
                .enumerate()
                .filter(|(_, g)| g.imported && !g.mutable && g.ty == oty)
                .map(|(i, _)| i as u32)
                .collect();
            let off = if !gc.is_empty() && ch.chance(1, 3) {
                ConstInit::GlobalGet(*ch.pick(&gc))
            } else {
                let o = if ch.chance(7, 8) {
                    ch.below(200) as i64
                } else {
                    65536 * mi.initial as i64 - ch.below(16) as i64
                };
                if mi.m64 {
                    ConstInit::I64(o)
                } else {
                    ConstInit::I32(o as i32)
                }
            };
            DataModeG::Active { mem: m, offset: off }
        };
        datas.push(DataG { mode, bytes });
    }
    env.n_data = datas.len() as u32;

    // 7. bodies
    let have_mem = !env.mems.is_empty();
    let simple = simple_candidates(feats, cfg, have_mem);
    let mut bodies: Vec<(Vec<(u32, VT)>, Vec<Item>)> = Vec::new();
    let mut agg = BodyStats::default();
    for i in 0..n_local_funcs {
        let idx = (env.n_imp_funcs + i) as u32;
        let tag = if cfg.tags {
            let t = 0x7a6000 + idx as i64;
            spec.tags.push(t);
            Some(t)
        } else {
            None
        };
        let (groups, items, st) = gen_body(&env, cfg, ch, &simple, idx, tag);
        agg.ops += st.ops;
        agg.nops += st.nops;
        agg.if_no_else += st.if_no_else;
        agg.loops += st.loops;
        agg.calls += st.calls;
        agg.mem_ops += st.mem_ops;
        agg.simd += st.simd;
        agg.atomics += st.atomics;
        agg.br_tables += st.br_tables;
        agg.multi_value_blocks += st.multi_value_blocks;
        agg.max_depth = agg.max_depth.max(st.max_depth);
        agg.nonzero_mem |= st.nonzero_mem;
        agg.nonzero_table |= st.nonzero_table;
        agg.uses_data_ops |= st.uses_data_ops;
        agg.big_offset |= st.big_offset;
        body_refs.extend(st.ref_funcs.iter().copied());
        bodies.push((groups, items));
    }
    // ref.func in code requires the function to be declared somewhere outside
    // code: add one declared (or passive) element segment listing them all
    let code_refs: Vec<u32> = {
        let _ = &ref_funcs;
        let mut v = body_refs.clone();
        v.sort();
        v.dedup();
        v
    };
    // ... or, one time in three, declare them by exporting them instead
    let mut force_export: Vec<u32> = Vec::new();
    if !code_refs.is_empty() && reft {
        if cfg.export_declares && ch.chance(1, 3) {
            force_export = code_refs;
        } else {
            env.elems.push(VT::FuncRef);
            elems.push(ElemG {
                mode: ElemModeG::Declared,
                items: ElemItemsG::Funcs(code_refs),
            });
        }
    }

    // 8. exports, start
    let mut exports: Vec<(String, we::ExportKind, u32)> = Vec::new();
    let mut en = 0usize;
    for f in 0..n_funcs_total {
        if cfg.export_all_funcs && f >= env.n_imp_funcs || ch.chance(1, 3) || force_export.contains(&(f as u32)) {
            exports.push((format!("f{}", en), we::ExportKind::Func, f as u32));
            en += 1;
            if ch.chance(1, 8) {
                exports.push((format!("f{}_again", en), we::ExportKind::Func, f as u32));
                en += 1;
            }
        }
    }
    for (i, g) in env.globals.iter().enumerate() {
        if (!g.mutable || env.has(feat::MUTABLE_GLOBAL)) && ch.chance(1, 3) {
            exports.push((format!("g{}", i), we::ExportKind::Global, i as u32));
        }
    }
    for i in 0..env.mems.len() {
        if ch.chance(1, 2) {
            exports.push((format!("m{}", i), we::ExportKind::Memory, i as u32));
        }
    }
    for i in 0..env.tables.len() {
        if ch.chance(1, 2) {
            exports.push((format!("t{}", i), we::ExportKind::Table, i as u32));
        }
    }
    let start_cands: Vec<u32> = (0..n_funcs_total as u32)
        .filter(|f| {
            let s = env.sig(*f);
            s.params.is_empty() && s.results.is_empty()
        })
        .collect();
    let start = if !start_cands.is_empty() && ch.chance(1, 4) {
        Some(*ch.pick(&start_cands))
    } else {
        None
    };

    // 9. custom sections plan: (position slot, name, data)
    let want_customs = match cfg.customs {
        0 => false,
        2 => true,
        _ => ch.chance(1, 2),
    };
    let mut customs: Vec<(usize, String, Vec<u8>)> = Vec::new();
    if want_customs {
        let n = 1 + ch.below(5);
        let names = [
            "custom", "", "names", ".debu", "producer", "linking", "target_features", "ünï", "custom", "sourceMappingURL",
            "reloc.CODE", "dylink.0", "reloc..debug_info", "_.debug", "name ", "Name", "producers\0",
        ];
        // sections walrus does interpret (dropped with DWARF generation off),
        // placed between the others: only in the profile made for C12
        // (customs = 2), their payload is not well-formed DWARF
        let debug_names = [".debug_str", ".debug_info"];
        for _ in 0..n {
            let slot = ch.below(14);
            let mut name = ch.pick(&names).to_string();
            if cfg.customs == 2 && ch.chance(1, 6) {
                name = ch.pick(&debug_names).to_string();
            }
            let len = ch.below(10);
            let data = ch.bytes(len);
            // names whose length needs a two-byte LEB, and short names whose
            // length is written as a padded (non-minimal) LEB: the marker
            // character is stripped again by `emit_custom`
            if ch.chance(1, 12) {
                name = format!("{}{}", name, "x".repeat(128 + ch.below(80)));
            } else if ch.chance(1, 12) {
                name = format!("\u{1}{}", name);
            }
            customs.push((slot, name, data));
        }
    }
    let want_names = match cfg.names {
        0 => false,
        2 => true,
        _ => ch.chance(1, 2),
    };
    let want_producers = match cfg.producers {
        0 => false,
        2 => true,
        _ => ch.chance(1, 3),
    };

    // ---- encode ----
    let mut m = we::Module::new();
    let mut slot = 0usize;
    let put_customs = |m: &mut we::Module, slot: usize, customs: &Vec<(usize, String, Vec<u8>)>| {
        for (s, n, d) in customs {
            if *s == slot {
                emit_custom(m, n, d);
            }
        }
    };
    put_customs(&mut m, slot, &customs);
    slot += 1;
    {
        let mut s = we::TypeSection::new();
        for t in &env.types {
            s.function(t.params.iter().map(|v| v.to_we()), t.results.iter().map(|v| v.to_we()));
        }
        m.section(&s);
    }
    put_customs(&mut m, slot, &customs);
    slot += 1;
    if !imports.is_empty() {
        let mut s = we::ImportSection::new();
        for (module, name, k) in &imports {
            let et = match k {
                ImportG::Func(t) => we::EntityType::Function(*t),
                ImportG::Table(t) => we::EntityType::Table(table_type(t)),
                ImportG::Mem(mm) => we::EntityType::Memory(mem_type(mm)),
                ImportG::Global(g) => we::EntityType::Global(we::GlobalType {
                    val_type: g.ty.to_we(),
                    mutable: g.mutable,
                    shared: false,
                }),
            };
            s.import(module, name, et);
        }
        m.section(&s);
    }
    put_customs(&mut m, slot, &customs);
    slot += 1;
    if n_local_funcs > 0 {
        let mut s = we::FunctionSection::new();
        for f in &env.funcs[env.n_imp_funcs..] {
            s.function(*f);
        }
        m.section(&s);
    }
    put_customs(&mut m, slot, &customs);
    slot += 1;
    if env.tables.iter().any(|t| !t.imported) {
        let mut s = we::TableSection::new();
        for t in env.tables.iter().filter(|t| !t.imported) {
            s.table(table_type(t));
        }
        m.section(&s);
    }
    put_customs(&mut m, slot, &customs);
    slot += 1;
    if env.mems.iter().any(|t| !t.imported) {
        let mut s = we::MemorySection::new();
        for t in env.mems.iter().filter(|t| !t.imported) {
            s.memory(mem_type(t));
        }
        m.section(&s);
    }
    put_customs(&mut m, slot, &customs);
    slot += 1;
    if n_local_globals > 0 {
        let mut s = we::GlobalSection::new();
        for (i, g) in env.globals[n_imp_globals..].iter().enumerate() {
            s.global(
                we::GlobalType {
                    val_type: g.ty.to_we(),
                    mutable: g.mutable,
                    shared: false,
                },
                &global_inits[i].to_we(),
            );
        }
        m.section(&s);
    }
    put_customs(&mut m, slot, &customs);
    slot += 1;
    if !exports.is_empty() {
        let mut s = we::ExportSection::new();
        for (n, k, i) in &exports {
            s.export(n, *k, *i);
        }
        m.section(&s);
    }
    put_customs(&mut m, slot, &customs);
    slot += 1;
    if let Some(f) = start {
        m.section(&we::StartSection { function_index: f });
    }
    put_customs(&mut m, slot, &customs);
    slot += 1;
    if !elems.is_empty() {
        let mut s = we::ElementSection::new();
        for e in &elems {
            let fidx: Vec<u32>;
            let exprs: Vec<we::ConstExpr>;
            let els = match &e.items {
                ElemItemsG::Funcs(f) => {
                    fidx = f.clone();
                    we::Elements::Functions(&fidx)
                }
                ElemItemsG::Exprs(t, xs) => {
                    exprs = xs.iter().map(|x| x.to_we()).collect();
                    we::Elements::Expressions(
                        if *t == VT::ExternRef {
                            we::RefType::EXTERNREF
                        } else {
                            we::RefType::FUNCREF
                        },
                        &exprs,
                    )
                }
            };
            match &e.mode {
                ElemModeG::Active { table, offset } => {
                    s.active(*table, &offset.to_we(), els);
                }
                ElemModeG::Passive => {
                    s.passive(els);
                }
                ElemModeG::Declared => {
                    s.declared(els);
                }
            }
        }
        m.section(&s);
    }
    put_customs(&mut m, slot, &customs);
    slot += 1;
    let any_passive = datas.iter().any(|d| matches!(d.mode, DataModeG::Passive));
    let need_count = any_passive && n_local_funcs > 0 && agg.uses_data_ops || agg.uses_data_ops;
    if need_count || (bulk && !datas.is_empty() && ch.chance(1, 4)) {
        m.section(&we::DataCountSection {
            count: datas.len() as u32,
        });
    }
    put_customs(&mut m, slot, &customs);
    slot += 1;
    if n_local_funcs > 0 {
        let mut s = we::CodeSection::new();
        for (groups, items) in &bodies {
            let mut f = we::Function::new(groups.iter().map(|(n, t)| (*n, t.to_we())));
            encode_items(&mut f, items);
            s.function(&f);
        }
        m.section(&s);
    }
    put_customs(&mut m, slot, &customs);
    slot += 1;
    if !datas.is_empty() {
        let mut s = we::DataSection::new();
        for d in &datas {
            match &d.mode {
                DataModeG::Active { mem, offset } => {
                    s.active(*mem, &offset.to_we(), d.bytes.iter().copied());
                }
                DataModeG::Passive => {
                    s.passive(d.bytes.iter().copied());
                }
            }
        }
        m.section(&s);
    }
    put_customs(&mut m, slot, &customs);
    slot += 1;

    // name section (after data, where the spec places it)
    if want_names {
        let mut ns = we::NameSection::new();
        // one case in six spreads the names over two `name` sections
        let split_names = ch.chance(1, 6);
        if ch.bool() {
            ns.module(&gen_name(ch, "module", 0));
        }
        let mut pick_names = |ch: &mut Ch, n: usize, prefix: &str| -> we::NameMap {
            let mut nm = we::NameMap::new();
            // wat2wasm writes an empty name for every local it has no name for
            let all_empty = prefix == "loc" && ch.chance(1, 8);
            // ... also when some of its neighbours are named
            let some_empty = prefix == "loc" && ch.chance(1, 5);
            // entries need not be sorted by index
            let backwards = ch.chance(1, 8);
            for i in 0..n {
                let i = if backwards { n - 1 - i } else { i };
                if all_empty {
                    nm.append(i as u32, "");
                } else if ch.chance(2, 3) {
                    nm.append(i as u32, &gen_name(ch, prefix, i));
                } else if some_empty {
                    nm.append(i as u32, "");
                }
            }
            // a name for an index nothing is defined at (producers leave such
            // entries behind); it names nothing and must disturb nothing
            if ch.chance(1, 10) {
                let i = n + ch.below(3);
                nm.append(i as u32, &format!("dangling_{}{}", prefix, i));
            }
            nm
        };
        if ch.chance(3, 4) {
            let nm = pick_names(ch, n_funcs_total, "func");
            ns.functions(&nm);
        }
        if ch.chance(2, 3) && n_local_funcs > 0 {
            let mut inm = we::IndirectNameMap::new();
            // parameter names of imported functions (what wat2wasm emits);
            // nothing is emitted for them, but they must not disturb the rest
            for f in 0..env.n_imp_funcs {
                let np = env.sig(f as u32).params.len();
                if np > 0 && ch.chance(1, 3) {
                    let nm = pick_names(ch, np, "iparam");
                    inm.append(f as u32, &nm);
                }
            }
            for i in 0..n_local_funcs {
                let fidx = env.n_imp_funcs + i;
                let np = env.sig(fidx as u32).params.len();
                let nl: usize = np + bodies[i].0.iter().map(|(n, _)| *n as usize).sum::<usize>();
                if nl > 0 && nl < 40 && ch.chance(2, 3) {
                    let nm = pick_names(ch, nl, "loc");
                    inm.append(fidx as u32, &nm);
                }
            }
            // local names of a function that does not exist
            if ch.chance(1, 10) {
                let nm = pick_names(ch, 2, "loc");
                inm.append((n_funcs_total + ch.below(2)) as u32, &nm);
            }
            ns.locals(&inm);
        }
        // label / field subsections (which walrus ignores) between the ones
        // it reads
        if ch.chance(1, 5) {
            let mut inm = we::IndirectNameMap::new();
            let mut nm = we::NameMap::new();
            nm.append(0, "label0");
            inm.append(0, &nm);
            ns.labels(&inm);
        }
        if split_names {
            m.section(&ns);
            ns = we::NameSection::new();
        }
        if ch.chance(1, 2) {
            let nm = pick_names(ch, env.types.len(), "type");
            ns.types(&nm);
        }
        if ch.chance(1, 8) {
            let mut inm = we::IndirectNameMap::new();
            let mut nm = we::NameMap::new();
            nm.append(0, "field0");
            inm.append(0, &nm);
            ns.fields(&inm);
        }
        if ch.chance(1, 2) && !env.tables.is_empty() {
            let nm = pick_names(ch, env.tables.len(), "table");
            ns.tables(&nm);
        }
        if ch.chance(1, 2) && !env.mems.is_empty() {
            let nm = pick_names(ch, env.mems.len(), "mem");
            ns.memories(&nm);
        }
        if ch.chance(1, 2) && !env.globals.is_empty() {
            let nm = pick_names(ch, env.globals.len(), "glob");
            ns.globals(&nm);
        }
        if ch.chance(1, 2) && !elems.is_empty() {
            let nm = pick_names(ch, elems.len(), "elem");
            ns.elements(&nm);
        }
        if ch.chance(1, 2) && !datas.is_empty() {
            let nm = pick_names(ch, datas.len(), "data");
            ns.data(&nm);
        }
        m.section(&ns);
        spec.has_names = true;
    }
    put_customs(&mut m, slot, &customs);
    slot += 1;
    if want_producers {
        let mut ps = we::ProducersSection::new();
        let mut f = we::ProducersField::new();
        f.value("clang", "14.0.6");
        if ch.bool() {
            f.value("walrus", "0.1.0");
            // an earlier walrus run need not be the last tool recorded
            if ch.bool() {
                f.value("wasm-opt", "116");
            }
        }
        // a field may list no values at all
        if ch.chance(1, 8) {
            f = we::ProducersField::new();
        }
        // (rustc and clang write `language` before `processed-by`)
        let language_first = ch.bool();
        let mut lang = None;
        if ch.bool() {
            let mut l = we::ProducersField::new();
            l.value("C99", "");
            l.value("Rust", "1.70");
            lang = Some(l);
        }
        // one producers section, or the fields spread over two
        let two_sections = ch.chance(1, 8);
        if language_first {
            if let Some(l) = &lang {
                ps.field("language", l);
                if two_sections {
                    m.section(&ps);
                    ps = we::ProducersSection::new();
                }
            }
        }
        ps.field("processed-by", &f);
        if ch.chance(1, 6) {
            ps.field("sdk", &we::ProducersField::new());
        }
        if !language_first {
            if let Some(l) = &lang {
                ps.field("language", l);
            }
        }
        m.section(&ps);
        spec.has_producers = true;
    }
    put_customs(&mut m, slot, &customs);
    // customs whose slot is beyond what exists go last
    for (s, n, d) in &customs {
        if *s > slot {
            emit_custom(&mut m, n, d);
        }
    }

    spec.n_types = env.types.len();
    spec.n_imports = imports.len();
    spec.n_funcs = n_funcs_total;
    spec.n_local_funcs = n_local_funcs;
    spec.n_tables = env.tables.len();
    spec.n_mems = env.mems.len();
    spec.n_globals = env.globals.len();
    spec.n_elems = elems.len();
    spec.n_data = datas.len();
    spec.n_exports = exports.len();
    spec.n_customs = customs.len();
    spec.has_start = start.is_some();
    spec.total_ops = agg.ops;
    spec.export_names = exports.iter().map(|e| e.0.clone()).collect();
    spec.body = agg;
    Generated {
        bytes: m.finish(),
        spec,
    }
}
