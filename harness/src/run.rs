//! Sharded proptest runner, evidence writer, replay files, known findings.

use proptest::strategy::{Strategy, ValueTree};
use proptest::test_runner::{Config, RngAlgorithm, RngSeed, TestCaseError, TestError, TestRunner};
use serde_json::{json, Value};
use std::cell::RefCell;
use std::collections::{BTreeMap, HashSet};
use std::path::PathBuf;
use std::sync::atomic::{AtomicBool, AtomicU64, Ordering};
use std::sync::Mutex;
use std::time::Instant;

#[derive(Clone, Copy, Debug, PartialEq, Eq)]
pub enum Tier {
    Quick,
    Thorough,
}

impl Tier {
    pub fn name(self) -> &'static str {
        match self {
            Tier::Quick => "quick",
            Tier::Thorough => "thorough",
        }
    }
    pub fn pick<T>(self, q: T, t: T) -> T {
        match self {
            Tier::Quick => q,
            Tier::Thorough => t,
        }
    }
}

/// One input to a property check; also the payload of a replay file.
#[derive(Clone, Debug)]
pub enum Input {
    /// A choice stream for the generator profile `gen`.
    Choices { gen: String, bytes: Vec<u8> },
    /// A wasm binary (corpus member, mutant).
    Wasm { origin: String, bytes: Vec<u8> },
    /// Anything else, property-specific (op sequences, configs, ...).
    Json(Value),
}

fn hex(b: &[u8]) -> String {
    let mut s = String::with_capacity(b.len() * 2);
    for x in b {
        s.push_str(&format!("{:02x}", x));
    }
    s
}
fn unhex(s: &str) -> Vec<u8> {
    (0..s.len() / 2)
        .map(|i| u8::from_str_radix(&s[2 * i..2 * i + 2], 16).unwrap_or(0))
        .collect()
}

impl Input {
    pub fn to_json(&self) -> Value {
        match self {
            Input::Choices { gen, bytes } => json!({"kind":"choices","gen":gen,"hex":hex(bytes)}),
            Input::Wasm { origin, bytes } => json!({"kind":"wasm","origin":origin,"hex":hex(bytes)}),
            Input::Json(v) => json!({"kind":"json","value":v}),
        }
    }
    pub fn from_json(v: &Value) -> Option<Input> {
        match v.get("kind")?.as_str()? {
            "choices" => Some(Input::Choices {
                gen: v.get("gen")?.as_str()?.to_string(),
                bytes: unhex(v.get("hex")?.as_str()?),
            }),
            "wasm" => Some(Input::Wasm {
                origin: v.get("origin").and_then(|o| o.as_str()).unwrap_or("").to_string(),
                bytes: unhex(v.get("hex")?.as_str()?),
            }),
            "json" => Some(Input::Json(v.get("value")?.clone())),
            _ => None,
        }
    }
    pub fn describe(&self) -> String {
        match self {
            Input::Choices { gen, bytes } => format!("choices[{}] {} bytes", gen, bytes.len()),
            Input::Wasm { origin, bytes } => format!("wasm[{}] {} bytes", origin, bytes.len()),
            Input::Json(v) => {
                let s = v.to_string();
                if s.len() > 200 {
                    format!("json {}...", &s[..200])
                } else {
                    format!("json {}", s)
                }
            }
        }
    }
}

#[derive(Clone, Debug)]
pub struct Failure {
    /// Root-cause key: one defect, one signature.
    pub signature: String,
    pub detail: String,
}

impl Failure {
    pub fn new(sig: impl Into<String>, detail: impl Into<String>) -> Failure {
        Failure {
            signature: sig.into(),
            detail: detail.into(),
        }
    }
}

#[derive(Clone, Debug, Default)]
pub struct CaseOut {
    pub labels: Vec<String>,
    pub nontrivial: bool,
    /// identity of the case for distinctness
    pub hash: u64,
    pub sample: Option<Value>,
    /// failures already recognised as known findings inside the oracle
    pub known: Vec<Failure>,
}

impl CaseOut {
    pub fn label(&mut self, l: impl Into<String>) {
        self.labels.push(l.into());
    }
}

pub type CaseResult = Result<CaseOut, Failure>;

#[derive(Clone, Debug)]
pub struct KnownFinding {
    pub property: String,
    pub signature: String,
    pub what: String,
    pub status: String,
}

pub struct Violation {
    pub input: Input,
    pub failure: Failure,
}

#[derive(Default)]
pub struct Stats {
    pub evaluations: AtomicU64,
    pub skipped: AtomicU64,
    pub nontrivial: Mutex<HashSet<u64>>,
    pub labels: Mutex<BTreeMap<String, u64>>,
    pub samples: Mutex<Vec<Value>>,
    pub known_hits: Mutex<BTreeMap<String, (u64, String)>>,
    pub violations: Mutex<Vec<Violation>>,
    pub extra: Mutex<BTreeMap<String, Value>>,
    pub inconclusive: Mutex<Vec<String>>,
}

pub struct Ctx {
    pub prop: String,
    pub tier: Tier,
    pub seed: u64,
    pub known: Vec<KnownFinding>,
    pub stats: Stats,
    pub start: Instant,
    pub verif_dir: PathBuf,
    /// strict = replay mode: known findings are reported as failures too
    pub strict: bool,
    pub stop: AtomicBool,
}

pub fn fnv(data: &[u8]) -> u64 {
    let mut h: u64 = 0xcbf29ce484222325;
    for b in data {
        h ^= *b as u64;
        h = h.wrapping_mul(0x100000001b3);
    }
    h
}

pub fn mix(a: u64, b: u64) -> u64 {
    let mut x = a ^ b.wrapping_mul(0x9E3779B97F4A7C15);
    x ^= x >> 30;
    x = x.wrapping_mul(0xBF58476D1CE4E5B9);
    x ^= x >> 27;
    x = x.wrapping_mul(0x94D049BB133111EB);
    x ^= x >> 31;
    x
}

impl Ctx {
    pub fn new(prop: &str, tier: Tier, seed: u64) -> Ctx {
        let verif_dir = std::env::var("VERIF_DIR")
            .map(PathBuf::from)
            .unwrap_or_else(|_| PathBuf::from("/verif"));
        let known = load_known(&verif_dir);
        Ctx {
            prop: prop.to_string(),
            tier,
            seed,
            known,
            stats: Stats::default(),
            start: Instant::now(),
            verif_dir,
            strict: false,
            stop: AtomicBool::new(false),
        }
    }

    pub fn is_known(&self, sig: &str) -> Option<&KnownFinding> {
        self.known
            .iter()
            .find(|k| k.property == self.prop && k.status == "known" && k.signature == sig)
    }

    /// Split a failure into (known, new) — used inside oracles that want to
    /// continue past a known finding.
    pub fn known_or(&self, out: &mut CaseOut, f: Failure) -> Result<(), Failure> {
        if !self.strict && self.is_known(&f.signature).is_some() {
            out.known.push(f);
            Ok(())
        } else {
            Err(f)
        }
    }

    fn note_known(&self, f: &Failure) {
        let mut k = self.stats.known_hits.lock().unwrap();
        let e = k
            .entry(f.signature.clone())
            .or_insert((0, f.detail.clone()));
        e.0 += 1;
    }

    /// Record the outcome of one evaluated case. Returns true if the case
    /// counts as passing (including known findings), false for a new violation.
    pub fn judge(&self, input: &Input, r: CaseResult) -> bool {
        self.stats.evaluations.fetch_add(1, Ordering::Relaxed);
        match r {
            Ok(out) => {
                for f in &out.known {
                    self.note_known(f);
                }
                {
                    let mut l = self.stats.labels.lock().unwrap();
                    for lab in &out.labels {
                        *l.entry(lab.clone()).or_insert(0) += 1;
                    }
                }
                if out.nontrivial {
                    self.stats.nontrivial.lock().unwrap().insert(out.hash);
                }
                if let Some(s) = out.sample {
                    let mut sm = self.stats.samples.lock().unwrap();
                    if sm.len() < 6 {
                        sm.push(s);
                    }
                }
                true
            }
            Err(f) => {
                if !self.strict && self.is_known(&f.signature).is_some() {
                    self.note_known(&f);
                    let mut l = self.stats.labels.lock().unwrap();
                    *l.entry("known-finding-case".into()).or_insert(0) += 1;
                    true
                } else {
                    let mut v = self.stats.violations.lock().unwrap();
                    v.push(Violation {
                        input: input.clone(),
                        failure: f,
                    });
                    false
                }
            }
        }
    }

    /// Merge thread-local tallies of passing cases (avoids lock traffic in
    /// exhaustive loops).
    pub fn merge_passed(&self, evals: u64, nontrivial: HashSet<u64>, labels: BTreeMap<String, u64>, samples: Vec<Value>) {
        self.stats.evaluations.fetch_add(evals, Ordering::Relaxed);
        self.stats.nontrivial.lock().unwrap().extend(nontrivial);
        let mut l = self.stats.labels.lock().unwrap();
        for (k, v) in labels {
            *l.entry(k).or_insert(0) += v;
        }
        let mut sm = self.stats.samples.lock().unwrap();
        for s in samples {
            if sm.len() < 6 {
                sm.push(s);
            }
        }
    }

    pub fn set_extra(&self, k: &str, v: Value) {
        self.stats.extra.lock().unwrap().insert(k.to_string(), v);
    }

    pub fn add_label(&self, l: &str, n: u64) {
        *self.stats.labels.lock().unwrap().entry(l.to_string()).or_insert(0) += n;
    }

    pub fn has_violation(&self) -> bool {
        !self.stats.violations.lock().unwrap().is_empty()
    }
}

fn load_known(dir: &PathBuf) -> Vec<KnownFinding> {
    let p = dir.join("known_findings.json");
    let txt = match std::fs::read_to_string(&p) {
        Ok(t) => t,
        Err(_) => return vec![],
    };
    let v: Value = match serde_json::from_str(&txt) {
        Ok(v) => v,
        Err(e) => {
            eprintln!("cannot parse {}: {}", p.display(), e);
            std::process::exit(2);
        }
    };
    let mut out = Vec::new();
    if let Some(a) = v.get("findings").and_then(|f| f.as_array()) {
        for e in a {
            out.push(KnownFinding {
                property: e["property"].as_str().unwrap_or("").to_string(),
                signature: e["signature"].as_str().unwrap_or("").to_string(),
                what: e["what"].as_str().unwrap_or("").to_string(),
                status: e["status"].as_str().unwrap_or("").to_string(),
            });
        }
    }
    out
}

// ---------------------------------------------------------------------------
// panic capture

thread_local! {
    static LAST_PANIC: RefCell<Option<(String, String)>> = RefCell::new(None);
    static QUIET: RefCell<bool> = RefCell::new(false);
}

pub fn install_panic_hook() {
    let default = std::panic::take_hook();
    std::panic::set_hook(Box::new(move |info| {
        let loc = info
            .location()
            .map(|l| format!("{}:{}", l.file(), l.line()))
            .unwrap_or_else(|| "?".into());
        let msg = if let Some(s) = info.payload().downcast_ref::<&str>() {
            s.to_string()
        } else if let Some(s) = info.payload().downcast_ref::<String>() {
            s.clone()
        } else {
            "non-string panic".to_string()
        };
        let quiet = QUIET.with(|q| *q.borrow());
        LAST_PANIC.with(|p| *p.borrow_mut() = Some((loc, msg)));
        if !quiet {
            default(info);
        }
    }));
}

/// Shorten a source path to its part after the repository root so signatures
/// do not depend on where walrus is checked out.
fn norm_loc(loc: &str) -> String {
    if let Some(i) = loc.rfind("/src/") {
        let head = &loc[..i];
        let krate = head.rsplit('/').next().unwrap_or("");
        // registry crates live in "<name>-<version>/src/..."
        let versioned = krate
            .rsplit_once('-')
            .map(|(_, v)| v.chars().next().map(|c| c.is_ascii_digit()).unwrap_or(false))
            .unwrap_or(false);
        if versioned {
            format!("{}{}", krate, &loc[i..])
        } else if krate == "macro" {
            format!("crates/macro{}", &loc[i..])
        } else {
            loc[i + 1..].to_string()
        }
    } else {
        loc.to_string()
    }
}

/// Run `f` (code under test) catching panics; a panic becomes a Failure whose
/// signature names the panic site (file:line, walrus-relative).
pub fn guard<T>(what: &str, f: impl FnOnce() -> T) -> Result<T, Failure> {
    QUIET.with(|q| *q.borrow_mut() = true);
    LAST_PANIC.with(|p| *p.borrow_mut() = None);
    let r = std::panic::catch_unwind(std::panic::AssertUnwindSafe(f));
    QUIET.with(|q| *q.borrow_mut() = false);
    match r {
        Ok(v) => Ok(v),
        Err(_) => {
            let (loc, msg) = LAST_PANIC
                .with(|p| p.borrow_mut().take())
                .unwrap_or(("?".into(), "?".into()));
            let loc = norm_loc(&loc);
            let mut m = msg.replace('\n', " ");
            if m.len() > 300 {
                m.truncate(300);
            }
            Err(Failure::new(
                format!("panic:{}:{}", what, loc_file_only(&loc)),
                format!("panic in {} at {}: {}", what, loc, m),
            ))
        }
    }
}

/// A panic that escapes a check (i.e. not inside `guard`, so in harness code)
/// is an infrastructure failure: exit 2, never a verdict.
pub fn no_harness_panic<T>(f: impl FnOnce() -> T) -> T {
    match std::panic::catch_unwind(std::panic::AssertUnwindSafe(f)) {
        Ok(v) => v,
        Err(_) => {
            eprintln!("INFRASTRUCTURE: the harness itself panicked (see message above); no verdict");
            std::process::exit(2);
        }
    }
}

/// file without line number: line numbers shift under unrelated edits, the
/// file + operation is stable enough to key a root cause
fn loc_file_only(loc: &str) -> String {
    match loc.rfind(':') {
        Some(i) => loc[..i].to_string(),
        None => loc.to_string(),
    }
}

// ---------------------------------------------------------------------------
// generated-case driver

pub struct GenPlan {
    pub gen: &'static str,
    pub cases: usize,
    pub min_len: usize,
    pub max_len: usize,
}

const SHARDS: usize = 16;

/// Run `cases` generated choice streams through `check`, sharded over 16
/// threads, each shard a proptest TestRunner with a fixed seed.
pub fn run_generated(
    ctx: &Ctx,
    plan: &GenPlan,
    check: &(dyn Fn(&Ctx, &Input) -> CaseResult + Sync),
) {
    let per = (plan.cases + SHARDS - 1) / SHARDS;
    std::thread::scope(|s| {
        for shard in 0..SHARDS {
            let gen = plan.gen.to_string();
            let (min_len, max_len) = (plan.min_len, plan.max_len);
            s.spawn(move || {
                let seed = mix(mix(ctx.seed, fnv(ctx.prop.as_bytes())), mix(shard as u64, fnv(gen.as_bytes())));
                let cfg = Config {
                    cases: per as u32,
                    failure_persistence: None,
                    rng_seed: RngSeed::Fixed(seed),
                    rng_algorithm: RngAlgorithm::ChaCha,
                    // C09's failures depend on the schedule and each evaluation
                    // runs many thread pools: shrinking is capped there
                    max_shrink_iters: if ctx.prop == "C09" { 40 } else { ctx.tier.pick(3000, 20000) },
                    max_local_rejects: u32::MAX,
                    max_global_rejects: u32::MAX,
                    verbose: 0,
                    ..Config::default()
                };
                let mut runner = TestRunner::new(cfg);
                let strat = proptest::collection::vec(proptest::num::u8::ANY, min_len..=max_len);
                // Once a failure is found, shrinking must stay on the same signature.
                let target: Mutex<Option<String>> = Mutex::new(None);
                let counting = AtomicBool::new(true);
                let res = runner.run(&strat, |bytes| {
                    if ctx.stop.load(Ordering::Relaxed) {
                        return Ok(());
                    }
                    let input = Input::Choices {
                        gen: gen.clone(),
                        bytes,
                    };
                    let r = no_harness_panic(|| check(ctx, &input));
                    if counting.load(Ordering::Relaxed) {
                        // normal phase: record in stats
                        match &r {
                            Err(f) if ctx.strict || ctx.is_known(&f.signature).is_none() => {
                                counting.store(false, Ordering::Relaxed);
                                *target.lock().unwrap() = Some(f.signature.clone());
                                ctx.stats.evaluations.fetch_add(1, Ordering::Relaxed);
                                return Err(TestCaseError::fail(f.signature.clone()));
                            }
                            _ => {}
                        }
                        ctx.judge(&input, r);
                        Ok(())
                    } else {
                        // shrinking phase: only the same signature counts
                        match r {
                            Err(f) if Some(&f.signature) == target.lock().unwrap().as_ref() => {
                                Err(TestCaseError::fail(f.signature))
                            }
                            _ => Ok(()),
                        }
                    }
                });
                if let Err(TestError::Fail(_, minimal)) = res {
                    let input = Input::Choices {
                        gen: gen.clone(),
                        bytes: minimal,
                    };
                    // re-judge the minimal input to obtain its failure detail
                    match no_harness_panic(|| check(ctx, &input)) {
                        Err(f) => {
                            ctx.stats.violations.lock().unwrap().push(Violation { input, failure: f });
                        }
                        Ok(_) => {
                            ctx.stats.inconclusive.lock().unwrap().push(format!(
                                "shrunk case of shard {} no longer fails (flaky oracle?)",
                                shard
                            ));
                        }
                    }
                }
            });
        }
    });
}

/// Evaluate a fixed list of inputs in parallel.
pub fn run_inputs(
    ctx: &Ctx,
    inputs: &[Input],
    check: &(dyn Fn(&Ctx, &Input) -> CaseResult + Sync),
) {
    let next = AtomicU64::new(0);
    std::thread::scope(|s| {
        for _ in 0..SHARDS {
            s.spawn(|| loop {
                let i = next.fetch_add(1, Ordering::Relaxed) as usize;
                if i >= inputs.len() {
                    break;
                }
                let r = no_harness_panic(|| check(ctx, &inputs[i]));
                ctx.judge(&inputs[i], r);
            });
        }
    });
}

/// Unused in library code but handy for single-value shrinking elsewhere.
pub fn shrink_bytes(
    bytes: Vec<u8>,
    still_fails: &dyn Fn(&[u8]) -> bool,
    max_iters: usize,
) -> Vec<u8> {
    let strat = proptest::strategy::Just(bytes.clone());
    let mut runner = TestRunner::deterministic();
    let _ = strat.new_tree(&mut runner).map(|t| t.current());
    // simple delta-debugging: remove chunks, then zero bytes
    let mut cur = bytes;
    let mut iters = 0;
    let mut chunk = cur.len().max(1) / 2;
    while chunk >= 1 && iters < max_iters {
        let mut i = 0;
        let mut progressed = false;
        while i + chunk <= cur.len() && iters < max_iters {
            let mut cand = cur.clone();
            cand.drain(i..i + chunk);
            iters += 1;
            if still_fails(&cand) {
                cur = cand;
                progressed = true;
            } else {
                i += chunk;
            }
        }
        if !progressed {
            chunk /= 2;
        }
    }
    for i in 0..cur.len() {
        if iters >= max_iters {
            break;
        }
        if cur[i] != 0 {
            let mut cand = cur.clone();
            cand[i] = 0;
            iters += 1;
            if still_fails(&cand) {
                cur = cand;
            }
        }
    }
    cur
}

// ---------------------------------------------------------------------------
// finishing: evidence, replay files, exit code

pub struct EvidenceMeta {
    pub rule: String,
    pub assumptions: Vec<String>,
    pub level: &'static str,
    pub exhaustive: bool,
}

pub fn finish(ctx: &Ctx, meta: EvidenceMeta) -> i32 {
    let wall = ctx.start.elapsed().as_secs_f64();
    let violations = ctx.stats.violations.lock().unwrap();
    let known = ctx.stats.known_hits.lock().unwrap();
    let labels = ctx.stats.labels.lock().unwrap();
    let samples = ctx.stats.samples.lock().unwrap();
    let extra = ctx.stats.extra.lock().unwrap();
    let inconclusive = ctx.stats.inconclusive.lock().unwrap();
    let evals = ctx.stats.evaluations.load(Ordering::Relaxed);
    let nontrivial = ctx.stats.nontrivial.lock().unwrap().len();

    // replay files
    let mut replay_paths = Vec::new();
    let mut seen_sigs = HashSet::new();
    let rdir = ctx.verif_dir.join("replays");
    let _ = std::fs::create_dir_all(&rdir);
    for (i, v) in violations.iter().enumerate() {
        if !seen_sigs.insert(v.failure.signature.clone()) {
            continue;
        }
        let name = format!(
            "{}-{}-{:016x}-{}.json",
            ctx.prop,
            ctx.tier.name(),
            mix(ctx.seed, fnv(v.failure.signature.as_bytes())),
            i
        );
        let p = rdir.join(name);
        let body = json!({
            "property": ctx.prop,
            "signature": v.failure.signature,
            "detail": v.failure.detail,
            "input": v.input.to_json(),
            "seed": ctx.seed,
            "tier": ctx.tier.name(),
        });
        let _ = std::fs::write(&p, serde_json::to_string_pretty(&body).unwrap());
        replay_paths.push((p, v.failure.clone()));
    }

    let mut coverage = serde_json::Map::new();
    coverage.insert("evaluations".into(), json!(evals));
    coverage.insert("distinct_nontrivial".into(), json!(nontrivial));
    coverage.insert("rule".into(), json!(meta.rule));
    let mut s: Vec<Value> = samples.clone();
    if s.is_empty() {
        s.push(json!("no sample recorded"));
    }
    coverage.insert("samples".into(), Value::Array(s));
    coverage.insert("exhaustive".into(), json!(meta.exhaustive));
    coverage.insert(
        "classes".into(),
        Value::Object(labels.iter().map(|(k, v)| (k.clone(), json!(v))).collect()),
    );
    coverage.insert(
        "known_findings_hit".into(),
        Value::Object(
            known
                .iter()
                .map(|(k, v)| (k.clone(), json!({"cases": v.0, "example": v.1})))
                .collect(),
        ),
    );
    coverage.insert("skipped".into(), json!(ctx.stats.skipped.load(Ordering::Relaxed)));
    if !inconclusive.is_empty() {
        coverage.insert("inconclusive".into(), json!(*inconclusive));
    }
    for (k, v) in extra.iter() {
        coverage.insert(k.clone(), v.clone());
    }
    let ev = json!({
        "property_id": ctx.prop,
        "tier": ctx.tier.name(),
        "seed": ctx.seed,
        "level": meta.level,
        "coverage": Value::Object(coverage),
        "assumptions": meta.assumptions,
        "wall_s": wall,
        "violations": replay_paths.len(),
    });
    if !ctx.strict {
        let edir = ctx.verif_dir.join("evidence");
        let _ = std::fs::create_dir_all(&edir);
        let p = edir.join(format!("{}.json", ctx.prop));
        if let Err(e) = std::fs::write(&p, serde_json::to_string_pretty(&ev).unwrap()) {
            eprintln!("cannot write evidence {}: {}", p.display(), e);
            return 2;
        }
    }

    for (sig, (n, ex)) in known.iter() {
        let what = ctx.is_known(sig).map(|k| k.what.clone()).unwrap_or_default();
        println!(
            "KNOWN-FINDING: property={} {} [{}] ({} cases; e.g. {})",
            ctx.prop,
            sig,
            what,
            n,
            truncate(ex, 160)
        );
    }
    println!(
        "{} {} seed={} evaluations={} distinct_nontrivial={} wall={:.1}s",
        ctx.prop,
        ctx.tier.name(),
        ctx.seed,
        evals,
        nontrivial,
        wall
    );
    if !replay_paths.is_empty() {
        for (p, f) in &replay_paths {
            println!("  failure {}: {}", f.signature, truncate(&f.detail, 400));
            println!("VIOLATION property={} replay={}", ctx.prop, p.display());
        }
        return 1;
    }
    if !inconclusive.is_empty() {
        for i in inconclusive.iter() {
            eprintln!("inconclusive: {}", i);
        }
    }
    0
}

pub fn truncate(s: &str, n: usize) -> String {
    if s.len() <= n {
        s.to_string()
    } else {
        let mut e = n;
        while !s.is_char_boundary(e) {
            e -= 1;
        }
        format!("{}…", &s[..e])
    }
}

/// Write one replay file (used by the libFuzzer targets).
pub fn write_replay(ctx: &Ctx, input: &Input, f: &Failure, tag: &str) -> PathBuf {
    let rdir = ctx.verif_dir.join("replays");
    let _ = std::fs::create_dir_all(&rdir);
    let name = format!("{}-{}-{:016x}.json", ctx.prop, tag, mix(ctx.seed, fnv(f.signature.as_bytes())));
    let p = rdir.join(name);
    let body = json!({
        "property": ctx.prop,
        "signature": f.signature,
        "detail": f.detail,
        "input": input.to_json(),
        "seed": ctx.seed,
        "tier": "thorough",
    });
    let _ = std::fs::write(&p, serde_json::to_string_pretty(&body).unwrap());
    p
}

/// Load replay files of the regression corpus for this property.
pub fn load_regress(ctx: &Ctx) -> Vec<(PathBuf, Input, String)> {
    let dir = ctx.verif_dir.join("corpus/regress").join(&ctx.prop);
    let mut out = Vec::new();
    if let Ok(rd) = std::fs::read_dir(&dir) {
        let mut ps: Vec<PathBuf> = rd.filter_map(|e| e.ok().map(|e| e.path())).collect();
        ps.sort();
        for p in ps {
            if p.extension().map(|e| e == "json").unwrap_or(false) {
                if let Ok(t) = std::fs::read_to_string(&p) {
                    if let Ok(v) = serde_json::from_str::<Value>(&t) {
                        if let Some(i) = v.get("input").and_then(Input::from_json) {
                            let sig = v["signature"].as_str().unwrap_or("").to_string();
                            out.push((p, i, sig));
                        }
                    }
                }
            }
        }
    }
    out
}

pub fn load_replay(path: &str) -> anyhow::Result<(String, Input)> {
    let t = std::fs::read_to_string(path)?;
    let v: Value = serde_json::from_str(&t)?;
    let prop = v["property"].as_str().unwrap_or("").to_string();
    let input = v
        .get("input")
        .and_then(Input::from_json)
        .ok_or_else(|| anyhow::anyhow!("replay file has no input"))?;
    Ok((prop, input))
}

/// Wall-clock watchdog: a check that runs far past its budget is
/// inconclusive (exit 2), never a violation.
pub fn start_watchdog(secs: u64) {
    std::thread::spawn(move || {
        std::thread::sleep(std::time::Duration::from_secs(secs));
        eprintln!("watchdog: check exceeded {} s; inconclusive", secs);
        std::process::exit(2);
    });
}
