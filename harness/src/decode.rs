//! Independent decode of a wasm binary into plain data (wasmparser only).

use crate::ops::{read_ops, Op, VT};
use anyhow::{bail, Result};
use std::ops::Range;
use wasmparser::{Parser, Payload};

#[derive(Clone, Debug, PartialEq, Eq, Hash)]
pub struct FuncTy {
    pub params: Vec<VT>,
    pub results: Vec<VT>,
}

#[derive(Clone, Debug, PartialEq, Eq, Hash)]
pub struct TableTy {
    pub elem: VT,
    pub table64: bool,
    pub initial: u64,
    pub maximum: Option<u64>,
    pub shared: bool,
}

#[derive(Clone, Debug, PartialEq, Eq, Hash)]
pub struct MemTy {
    pub memory64: bool,
    pub shared: bool,
    pub initial: u64,
    pub maximum: Option<u64>,
    pub page_size_log2: Option<u32>,
}

#[derive(Clone, Debug, PartialEq, Eq, Hash)]
pub struct GlobalTy {
    pub ty: VT,
    pub mutable: bool,
    pub shared: bool,
}

#[derive(Clone, Debug, PartialEq, Eq, Hash)]
pub enum ImportKind {
    Func(u32),
    Table(TableTy),
    Memory(MemTy),
    Global(GlobalTy),
    Tag,
}

#[derive(Clone, Debug, PartialEq, Eq, Hash)]
pub struct ImportD {
    pub module: String,
    pub name: String,
    pub kind: ImportKind,
}

#[derive(Clone, Debug)]
pub struct TableD {
    pub ty: TableTy,
    pub init: Option<Vec<Op>>,
}

#[derive(Clone, Debug)]
pub struct GlobalD {
    pub ty: GlobalTy,
    pub init: Vec<Op>,
}

#[derive(Clone, Copy, Debug, PartialEq, Eq, Hash, PartialOrd, Ord)]
pub enum ExtKind {
    Func,
    Table,
    Memory,
    Global,
    Tag,
}

#[derive(Clone, Debug, PartialEq, Eq, Hash)]
pub struct ExportD {
    pub name: String,
    pub kind: ExtKind,
    pub index: u32,
}

#[derive(Clone, Debug)]
pub enum ElemMode {
    Active {
        table: u32,
        explicit_table: bool,
        offset: Vec<Op>,
    },
    Passive,
    Declared,
}

#[derive(Clone, Debug)]
pub enum ElemItems {
    Funcs(Vec<u32>),
    Exprs(VT, Vec<Vec<Op>>),
}

#[derive(Clone, Debug)]
pub struct ElemD {
    pub mode: ElemMode,
    pub items: ElemItems,
    /// The leading flag LEB of the segment in the binary (0..=7).
    pub flag: u32,
}

impl ElemD {
    pub fn len(&self) -> usize {
        match &self.items {
            ElemItems::Funcs(v) => v.len(),
            ElemItems::Exprs(_, v) => v.len(),
        }
    }
    pub fn elem_ty(&self) -> VT {
        match &self.items {
            ElemItems::Funcs(_) => VT::FuncRef,
            ElemItems::Exprs(t, _) => *t,
        }
    }
}

#[derive(Clone, Debug)]
pub enum DataMode {
    Active { memory: u32, offset: Vec<Op> },
    Passive,
}

#[derive(Clone, Debug)]
pub struct DataD {
    pub mode: DataMode,
    pub bytes: Vec<u8>,
    pub flag: u32,
}

#[derive(Clone, Debug)]
pub struct FuncD {
    pub ty: u32,
    /// declared (non-parameter) locals, expanded
    pub locals: Vec<VT>,
    pub local_groups: Vec<(u32, VT)>,
    pub ops: Vec<Op>,
    /// absolute range of the body (after the size LEB): locals + code
    pub body_range: Range<usize>,
    /// absolute range of the whole code entry, size LEB included
    pub entry_range: Range<usize>,
}

#[derive(Clone, Debug, PartialEq, Eq, Hash)]
pub struct CustomD {
    pub name: String,
    pub data: Vec<u8>,
    /// index of this section among all sections of the binary
    pub position: usize,
}

#[derive(Clone, Debug, Default)]
pub struct ModuleD {
    pub types: Vec<FuncTy>,
    pub imports: Vec<ImportD>,
    pub func_types: Vec<u32>, // local functions' type indices (function section)
    pub funcs: Vec<FuncD>,    // local function bodies
    pub tables: Vec<TableD>,
    pub memories: Vec<MemTy>,
    pub globals: Vec<GlobalD>,
    pub exports: Vec<ExportD>,
    pub start: Option<u32>,
    pub elems: Vec<ElemD>,
    pub datas: Vec<DataD>,
    pub data_count: Option<u32>,
    pub customs: Vec<CustomD>,
    /// absolute offset of the code section *contents* (the function-count LEB)
    pub code_section_start: Option<usize>,
    pub code_section_range: Option<Range<usize>>,
    pub n_sections: usize,
    pub imp_funcs: Vec<usize>,   // indices into imports
    pub imp_tables: Vec<usize>,
    pub imp_mems: Vec<usize>,
    pub imp_globals: Vec<usize>,
}

fn table_ty(t: &wasmparser::TableType) -> TableTy {
    TableTy {
        elem: VT::from_wp(wasmparser::ValType::Ref(t.element_type)),
        table64: t.table64,
        initial: t.initial,
        maximum: t.maximum,
        shared: t.shared,
    }
}
fn mem_ty(m: &wasmparser::MemoryType) -> MemTy {
    MemTy {
        memory64: m.memory64,
        shared: m.shared,
        initial: m.initial,
        maximum: m.maximum,
        page_size_log2: m.page_size_log2,
    }
}
fn global_ty(g: &wasmparser::GlobalType) -> GlobalTy {
    GlobalTy {
        ty: VT::from_wp(g.content_type),
        mutable: g.mutable,
        shared: g.shared,
    }
}

fn const_ops(e: &wasmparser::ConstExpr) -> Result<Vec<Op>> {
    read_ops(e.get_operators_reader())
}

fn read_leb_u32(bytes: &[u8], mut pos: usize) -> Option<(u32, usize)> {
    let mut result: u64 = 0;
    let mut shift = 0;
    loop {
        let b = *bytes.get(pos)?;
        pos += 1;
        result |= ((b & 0x7f) as u64) << shift;
        if b & 0x80 == 0 {
            break;
        }
        shift += 7;
        if shift > 35 {
            return None;
        }
    }
    Some((result as u32, pos))
}

pub fn leb_len(mut v: u64) -> usize {
    let mut n = 1;
    while v >= 0x80 {
        v >>= 7;
        n += 1;
    }
    n
}

pub fn decode(bytes: &[u8]) -> Result<ModuleD> {
    let mut m = ModuleD::default();
    let mut parser = Parser::new(0);
    parser.set_features(wasmparser::WasmFeatures::all());
    let mut sec_idx = 0usize;
    for payload in parser.parse_all(bytes) {
        let payload = payload?;
        match payload {
            Payload::Version { .. } => {}
            Payload::TypeSection(s) => {
                sec_idx += 1;
                for ty in s.into_iter_err_on_gc_types() {
                    let ft = ty?;
                    m.types.push(FuncTy {
                        params: ft.params().iter().map(|v| VT::from_wp(*v)).collect(),
                        results: ft.results().iter().map(|v| VT::from_wp(*v)).collect(),
                    });
                }
            }
            Payload::ImportSection(s) => {
                sec_idx += 1;
                for e in s {
                    let e = e?;
                    let kind = match e.ty {
                        wasmparser::TypeRef::Func(i) => {
                            m.imp_funcs.push(m.imports.len());
                            ImportKind::Func(i)
                        }
                        wasmparser::TypeRef::Table(t) => {
                            m.imp_tables.push(m.imports.len());
                            ImportKind::Table(table_ty(&t))
                        }
                        wasmparser::TypeRef::Memory(t) => {
                            m.imp_mems.push(m.imports.len());
                            ImportKind::Memory(mem_ty(&t))
                        }
                        wasmparser::TypeRef::Global(t) => {
                            m.imp_globals.push(m.imports.len());
                            ImportKind::Global(global_ty(&t))
                        }
                        wasmparser::TypeRef::Tag(_) => ImportKind::Tag,
                    };
                    m.imports.push(ImportD {
                        module: e.module.to_string(),
                        name: e.name.to_string(),
                        kind,
                    });
                }
            }
            Payload::FunctionSection(s) => {
                sec_idx += 1;
                for f in s {
                    m.func_types.push(f?);
                }
            }
            Payload::TableSection(s) => {
                sec_idx += 1;
                for t in s {
                    let t = t?;
                    let init = match &t.init {
                        wasmparser::TableInit::RefNull => None,
                        wasmparser::TableInit::Expr(e) => Some(const_ops(e)?),
                    };
                    m.tables.push(TableD {
                        ty: table_ty(&t.ty),
                        init,
                    });
                }
            }
            Payload::MemorySection(s) => {
                sec_idx += 1;
                for t in s {
                    m.memories.push(mem_ty(&t?));
                }
            }
            Payload::GlobalSection(s) => {
                sec_idx += 1;
                for g in s {
                    let g = g?;
                    m.globals.push(GlobalD {
                        ty: global_ty(&g.ty),
                        init: const_ops(&g.init_expr)?,
                    });
                }
            }
            Payload::ExportSection(s) => {
                sec_idx += 1;
                for e in s {
                    let e = e?;
                    m.exports.push(ExportD {
                        name: e.name.to_string(),
                        kind: match e.kind {
                            wasmparser::ExternalKind::Func => ExtKind::Func,
                            wasmparser::ExternalKind::Table => ExtKind::Table,
                            wasmparser::ExternalKind::Memory => ExtKind::Memory,
                            wasmparser::ExternalKind::Global => ExtKind::Global,
                            wasmparser::ExternalKind::Tag => ExtKind::Tag,
                        },
                        index: e.index,
                    });
                }
            }
            Payload::StartSection { func, .. } => {
                sec_idx += 1;
                m.start = Some(func);
            }
            Payload::ElementSection(s) => {
                sec_idx += 1;
                for e in s {
                    let e = e?;
                    let flag = read_leb_u32(bytes, e.range.start).map(|x| x.0).unwrap_or(99);
                    let mode = match e.kind {
                        wasmparser::ElementKind::Passive => ElemMode::Passive,
                        wasmparser::ElementKind::Declared => ElemMode::Declared,
                        wasmparser::ElementKind::Active {
                            table_index,
                            offset_expr,
                        } => ElemMode::Active {
                            table: table_index.unwrap_or(0),
                            explicit_table: table_index.is_some(),
                            offset: const_ops(&offset_expr)?,
                        },
                    };
                    let items = match e.items {
                        wasmparser::ElementItems::Functions(r) => {
                            let mut v = Vec::new();
                            for f in r {
                                v.push(f?);
                            }
                            ElemItems::Funcs(v)
                        }
                        wasmparser::ElementItems::Expressions(rt, r) => {
                            let mut v = Vec::new();
                            for x in r {
                                v.push(const_ops(&x?)?);
                            }
                            ElemItems::Exprs(VT::from_wp(wasmparser::ValType::Ref(rt)), v)
                        }
                    };
                    m.elems.push(ElemD { mode, items, flag });
                }
            }
            Payload::DataCountSection { count, .. } => {
                sec_idx += 1;
                m.data_count = Some(count);
            }
            Payload::DataSection(s) => {
                sec_idx += 1;
                for d in s {
                    let d = d?;
                    let flag = read_leb_u32(bytes, d.range.start).map(|x| x.0).unwrap_or(99);
                    let mode = match d.kind {
                        wasmparser::DataKind::Passive => DataMode::Passive,
                        wasmparser::DataKind::Active {
                            memory_index,
                            offset_expr,
                        } => DataMode::Active {
                            memory: memory_index,
                            offset: const_ops(&offset_expr)?,
                        },
                    };
                    m.datas.push(DataD {
                        mode,
                        bytes: d.data.to_vec(),
                        flag,
                    });
                }
            }
            Payload::CodeSectionStart { range, .. } => {
                sec_idx += 1;
                m.code_section_start = Some(range.start);
                m.code_section_range = Some(range);
            }
            Payload::CodeSectionEntry(body) => {
                let idx = m.funcs.len();
                let ty = *m.func_types.get(idx).unwrap_or(&u32::MAX);
                let body_range = body.range();
                let size = (body_range.end - body_range.start) as u64;
                let entry_range = (body_range.start - leb_len(size))..body_range.end;
                let mut locals = Vec::new();
                let mut local_groups = Vec::new();
                let lr = body.get_locals_reader()?;
                for l in lr {
                    let (n, t) = l?;
                    let t = VT::from_wp(t);
                    local_groups.push((n, t));
                    if locals.len() as u64 + n as u64 > 1_000_000 {
                        bail!("too many locals to expand");
                    }
                    for _ in 0..n {
                        locals.push(t);
                    }
                }
                let ops = read_ops(body.get_operators_reader()?)?;
                m.funcs.push(FuncD {
                    ty,
                    locals,
                    local_groups,
                    ops,
                    body_range,
                    entry_range,
                });
            }
            Payload::CustomSection(s) => {
                m.customs.push(CustomD {
                    name: s.name().to_string(),
                    data: s.data().to_vec(),
                    position: sec_idx,
                });
                sec_idx += 1;
            }
            Payload::End(_) => {}
            Payload::TagSection(_) => {
                sec_idx += 1;
            }
            other => {
                bail!("unsupported payload in decode: {:?}", other);
            }
        }
    }
    m.n_sections = sec_idx;
    Ok(m)
}

impl ModuleD {
    pub fn n_imp_funcs(&self) -> u32 {
        self.imp_funcs.len() as u32
    }
    pub fn n_funcs(&self) -> u32 {
        (self.imp_funcs.len() + self.func_types.len()) as u32
    }
    pub fn n_tables(&self) -> u32 {
        (self.imp_tables.len() + self.tables.len()) as u32
    }
    pub fn n_mems(&self) -> u32 {
        (self.imp_mems.len() + self.memories.len()) as u32
    }
    pub fn n_globals(&self) -> u32 {
        (self.imp_globals.len() + self.globals.len()) as u32
    }
    /// Type index of function `f` in the function index space.
    pub fn func_type_index(&self, f: u32) -> Option<u32> {
        let ni = self.imp_funcs.len() as u32;
        if f < ni {
            match &self.imports[self.imp_funcs[f as usize]].kind {
                ImportKind::Func(t) => Some(*t),
                _ => None,
            }
        } else {
            self.func_types.get((f - ni) as usize).copied()
        }
    }
    pub fn func_sig(&self, f: u32) -> Option<&FuncTy> {
        self.types.get(self.func_type_index(f)? as usize)
    }
    pub fn table_ty(&self, t: u32) -> Option<&TableTy> {
        let ni = self.imp_tables.len() as u32;
        if t < ni {
            match &self.imports[self.imp_tables[t as usize]].kind {
                ImportKind::Table(t) => Some(t),
                _ => None,
            }
        } else {
            self.tables.get((t - ni) as usize).map(|t| &t.ty)
        }
    }
    pub fn mem_ty(&self, t: u32) -> Option<&MemTy> {
        let ni = self.imp_mems.len() as u32;
        if t < ni {
            match &self.imports[self.imp_mems[t as usize]].kind {
                ImportKind::Memory(t) => Some(t),
                _ => None,
            }
        } else {
            self.memories.get((t - ni) as usize)
        }
    }
    pub fn global_ty(&self, t: u32) -> Option<&GlobalTy> {
        let ni = self.imp_globals.len() as u32;
        if t < ni {
            match &self.imports[self.imp_globals[t as usize]].kind {
                ImportKind::Global(t) => Some(t),
                _ => None,
            }
        } else {
            self.globals.get((t - ni) as usize).map(|t| &t.ty)
        }
    }
    /// local function body for function index `f`, if local
    /// the generator's identity tag of a function (`i64.const 0x7a6000+k; drop`
    /// at the start of the body), if it has one
    pub fn func_tag(&self, f: u32) -> Option<i64> {
        let b = self.body(f)?;
        match (b.ops.first(), b.ops.get(1)) {
            (Some(o), Some(p)) if o.name == "I64Const" && p.name == "Drop" => match o.imms.first() {
                Some(crate::ops::Imm::I64(v)) if (0x7a6000..0x7a6000 + 100_000).contains(v) => Some(*v),
                _ => None,
            },
            _ => None,
        }
    }

    pub fn body(&self, f: u32) -> Option<&FuncD> {
        let ni = self.imp_funcs.len() as u32;
        if f < ni {
            None
        } else {
            self.funcs.get((f - ni) as usize)
        }
    }
}

/// A raw section as found by a trivial walk of the binary (no wasmparser).
#[derive(Clone, Debug, PartialEq, Eq)]
pub struct RawSection {
    pub id: u8,
    /// whole section including id byte and size LEB
    pub whole: Range<usize>,
    /// payload only
    pub payload: Range<usize>,
    /// name, for custom sections with a well-formed name
    pub name: Option<String>,
}

pub fn raw_sections(bytes: &[u8]) -> Result<Vec<RawSection>> {
    if bytes.len() < 8 || &bytes[0..4] != b"\0asm" {
        bail!("not a wasm module header");
    }
    let mut pos = 8;
    let mut out = Vec::new();
    while pos < bytes.len() {
        let start = pos;
        let id = bytes[pos];
        pos += 1;
        let (size, p) = match read_leb_u32(bytes, pos) {
            Some(x) => x,
            None => bail!("bad section size"),
        };
        pos = p;
        let end = pos + size as usize;
        if end > bytes.len() {
            bail!("section overruns file");
        }
        let mut name = None;
        if id == 0 {
            if let Some((n, p2)) = read_leb_u32(bytes, pos) {
                let e = p2 + n as usize;
                if e <= end {
                    if let Ok(s) = std::str::from_utf8(&bytes[p2..e]) {
                        name = Some(s.to_string());
                    }
                }
            }
        }
        out.push(RawSection {
            id,
            whole: start..end,
            payload: pos..end,
            name,
        });
        pos = end;
    }
    Ok(out)
}
