//! Owned, index-kind-aware operator form, independent of walrus.
//!
//! Every `wasmparser::Operator` is flattened into (`name`, typed immediates);
//! the kind of each `u32` immediate (function / type / table / ... index,
//! label depth, lane) is derived from the field name wasmparser gives it.

use wasmparser::{BlockType, HeapType, MemArg, Operator, ValType};

#[derive(Clone, Copy, Debug, PartialEq, Eq, Hash, PartialOrd, Ord)]
pub enum VT {
    I32,
    I64,
    F32,
    F64,
    V128,
    FuncRef,
    ExternRef,
    Other(u32),
}

impl VT {
    pub const ALL: [VT; 7] = [
        VT::I32,
        VT::I64,
        VT::F32,
        VT::F64,
        VT::V128,
        VT::FuncRef,
        VT::ExternRef,
    ];
    pub fn from_wp(v: ValType) -> VT {
        match v {
            ValType::I32 => VT::I32,
            ValType::I64 => VT::I64,
            ValType::F32 => VT::F32,
            ValType::F64 => VT::F64,
            ValType::V128 => VT::V128,
            ValType::Ref(r) if r == wasmparser::RefType::FUNCREF => VT::FuncRef,
            ValType::Ref(r) if r == wasmparser::RefType::EXTERNREF => VT::ExternRef,
            ValType::Ref(r) => {
                use std::hash::{Hash, Hasher};
                let mut h = std::collections::hash_map::DefaultHasher::new();
                format!("{:?}", r).hash(&mut h);
                VT::Other(h.finish() as u32)
            }
        }
    }
    pub fn to_wp(self) -> ValType {
        match self {
            VT::I32 => ValType::I32,
            VT::I64 => ValType::I64,
            VT::F32 => ValType::F32,
            VT::F64 => ValType::F64,
            VT::V128 => ValType::V128,
            VT::FuncRef => ValType::FUNCREF,
            VT::ExternRef => ValType::EXTERNREF,
            VT::Other(_) => panic!("VT::Other has no wasmparser form"),
        }
    }
    pub fn to_we(self) -> wasm_encoder::ValType {
        match self {
            VT::I32 => wasm_encoder::ValType::I32,
            VT::I64 => wasm_encoder::ValType::I64,
            VT::F32 => wasm_encoder::ValType::F32,
            VT::F64 => wasm_encoder::ValType::F64,
            VT::V128 => wasm_encoder::ValType::V128,
            VT::FuncRef => wasm_encoder::ValType::Ref(wasm_encoder::RefType::FUNCREF),
            VT::ExternRef => wasm_encoder::ValType::Ref(wasm_encoder::RefType::EXTERNREF),
            VT::Other(_) => panic!("VT::Other has no encoder form"),
        }
    }
    pub fn is_ref(self) -> bool {
        matches!(self, VT::FuncRef | VT::ExternRef)
    }
    pub fn short(self) -> &'static str {
        match self {
            VT::I32 => "i32",
            VT::I64 => "i64",
            VT::F32 => "f32",
            VT::F64 => "f64",
            VT::V128 => "v128",
            VT::FuncRef => "funcref",
            VT::ExternRef => "externref",
            VT::Other(_) => "otherref",
        }
    }
}

#[derive(Clone, Copy, Debug, PartialEq, Eq, Hash)]
pub enum BlockTy {
    Empty,
    Val(VT),
    Func(u32),
}

#[derive(Clone, Debug, PartialEq, Eq, Hash)]
pub enum Imm {
    Func(u32),
    Type(u32),
    Table(u32),
    Mem(u32),
    Global(u32),
    Data(u32),
    Elem(u32),
    Local(u32),
    Label(u32),
    Lane(u8),
    U32(u32),
    I32(i32),
    I64(i64),
    F32(u32),
    F64(u64),
    V128([u8; 16]),
    Lanes([u8; 16]),
    MemArg { align: u8, offset: u64, memory: u32 },
    Block(BlockTy),
    BrTable(Vec<u32>, u32),
    ValTy(VT),
    Heap(String),
    Other(String),
}

#[derive(Clone, Debug, PartialEq, Eq, Hash)]
pub struct Op {
    pub name: &'static str,
    pub proposal: &'static str,
    pub imms: Vec<Imm>,
    /// Absolute byte offset of the first byte of this operator in its binary.
    pub offset: usize,
}

impl Op {
    pub fn is(&self, n: &str) -> bool {
        self.name == n
    }
    pub fn short(&self) -> String {
        if self.imms.is_empty() {
            self.name.to_string()
        } else {
            format!("{} {:?}", self.name, self.imms)
        }
    }
    /// Does control never fall through this operator?
    pub fn is_terminator(&self) -> bool {
        matches!(
            self.name,
            "Unreachable" | "Br" | "BrTable" | "Return" | "ReturnCall" | "ReturnCallIndirect"
        )
    }
    pub fn opens_block(&self) -> bool {
        matches!(self.name, "Block" | "Loop" | "If")
    }
}

pub trait ImmOf {
    fn imm(&self, field: &'static str) -> Imm;
}

impl ImmOf for u32 {
    fn imm(&self, field: &'static str) -> Imm {
        let v = *self;
        match field {
            "function_index" => Imm::Func(v),
            "type_index" => Imm::Type(v),
            "table_index" | "table" | "src_table" | "dst_table" => Imm::Table(v),
            "mem" | "src_mem" | "dst_mem" => Imm::Mem(v),
            "global_index" => Imm::Global(v),
            "data_index" | "array_data_index" => Imm::Data(v),
            "elem_index" | "array_elem_index" => Imm::Elem(v),
            "local_index" => Imm::Local(v),
            "relative_depth" => Imm::Label(v),
            _ => Imm::U32(v),
        }
    }
}
impl ImmOf for u8 {
    fn imm(&self, _f: &'static str) -> Imm {
        Imm::Lane(*self)
    }
}
impl ImmOf for i32 {
    fn imm(&self, _f: &'static str) -> Imm {
        Imm::I32(*self)
    }
}
impl ImmOf for i64 {
    fn imm(&self, _f: &'static str) -> Imm {
        Imm::I64(*self)
    }
}
impl ImmOf for wasmparser::Ieee32 {
    fn imm(&self, _f: &'static str) -> Imm {
        Imm::F32(self.bits())
    }
}
impl ImmOf for wasmparser::Ieee64 {
    fn imm(&self, _f: &'static str) -> Imm {
        Imm::F64(self.bits())
    }
}
impl ImmOf for wasmparser::V128 {
    fn imm(&self, _f: &'static str) -> Imm {
        Imm::V128(*self.bytes())
    }
}
impl ImmOf for [u8; 16] {
    fn imm(&self, _f: &'static str) -> Imm {
        Imm::Lanes(*self)
    }
}
impl ImmOf for MemArg {
    fn imm(&self, _f: &'static str) -> Imm {
        Imm::MemArg {
            align: self.align,
            offset: self.offset,
            memory: self.memory,
        }
    }
}
impl ImmOf for BlockType {
    fn imm(&self, _f: &'static str) -> Imm {
        Imm::Block(match self {
            BlockType::Empty => BlockTy::Empty,
            BlockType::Type(t) => BlockTy::Val(VT::from_wp(*t)),
            BlockType::FuncType(i) => BlockTy::Func(*i),
        })
    }
}
impl<'a> ImmOf for wasmparser::BrTable<'a> {
    fn imm(&self, _f: &'static str) -> Imm {
        let t: Vec<u32> = self.targets().map(|t| t.unwrap_or(u32::MAX)).collect();
        Imm::BrTable(t, self.default())
    }
}
impl ImmOf for ValType {
    fn imm(&self, _f: &'static str) -> Imm {
        Imm::ValTy(VT::from_wp(*self))
    }
}
impl ImmOf for HeapType {
    fn imm(&self, _f: &'static str) -> Imm {
        Imm::Heap(format!("{:?}", self))
    }
}
impl ImmOf for wasmparser::RefType {
    fn imm(&self, _f: &'static str) -> Imm {
        Imm::Other(format!("{:?}", self))
    }
}
impl ImmOf for wasmparser::Ordering {
    fn imm(&self, _f: &'static str) -> Imm {
        Imm::Other(format!("{:?}", self))
    }
}
impl ImmOf for wasmparser::TryTable {
    fn imm(&self, _f: &'static str) -> Imm {
        Imm::Other(format!("{:?}", self))
    }
}

/// wasmparser's V128 has no public constructor: parse one.
pub fn v128(v: u128) -> wasmparser::V128 {
    let mut b = vec![0xfd, 0x0c];
    b.extend_from_slice(&v.to_le_bytes());
    let mut r = wasmparser::BinaryReader::new(&b, 0, wasmparser::WasmFeatures::all());
    match r.read_operator().unwrap() {
        Operator::V128Const { value } => value,
        _ => unreachable!(),
    }
}

pub struct Flat;

macro_rules! define_flatten {
    ($( @$proposal:ident $op:ident $({ $($arg:ident: $argty:ty),* })? => $visit:ident)*) => {
        impl<'a> wasmparser::VisitOperator<'a> for Flat {
            type Output = Op;
            $(
                fn $visit(&mut self $($(, $arg: $argty)*)?) -> Op {
                    Op {
                        name: stringify!($op),
                        proposal: stringify!($proposal),
                        imms: vec![$($( ImmOf::imm(&$arg, stringify!($arg)) ),*)?],
                        offset: 0,
                    }
                }
            )*
        }
        /// (name, proposal) of every operator wasmparser knows.
        pub const ALL_OPERATOR_NAMES: &[(&str, &str)] = &[
            $( (stringify!($op), stringify!($proposal)) ),*
        ];
    };
}
wasmparser::for_each_operator!(define_flatten);

pub fn flatten(op: &Operator<'_>, offset: usize) -> Op {
    // Operator has no by-ref visit; go through its visitor dispatch.
    let mut f = Flat;
    let mut o = visit_op(op, &mut f);
    o.offset = offset;
    o
}

macro_rules! define_visit_op {
    ($( @$proposal:ident $op:ident $({ $($arg:ident: $argty:ty),* })? => $visit:ident)*) => {
        fn visit_op<'a>(op: &Operator<'a>, f: &mut Flat) -> Op {
            use wasmparser::VisitOperator;
            match op {
                $( Operator::$op $({ $($arg),* })? => f.$visit($($($arg.clone()),*)?), )*
            }
        }
    };
}
wasmparser::for_each_operator!(define_visit_op);

/// Read every operator of an operators reader, with absolute offsets.
pub fn read_ops(mut r: wasmparser::OperatorsReader<'_>) -> anyhow::Result<Vec<Op>> {
    let mut v = Vec::new();
    while !r.eof() {
        let pos = r.original_position();
        let op = r.read()?;
        v.push(flatten(&op, pos));
    }
    Ok(v)
}

// ---------------------------------------------------------------------------
// Enumeration of operator instances with boundary immediates (C03a).

pub trait Boundary: Sized + Clone {
    fn values(field: &'static str, op: &'static str) -> Vec<Self>;
}

/// Environment constants that the exhaustive table's host module provides.
pub mod env {
    pub const N_FUNCS: u32 = 4;
    pub const N_TYPES: u32 = 4;
    pub const N_TABLES: u32 = 3;
    pub const N_MEMS: u32 = 3; // 0: i32, 1: i32 shared, 2: i64
    pub const N_GLOBALS: u32 = 9;
    pub const N_DATA: u32 = 3;
    pub const N_ELEMS: u32 = 3;
    pub const N_LOCALS: u32 = 9;
}

impl Boundary for u32 {
    fn values(field: &'static str, _op: &'static str) -> Vec<u32> {
        match field {
            "function_index" => (0..env::N_FUNCS).collect(),
            "type_index" => (0..env::N_TYPES).collect(),
            "table_index" | "table" | "src_table" | "dst_table" => (0..env::N_TABLES).collect(),
            "mem" | "src_mem" | "dst_mem" => (0..env::N_MEMS).collect(),
            "global_index" => (0..env::N_GLOBALS).collect(),
            "data_index" => (0..env::N_DATA).collect(),
            "elem_index" => (0..env::N_ELEMS).collect(),
            "local_index" => (0..env::N_LOCALS).collect(),
            "relative_depth" => vec![0, 1, 2],
            _ => vec![0],
        }
    }
}
impl Boundary for u8 {
    fn values(_f: &'static str, op: &'static str) -> Vec<u8> {
        // lane index: the legal maximum depends on the shape in the name
        let max = if op.contains("8x16") || op.contains("V128Load8") || op.contains("V128Store8") {
            15
        } else if op.contains("16x8") || op.contains("V128Load16") || op.contains("V128Store16") {
            7
        } else if op.contains("32x4") || op.contains("V128Load32") || op.contains("V128Store32") {
            3
        } else {
            1
        };
        let mut v = vec![0, 1, max / 2, max];
        v.sort();
        v.dedup();
        v
    }
}
impl Boundary for i32 {
    fn values(_f: &'static str, _o: &'static str) -> Vec<i32> {
        vec![0, 1, -1, 63, 64, -64, -65, 8191, 8192, i32::MAX, i32::MIN, 0x7fff_ff80u32 as i32]
    }
}
impl Boundary for i64 {
    fn values(_f: &'static str, _o: &'static str) -> Vec<i64> {
        vec![
            0,
            1,
            -1,
            63,
            64,
            -64,
            -65,
            i32::MAX as i64,
            i32::MIN as i64,
            1 << 32,
            u32::MAX as i64,
            i64::MAX,
            i64::MIN,
            0x0123_4567_89ab_cdef,
        ]
    }
}
impl Boundary for wasmparser::Ieee32 {
    fn values(_f: &'static str, _o: &'static str) -> Vec<Self> {
        [
            0u32,
            0x8000_0000,
            0x3f80_0000,
            0xbf80_0000,
            0x7f80_0000,
            0xff80_0000,
            0x7fc0_0000,
            0xffc0_0000,
            0x7fa0_0000,
            0x7f80_0001,
            0xffbf_ffff,
            0x7fff_ffff,
            0x0000_0001,
            0x0080_0000,
            0x4049_0fdb,
        ]
        .iter()
        .map(|b| wasmparser::Ieee32::from(f32::from_bits(*b)))
        .collect()
    }
}
impl Boundary for wasmparser::Ieee64 {
    fn values(_f: &'static str, _o: &'static str) -> Vec<Self> {
        [
            0u64,
            0x8000_0000_0000_0000,
            0x3ff0_0000_0000_0000,
            0xbff0_0000_0000_0000,
            0x7ff0_0000_0000_0000,
            0xfff0_0000_0000_0000,
            0x7ff8_0000_0000_0000,
            0xfff8_0000_0000_0000,
            0x7ff4_0000_0000_0000,
            0x7ff0_0000_0000_0001,
            0xfff7_ffff_ffff_ffff,
            0x7fff_ffff_ffff_ffff,
            0x0000_0000_0000_0001,
            0x7ff0_0000_2000_0000, // signalling NaN whose payload does not survive an f32 round trip
            0x4009_21fb_5444_2d18,
        ]
        .iter()
        .map(|b| wasmparser::Ieee64::from(f64::from_bits(*b)))
        .collect()
    }
}
impl Boundary for wasmparser::V128 {
    fn values(_f: &'static str, _o: &'static str) -> Vec<Self> {
        let pats: [u128; 6] = [
            0,
            u128::MAX,
            0x0f0e0d0c0b0a09080706050403020100,
            1u128 << 127,
            0x7fc00000_7f800001_ffc00000_7fa00000,
            0x80000000_00000000_00000000_00000001,
        ];
        pats.iter()
            .map(|p| v128(*p))
            .collect()
    }
}
impl Boundary for [u8; 16] {
    fn values(_f: &'static str, _o: &'static str) -> Vec<Self> {
        let mut id = [0u8; 16];
        let mut rev = [0u8; 16];
        let mut hi = [0u8; 16];
        for i in 0..16 {
            id[i] = i as u8;
            rev[i] = 31 - i as u8;
            hi[i] = 16 + ((i as u8 * 7) % 16);
        }
        vec![id, rev, hi, [0; 16], [31; 16]]
    }
}
impl Boundary for MemArg {
    fn values(_f: &'static str, _o: &'static str) -> Vec<Self> {
        // `max_align` is fixed up later by natural-alignment discovery; here we
        // enumerate (align, offset, memory) and let the validator filter.
        let mut v = Vec::new();
        for memory in 0..env::N_MEMS {
            for align in 0..=4u8 {
                let mut offs: Vec<u64> = vec![0, 1, 127, 128, 65535, u32::MAX as u64];
                if memory == 2 {
                    offs.push(1u64 << 32);
                    offs.push((1u64 << 32) + 5);
                    offs.push(u64::MAX);
                }
                for offset in offs {
                    v.push(MemArg {
                        align,
                        max_align: align,
                        offset,
                        memory,
                    });
                }
            }
        }
        v
    }
}
impl Boundary for BlockType {
    fn values(_f: &'static str, _o: &'static str) -> Vec<Self> {
        let mut v = vec![BlockType::Empty];
        for t in VT::ALL {
            v.push(BlockType::Type(t.to_wp()));
        }
        for i in 0..env::N_TYPES {
            v.push(BlockType::FuncType(i));
        }
        v
    }
}
static BR_TABLES: &[&[u8]] = &[
    &[0x0e, 0x00, 0x00],
    &[0x0e, 0x00, 0x02],
    &[0x0e, 0x01, 0x01, 0x00],
    &[0x0e, 0x05, 0x00, 0x01, 0x02, 0x01, 0x00, 0x02],
    &[0x0e, 0x03, 0x02, 0x02, 0x02, 0x00],
];
impl<'a> Boundary for wasmparser::BrTable<'a> {
    fn values(_f: &'static str, _o: &'static str) -> Vec<Self> {
        BR_TABLES
            .iter()
            .map(|b| {
                let mut r = wasmparser::BinaryReader::new(b, 0, wasmparser::WasmFeatures::all());
                match r.read_operator().unwrap() {
                    Operator::BrTable { targets } => targets,
                    _ => unreachable!(),
                }
            })
            .collect()
    }
}
impl Boundary for ValType {
    fn values(_f: &'static str, _o: &'static str) -> Vec<Self> {
        VT::ALL.iter().map(|t| t.to_wp()).collect()
    }
}
impl Boundary for HeapType {
    fn values(_f: &'static str, _o: &'static str) -> Vec<Self> {
        vec![HeapType::FUNC, HeapType::EXTERN]
    }
}
impl Boundary for wasmparser::RefType {
    fn values(_f: &'static str, _o: &'static str) -> Vec<Self> {
        vec![wasmparser::RefType::FUNCREF]
    }
}
impl Boundary for wasmparser::Ordering {
    fn values(_f: &'static str, _o: &'static str) -> Vec<Self> {
        vec![wasmparser::Ordering::SeqCst]
    }
}
impl Boundary for wasmparser::TryTable {
    fn values(_f: &'static str, _o: &'static str) -> Vec<Self> {
        vec![wasmparser::TryTable {
            ty: BlockType::Empty,
            catches: vec![],
        }]
    }
}

macro_rules! product {
    ($v:ident, $op:ident, [$($done:ident)*], []) => {
        $v.push(Operator::$op { $($done),* });
    };
    ($v:ident, $op:ident, [$($done:ident)*], [$arg:ident : $ty:ty $(, $rest:ident : $rty:ty)*]) => {
        for $arg in <$ty as Boundary>::values(stringify!($arg), stringify!($op)) {
            $( let $done = $done.clone(); )*
            product!($v, $op, [$($done)* $arg], [$($rest : $rty),*]);
        }
    };
}

macro_rules! define_enumerate {
    ($( @$proposal:ident $op:ident $({ $($arg:ident: $argty:ty),* })? => $visit:ident)*) => {
        /// Every operator wasmparser knows, instantiated with boundary immediates.
        pub fn all_operator_instances<'a>() -> Vec<Operator<'a>> {
            let mut v: Vec<Operator<'a>> = Vec::new();
            $( define_enumerate!(@one v, $op $({ $($arg: $argty),* })?); )*
            v
        }
    };
    (@one $v:ident, $op:ident) => { $v.push(Operator::$op); };
    (@one $v:ident, $op:ident { $($arg:ident: $argty:ty),* }) => {
        product!($v, $op, [], [$($arg : $argty),*]);
    };
}
wasmparser::for_each_operator!(define_enumerate);

/// Encode one operator to bytes (through wasm-encoder's re-encoder).
pub fn encode_operator(op: &Operator<'_>) -> anyhow::Result<Vec<u8>> {
    use wasm_encoder::reencode::Reencode;
    use wasm_encoder::Encode;
    let mut r = wasm_encoder::reencode::RoundtripReencoder;
    let ins = r
        .instruction(op.clone())
        .map_err(|e| anyhow::anyhow!("reencode: {:?}", e))?;
    let mut out = Vec::new();
    ins.encode(&mut out);
    Ok(out)
}
