//! Coverage-guided driver for the structured generators: the fuzzer's bytes are
//! the choice stream of the generator named by VERIF_FUZZ_GEN, judged by the
//! oracle of the property named by VERIF_FUZZ_PROP (same code as the proptest
//! driver). Known findings are tolerated in-target so that the campaign
//! continues behind them.
#![no_main]
use libfuzzer_sys::fuzz_target;
use std::sync::OnceLock;
use walrus_verif::props;
use walrus_verif::run::{Ctx, Input, Tier};

struct State {
    ctx: Ctx,
    def: props::PropDef,
    gen: String,
}

fn state() -> &'static State {
    static S: OnceLock<State> = OnceLock::new();
    S.get_or_init(|| {
        walrus_verif::run::install_panic_hook();
        let prop = std::env::var("VERIF_FUZZ_PROP").unwrap_or_else(|_| "C03".into());
        let gen = std::env::var("VERIF_FUZZ_GEN").unwrap_or_else(|_| "full".into());
        let seed = std::env::var("VERIF_SEED").ok().and_then(|s| s.parse().ok()).unwrap_or(0);
        State {
            ctx: Ctx::new(&prop, Tier::Thorough, seed),
            def: props::get(&prop).expect("unknown property"),
            gen,
        }
    })
}

fuzz_target!(|data: &[u8]| {
    let st = state();
    let input = Input::Choices {
        gen: st.gen.clone(),
        bytes: data.to_vec(),
    };
    if let Err(f) = (st.def.check)(&st.ctx, &input) {
        if st.ctx.is_known(&f.signature).is_none() {
            let path = walrus_verif::run::write_replay(&st.ctx, &input, &f, "fuzz");
            println!("  failure {}: {}", f.signature, f.detail);
            println!("VIOLATION property={} replay={}", st.ctx.prop, path.display());
            panic!("violation {}", f.signature);
        }
    }
});
