//! Byte-level target for C05: walrus's accept/reject decision versus the
//! reference validator, both configurations, no unwind.
#![no_main]
use libfuzzer_sys::fuzz_target;
use std::sync::OnceLock;
use walrus_verif::props;
use walrus_verif::run::{Ctx, Input, Tier};

fn state() -> &'static (Ctx, props::PropDef) {
    static S: OnceLock<(Ctx, props::PropDef)> = OnceLock::new();
    S.get_or_init(|| {
        walrus_verif::run::install_panic_hook();
        let seed = std::env::var("VERIF_SEED").ok().and_then(|s| s.parse().ok()).unwrap_or(0);
        (Ctx::new("C05", Tier::Thorough, seed), props::get("C05").unwrap())
    })
}

fuzz_target!(|data: &[u8]| {
    let (ctx, def) = state();
    let input = Input::Wasm {
        origin: "libfuzzer".into(),
        bytes: data.to_vec(),
    };
    if let Err(f) = (def.check)(ctx, &input) {
        if ctx.is_known(&f.signature).is_none() {
            let path = walrus_verif::run::write_replay(ctx, &input, &f, "fuzz");
            println!("  failure {}: {}", f.signature, f.detail);
            println!("VIOLATION property={} replay={}", ctx.prop, path.display());
            panic!("violation {}", f.signature);
        }
    }
});
